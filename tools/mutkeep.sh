#!/bin/bash
# tools/mutkeep.sh <mutant-dir> <name> <check-id>...
# Runs tools/mutrun.sh and keeps the change under /verif/seeded/<name>/
# (patch.diff, demonstration, meta.json from its author, confirmed.txt = what
# was run here and what it showed).
set -u
M=$(readlink -f "$1"); NAME=$2; shift 2
D=/verif/seeded/$NAME
mkdir -p "$D"
cp "$M"/patch.diff "$M"/meta.json "$D"/
cp "$M"/demo_test.go "$D"/ 2>/dev/null; cp "$M"/main.go "$D"/ 2>/dev/null
{ echo "# tools/mutrun.sh $M $*   ($(date -u +%Y-%m-%dT%H:%MZ), /repo at $(git -C /repo rev-parse --short HEAD))"; /verif/tools/mutrun.sh "$M" "$@"; } 2>&1 | tee "$D"/confirmed.txt | grep -E '^(demo|suite|check|repo|PATCH)'
