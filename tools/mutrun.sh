#!/bin/bash
# tools/mutrun.sh <mutant-dir> <check-id>...
# Confirms a seeded change in a scratch worktree (suite passes with it, the
# demonstration fails with it and passes without it), then applies it to
# /repo, runs the named checks (quick tier) and undoes it straight afterwards.
# Prints one summary line per step. Nothing is ever committed to /repo.
set -u
export GOFLAGS=-mod=mod GOPROXY=off GOSUMDB=off GOTOOLCHAIN=local
M=$(readlink -f "$1"); shift
WT=$(mktemp -d /tmp/mutwt.XXXXXX)
cleanup() { git -C /repo worktree remove --force "$WT" >/dev/null 2>&1; rm -rf "$WT"; }
trap cleanup EXIT
git -C /repo worktree add -q --detach "$WT" HEAD || exit 2
DIR=$(python3 -c "import json;print(json.load(open('$M/meta.json'))['demo'].get('dir','.'))")
KIND=$(python3 -c "import json;print(json.load(open('$M/meta.json'))['demo'].get('kind','test'))")
TESTS=$(grep -ho 'func Test[A-Za-z0-9_]*' "$M"/demo_test.go 2>/dev/null | sed 's/func //' | paste -sd'|')
RACE=""; grep -q -- '-race' "$M/meta.json" && RACE="-race"   # demonstrations of data races ask for the race detector
rundemo() {
  if [ "$KIND" = test ]; then
    cp "$M/demo_test.go" "$WT/$DIR/zz_demo_test.go"
    (cd "$WT" && timeout 600 go test $RACE -vet=off -count=1 -run "^($TESTS)\$" "./$DIR/" >"$WT/demo.log" 2>&1); rc=$?
    rm -f "$WT/$DIR/zz_demo_test.go"
  else
    mkdir -p "$WT/cmd/zzdemo" && cp "$M"/main.go "$WT/cmd/zzdemo/main.go"
    (cd "$WT" && timeout 300 go run ./cmd/zzdemo >"$WT/demo.log" 2>&1); rc=$?
    rm -rf "$WT/cmd/zzdemo"
  fi
  return $rc
}
rundemo; echo "demo without patch: exit $? (want 0)"
if ! git -C "$WT" apply "$M/patch.diff"; then echo "PATCH DOES NOT APPLY"; exit 2; fi
(cd "$WT" && go build ./... && go test -vet=off -count=1 ./... >"$WT/suite.log" 2>&1); echo "suite with patch: exit $? (want 0) ; failures: $(grep -c '^--- FAIL\|^FAIL' "$WT/suite.log")"
rundemo; echo "demo with patch: exit $? (want non-zero)"; tail -5 "$WT/demo.log" | cut -c1-200 | sed 's/^/    | /'
[ $# -eq 0 ] && exit 0
if [ -n "$(git -C /repo status --porcelain)" ]; then echo "/repo is not clean; refusing"; exit 2; fi
git -C /repo apply "$M/patch.diff" || exit 2
for id in "$@"; do
  out=$(cd /verif && ./check "$id" quick 2>&1); rc=$?
  nv=$(echo "$out" | grep -c '^VIOLATION')
  echo "check $id: exit $rc, $nv VIOLATION lines"
  echo "$out" | grep -A1 '^VIOLATION' | grep '#' | head -3 | cut -c1-260 | sed 's/^/    | /'
  echo "$out" | grep '^INCONCLUSIVE' | head -2 | cut -c1-200 | sed 's/^/    | /'
done
git -C /repo checkout -- . && git -C /repo clean -fdq
echo "repo restored: $(git -C /repo status --porcelain | wc -l) dirty files"
