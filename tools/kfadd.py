#!/usr/bin/env python3
"""tools/kfadd.py <property> <key> <subject> <root> <what> <witness>  -- append an entry to known_findings.json (development-time only; checks never write this file)."""
import json,sys
prop,key,subject,root,what,witness=sys.argv[1:7]
kf=json.load(open('/verif/known_findings.json'))
kf['findings']=[f for f in kf['findings'] if not (f['property']==prop and f['key']==key)]
kf['findings'].append(dict(property=prop,key=key,subject=subject,what=what,witness=witness,root=root))
json.dump(kf,open('/verif/known_findings.json','w'),indent=1)
print(len(kf['findings']),'findings')
