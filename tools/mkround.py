#!/usr/bin/env python3
"""tools/mkround.py <round-dir>  -- prepares a round of seeded-change tasks.

Writes <round-dir>/TASK.md (copied from tools/TASK.md) and, per property,
<round-dir>/<ID>/PROPERTY.md holding ONLY the text of the property (from
properties.jsonl) plus one line per change earlier rounds already produced, so
that a new round explores other files and mechanisms. Nothing else from
/verif is exposed to the sub-agents."""
import glob, json, os, sys

V = os.path.dirname(os.path.dirname(os.path.abspath(__file__)))
out = sys.argv[1]
os.makedirs(out, exist_ok=True)
open(os.path.join(out, "TASK.md"), "w").write(open(os.path.join(V, "tools", "TASK.md")).read())
for line in open(os.path.join(V, "properties.jsonl")):
    p = json.loads(line)
    a = p["anchors"]
    s = "# Property %s: %s\n\n%s\n\nQuantified over: %s\n\nWhy unit tests cannot settle it: %s\n\nAnchored in files: %s\n\n" % (
        p["id"], p["title"], p["statement"], p["quantifier"]["text"], p["why_tests_cant"], ", ".join(a.get("files", [])))
    if a.get("state"):
        s += "State:\n" + "".join("- %s: %s (%s)\n" % (x["name"], x["meaning"], x["where"]) for x in a["state"]) + "\n"
    if a.get("mechanism"):
        s += "Mechanisms:\n" + "".join("- %s (%s)\n" % (x["name"], x["where"]) for x in a["mechanism"]) + "\n"
    s += "\n## Already tried in earlier rounds (choose DIFFERENT files and mechanisms)\n"
    for d in sorted(glob.glob(os.path.join(V, "seeded", p["id"] + "-*"))):
        try:
            m = json.load(open(os.path.join(d, "meta.json")))
        except Exception:
            continue
        s += "- %s: %s\n" % (", ".join(m.get("files_changed", [])), str(m.get("what", ""))[:200].replace("\n", " "))
    os.makedirs(os.path.join(out, p["id"], "out"), exist_ok=True)
    open(os.path.join(out, p["id"], "PROPERTY.md"), "w").write(s)
print("round prepared in", out)
