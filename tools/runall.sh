#!/bin/bash
# tools/runall.sh [quick|thorough] [seed]  -- runs every check, prints one line each
tier=${1:-quick}; seed=${2:-1}
cd "$(dirname "$(readlink -f "$0")")/.."
for id in $(python3 -c "import json;print(' '.join(c['property_id'] for c in json.load(open('MANIFEST.json'))['checks']))"); do
  start=$(date +%s)
  out=$(VERIF_SEED=$seed ./check $id $tier 2>&1); rc=$?
  echo "$id exit=$rc $(($(date +%s)-start))s viol=$(echo "$out" | grep -c '^VIOLATION') known=$(echo "$out" | grep -c '^KNOWN-FINDING') inconcl=$(echo "$out" | grep -c '^INCONCLUSIVE') :: $(echo "$out" | grep " seed=" | cut -c1-120)"
done
