#!/bin/bash
# tools/mutround.sh <round-dir> <ID> [extra checks...]  -- evaluates m1..m3 of one property of a round
R=$1; ID=$2; shift 2; TAG=${ROUND_TAG:-r2}
for m in 1 2 3; do
  d=$R/$ID/out/m$m
  [ -f "$d/patch.diff" ] || { echo "== $ID-m$m: missing"; continue; }
  echo "== $ID-$TAG-m$m"
  /verif/tools/mutkeep.sh "$d" "$ID-$TAG-m$m" "$ID" "$@" 2>&1 | grep -E "^(demo|suite|check|PATCH)" | sed 's/^/   /'
done
