#!/bin/bash
# tools/regress.sh [repo-dir] [name-glob]
# Re-runs, for every kept seeded change, the checks that caught it when it was
# confirmed (quick tier) and reports changes that no longer apply or that no
# check catches any more. Works on repo-dir (default /repo; give a private
# snapshot to run it in the background: VERIF_REPO is set accordingly).
set -u
R=${1:-/repo}; G=${2:-*}
export GOFLAGS=-mod=mod GOPROXY=off GOSUMDB=off GOTOOLCHAIN=local
[ "$R" != /repo ] && export VERIF_REPO=$R
# Every changed tree leaves its own plain and race builds in the Go build
# cache (hundreds of MB per change): the regression uses a cache of its own
# and empties it every 25 changes.
export GOCACHE=${REGRESS_GOCACHE:-/root/.cache/go-build-regress}
cd "$(dirname "$0")/.."
if [ -n "$(git -C "$R" status --porcelain)" ]; then echo "$R is not clean; refusing"; exit 2; fi
ok=0; bad=0; seen=0
for d in seeded/$G/; do
  name=$(basename "$d")
  seen=$((seen+1)); [ $((seen % 25)) -eq 0 ] && go clean -cache
  checks=$(grep -oE '^check \w+: exit 1' "$d/confirmed.txt" 2>/dev/null | awk '{print $2}' | tr -d ':' | sort -u | tr '\n' ' ')
  [ -z "$checks" ] && { echo "$name: no catching check on record"; bad=$((bad+1)); continue; }
  if ! git -C "$R" apply "$PWD/$d/patch.diff" 2>/dev/null; then echo "$name: PATCH no longer applies"; bad=$((bad+1)); continue; fi
  caught=""
  for id in $checks; do
    out=$(./check "$id" quick 2>&1); rc=$?
    [ $rc -eq 1 ] && caught="$caught $id"
  done
  git -C "$R" checkout -- . && git -C "$R" clean -fdq
  if [ -n "$caught" ]; then ok=$((ok+1)); echo "$name: caught by$caught (recorded: $checks)"; else bad=$((bad+1)); echo "$name: MISSED (recorded: $checks)"; fi
done
echo "regress: $ok caught, $bad need attention"
go clean -cache
