#!/usr/bin/env python3
"""Prints the markdown table of seeded changes and which checks caught them (from seeded/*/meta.json and confirmed.txt)."""
import json,glob,os,re
rows=[]
for d in sorted(glob.glob('/verif/seeded/*/')):
    name=os.path.basename(d.rstrip('/'))
    meta=json.load(open(d+'meta.json'))
    conf=open(d+'confirmed.txt').read() if os.path.exists(d+'confirmed.txt') else ''
    checks=re.findall(r'^check (\w+): exit (\d+), (\d+) VIOLATION', conf, re.M)
    caught=[c for c,e,n in checks if e=='1']
    silent=[c for c,e,n in checks if e=='0']
    files=', '.join(meta.get('files_changed',[])) or meta.get('origin','')[:70]
    needs=(meta.get('needs') or '')
    needs=re.sub(r'\s+',' ',needs)[:150]
    rows.append((name,meta.get('property',name.split('-')[0]),files,needs,' '.join(caught) or '-',' '.join(silent) or '-'))
print('| change | targets | files | needs to manifest | caught by | run but silent |')
print('|---|---|---|---|---|---|')
for r in rows: print('| '+' | '.join(r)+' |')

import sys
if len(sys.argv) > 1 and sys.argv[1] == '--update':
    import io, contextlib
    lines=['| change | targets | files | needs to manifest | caught by | run but silent |','|---|---|---|---|---|---|']+['| '+' | '.join(r)+' |' for r in rows]
    s=open('/verif/DESIGN.md').read()
    a=s.index('<!-- SEEDTABLE-BEGIN -->')+len('<!-- SEEDTABLE-BEGIN -->\n')
    b=s.index('<!-- SEEDTABLE-END -->')
    open('/verif/DESIGN.md','w').write(s[:a]+'\n'.join(lines)+'\n'+s[b:])
