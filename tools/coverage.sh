#!/bin/bash
# tools/coverage.sh  -- statement coverage of the library under test reached by
# the quick tier of ALL checks (development aid: shows which library functions
# no check ever calls). Builds a coverage-instrumented child into .work/cov.
set -u
cd "$(dirname "$0")/.."
export VERIF_DIR=$PWD GOFLAGS=-mod=mod GOPROXY=off GOSUMDB=off GOTOOLCHAIN=local
./check C12 quick >/dev/null; ./check C13 quick >/dev/null   # builds the cmd/ binaries the CLI cases need
export VERIF_BIN_INDICATOR_SYNC=$PWD/.work/bin/indicator-sync VERIF_BIN_INDICATOR_BACKTEST=$PWD/.work/bin/indicator-backtest
C=$PWD/.work/cov; rm -rf "$C"; mkdir -p "$C/data"
(cd harness && CGO_ENABLED=0 go build -tags verif -cover -coverpkg=github.com/cinar/indicator/v2/...,verif/harness/... -o "$C/vchild-cov" ./cmd/vchild) || exit 2
for id in C01 C02 C04 C05 C06 C07 C08 C09 C09R C10 C10R C11 C12 C12R C13 C13R C14 C15 C16 C17 C18 C19; do
  GOCOVERDIR=$C/data timeout 900 "$C/vchild-cov" -prop $id -tier quick -seed 1 -log "$C/$id.jsonl" >"$C/$id.out" 2>&1
done
for s in $(seq 0 15); do   # C03 in shards: the inverted-period cases end in a process-fatal runtime deadlock
  GOCOVERDIR=$C/data timeout 300 "$C/vchild-cov" -prop C03 -tier quick -seed 1 -shard $s -nshards 16 -log "$C/C03-$s.jsonl" >"$C/C03-$s.out" 2>&1
done
(cd harness && go tool covdata textfmt -i="$C/data" -o="$C/cov.txt" && go tool cover -func="$C/cov.txt" | grep cinar/indicator | sed 's|github.com/cinar/indicator/v2/||' > "$C/func.txt")
echo "library functions never reached:"; awk '$NF=="0.0%"' "$C/func.txt"
awk '{v=$NF; gsub("%","",v); s+=v; n++} END {printf "mean function coverage over %d functions: %.1f%%\n", n, s/n}' "$C/func.txt"
