#!/bin/bash
# tools/mutrev.sh <fix-commit> <name> <check-id>...
# Re-introduces a defect that was repaired by a "fix:" commit (reverse patch),
# runs the named checks against it and undoes it. Kept under seeded/<name>/.
set -u
export GOFLAGS=-mod=mod GOPROXY=off GOSUMDB=off GOTOOLCHAIN=local
C=$1; NAME=$2; shift 2
D=/verif/seeded/$NAME; mkdir -p "$D"
git -C /repo diff "$C" "$C^" > "$D/patch.diff"
SUBJ=$(git -C /repo log -1 --format=%s "$C")
python3 - "$D" "$C" "$SUBJ" "$*" <<'PY'
import json,sys
d,c,subj,checks=sys.argv[1:5]
json.dump({"origin":"reverse of fix commit "+c+" ("+subj+"): re-introduces a genuine defect of the pinned tree","needs":"see the 'fixed:' entry for this commit in known_findings.json (witness input)","checks_run":checks.split(),"demo":"the witness recorded in known_findings.json; the pinned test suite passed with this defect present (it is the original code)"},open(d+"/meta.json","w"),indent=1)
PY
if [ -n "$(git -C /repo status --porcelain)" ]; then echo "/repo is not clean; refusing"; exit 2; fi
git -C /repo apply "$D/patch.diff" || exit 2
{
echo "# tools/mutrev.sh $C $NAME $*   ($(date -u +%Y-%m-%dT%H:%MZ), /repo at $(git -C /repo rev-parse --short HEAD))"
(cd /repo && go build ./... && go test -vet=off -count=1 ./... >/tmp/mutrev-suite.log 2>&1); echo "suite with defect: exit $? (want 0)"
for id in "$@"; do
  out=$(cd /verif && ./check "$id" quick 2>&1); rc=$?
  echo "check $id: exit $rc, $(echo "$out" | grep -c '^VIOLATION') VIOLATION lines"
  echo "$out" | grep -A1 '^VIOLATION' | grep '#' | head -2 | cut -c1-260 | sed 's/^/    | /'
done
} 2>&1 | tee "$D/confirmed.txt"
git -C /repo checkout -- . && git -C /repo clean -fdq
echo "repo restored: $(git -C /repo status --porcelain | wc -l) dirty files"
