#!/bin/bash
# Builds the framework offline from files on disk and warms the Go build cache
# (plain and -race children) so that the first check does not pay for it.
set -e
cd /verif
export GOFLAGS=-mod=mod GOPROXY=off GOSUMDB=off GOTOOLCHAIN=local
mkdir -p .work/bin .work/logs evidence replays
( cd harness && go build -o ../.work/bin/vcheck ./cmd/vcheck )
( cd harness && CGO_ENABLED=0 go build -tags verif -o ../.work/bin/vchild ./cmd/vchild )
( cd harness && CGO_ENABLED=1 go build -tags verif -race -o ../.work/bin/vchild-race ./cmd/vchild )
echo setup ok
