//go:build tools

package harness

import (
	_ "github.com/anishathalye/porcupine"
)
