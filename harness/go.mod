module verif/harness

go 1.22

require (
	github.com/anishathalye/porcupine v1.3.0
	github.com/cinar/indicator/v2 v2.0.0-00010101000000-000000000000
)

replace github.com/cinar/indicator/v2 => /repo
