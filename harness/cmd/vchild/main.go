// vchild is the child worker: it links the library under test (built from the
// current /repo tree) and executes the case list of one property shard.
package main

import (
	"flag"
	"fmt"
	"os"

	"verif/harness/internal/props"
	"verif/harness/internal/run"
)

func main() {
	prop := flag.String("prop", "", "property id")
	tier := flag.String("tier", "quick", "quick|thorough")
	seed := flag.Int64("seed", 1, "seed")
	shard := flag.Int("shard", 0, "shard index")
	nshards := flag.Int("nshards", 1, "number of shards")
	from := flag.Int("from", 0, "first case index")
	to := flag.Int("to", -1, "last case index (exclusive)")
	only := flag.String("only", "", "run only the case with this label")
	logPath := flag.String("log", "", "event log path")
	flag.Parse()
	f := props.All[*prop]
	if f == nil {
		fmt.Fprintln(os.Stderr, "vchild: unknown property", *prop)
		os.Exit(2)
	}
	ctx, err := run.NewCtx(*logPath)
	if err != nil {
		fmt.Fprintln(os.Stderr, "vchild:", err)
		os.Exit(2)
	}
	ctx.Prop, ctx.Tier, ctx.Seed = *prop, *tier, *seed
	ctx.Shard, ctx.NShards, ctx.From, ctx.To, ctx.Only = *shard, *nshards, *from, *to, *only
	f(ctx)
	ctx.Finish()
}
