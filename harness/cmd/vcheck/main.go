// vcheck is the parent/orchestrator. It does not link the library under test:
// it builds the child (cmd/vchild) from the current /repo working tree, runs it
// as child processes (one shard per core), folds their event logs, attributes
// crashes (runtime deadlock reports, panics) to the last BEGIN record, applies
// the known-findings file, writes evidence/<ID>.json and prints the verdict
// lines.
package main

import (
	"bufio"
	"bytes"
	"crypto/sha1"
	"encoding/json"
	"fmt"
	"os"
	"os/exec"
	"path/filepath"
	"regexp"
	"sort"
	"strconv"
	"strings"
	"sync"
	"syscall"
	"time"
)

// verifDir is /verif unless VERIF_DIR points at a snapshot of it (background
// sweeps started with `vp run` work in a worktree of /verif).
var verifDir = func() string {
	if d := os.Getenv("VERIF_DIR"); d != "" {
		return d
	}
	return "/verif"
}()

var (
	workDir    = filepath.Join(verifDir, ".work")
	harnessDir = filepath.Join(verifDir, "harness")
)

type rec struct {
	T      string          `json:"t"`
	I      int             `json:"i"`
	Label  string          `json:"label"`
	Key    string          `json:"key"`
	Msg    string          `json:"msg"`
	Detail json.RawMessage `json:"detail"`
	Stats  *stats          `json:"stats"`
}

type stats struct {
	Evaluations  int                 `json:"evaluations"`
	Distinct     []uint64            `json:"distinct"`
	Counters     map[string]int64    `json:"counters"`
	Sets         map[string][]uint64 `json:"sets"`
	Samples      []json.RawMessage   `json:"samples"`
	Violations   int                 `json:"violations"`
	Suppressed   int                 `json:"suppressed"`
	Inconclusive []string            `json:"inconclusive"`
}

type violation struct {
	Key    string          `json:"key"`
	Label  string          `json:"label"`
	Index  int             `json:"index"`
	Msg    string          `json:"msg"`
	Detail json.RawMessage `json:"detail,omitempty"`
	Crash  string          `json:"crash,omitempty"`
}

type finding struct {
	Property string `json:"property"`
	Key      string `json:"key"`
	Subject  string `json:"subject"`
	What     string `json:"what"`
	Witness  string `json:"witness"`
	Root     string `json:"root"`
}

type findingsFile struct {
	Findings []finding `json:"findings"`
	Fixed    []string  `json:"fixed"`
}

var childTmp string

func env() []string {
	e := os.Environ()
	e = append(e, "GOFLAGS=-mod=mod", "GOPROXY=off", "GOSUMDB=off", "GOTOOLCHAIN=local")
	return e
}

func buildChild(race bool) (string, error) {
	bin := filepath.Join(workDir, "bin", "vchild")
	args := []string{"build", "-tags", "verif", "-o"}
	if race {
		bin += "-race"
		args = append(args, bin, "-race")
	} else {
		args = append(args, bin)
	}
	if mf := os.Getenv("VERIF_MODFILE"); mf != "" {
		args = append(args, "-modfile="+mf) // build against a snapshot of the repository (background sweeps only)
	}
	args = append(args, "./cmd/vchild")
	cmd := exec.Command("go", args...)
	cmd.Dir = harnessDir
	// A cgo binary carries an extra M, which switches off the runtime's
	// "all goroutines are asleep" detector: plain children are pure Go.
	// The race detector needs cgo (and has no deadlock detector anyway).
	if race {
		cmd.Env = append(env(), "CGO_ENABLED=1")
	} else {
		cmd.Env = append(env(), "CGO_ENABLED=0")
	}
	out, err := cmd.CombinedOutput()
	if err != nil {
		return "", fmt.Errorf("go %s: %v\n%s", strings.Join(args, " "), err, out)
	}
	return bin, nil
}

// buildCLI builds one of the repository's command line tools from the tree
// under test (the end-to-end cases of C12 / C13 execute it).
func buildCLI(name string) (string, error) {
	repoDir := "/repo"
	if r := os.Getenv("VERIF_REPO"); r != "" {
		repoDir = r
	}
	bin := filepath.Join(workDir, "bin", name)
	cmd := exec.Command("go", "build", "-o", bin, "./cmd/"+name)
	cmd.Dir = repoDir
	cmd.Env = append(env(), "CGO_ENABLED=0")
	out, err := cmd.CombinedOutput()
	if err != nil {
		return "", fmt.Errorf("go build ./cmd/%s: %v\n%s", name, err, out)
	}
	return bin, nil
}

type shardResult struct {
	viols    []violation
	stats    []*stats
	restarts int
	inconcl  []string
	cases    int
}

var crashRe = regexp.MustCompile(`(?m)^(fatal error: .*|panic: .*)$`)

func classifyCrash(out string) (kind, line string) {
	m := crashRe.FindString(out)
	switch {
	case strings.Contains(out, "all goroutines are asleep - deadlock!"):
		return "deadlock", "fatal error: all goroutines are asleep - deadlock!"
	case strings.HasPrefix(m, "panic:"):
		return "panic", m
	case strings.HasPrefix(m, "fatal error:"):
		return "fatal", m
	}
	return "", ""
}

// runShard runs one shard to completion, restarting after attributed crashes.
func runShard(bin string, p *propCfg, tier string, seed int64, shard, nshards int, only string, raceLog string) shardResult {
	var res shardResult
	from := 0
	for {
		logPath := filepath.Join(workDir, "logs", fmt.Sprintf("%s-%s-s%d-f%d.jsonl", p.ID, tier, shard, from))
		outPath := strings.TrimSuffix(logPath, ".jsonl") + ".out"
		os.Remove(logPath)
		args := []string{"-prop", p.ID, "-tier", tier, "-seed", strconv.FormatInt(seed, 10),
			"-shard", strconv.Itoa(shard), "-nshards", strconv.Itoa(nshards), "-from", strconv.Itoa(from), "-log", logPath}
		if only != "" {
			args = append(args, "-only", only)
		}
		cmd := exec.Command(bin, args...)
		cmd.Dir = verifDir
		e := env()
		if childTmp != "" {
			e = append(e, "TMPDIR="+childTmp)
		}
		if raceLog != "" {
			e = append(e, "GORACE=halt_on_error=0 log_path="+raceLog)
		}
		cmd.Env = e
		of, _ := os.Create(outPath)
		cmd.Stdout = of
		cmd.Stderr = of
		timedOut := false
		if err := cmd.Start(); err != nil {
			res.inconcl = append(res.inconcl, "cannot start child: "+err.Error())
			return res
		}
		limit := time.Duration(p.watchdog(tier)) * time.Second
		timer := time.AfterFunc(limit, func() {
			timedOut = true
			cmd.Process.Signal(syscall.SIGQUIT)
			time.AfterFunc(20*time.Second, func() { cmd.Process.Kill() })
		})
		cmd.Wait()
		timer.Stop()
		of.Close()

		done := false
		var lastStats *stats // cumulative: the last record of this process counts
		last := rec{I: -1}
		lf, err := os.Open(logPath)
		if err == nil {
			sc := bufio.NewScanner(lf)
			sc.Buffer(make([]byte, 1<<20), 1<<28)
			for sc.Scan() {
				var r rec
				if json.Unmarshal(sc.Bytes(), &r) != nil {
					continue
				}
				switch r.T {
				case "begin":
					last = r
					res.cases++
				case "desc":
					if r.I == last.I {
						last.Detail = r.Detail
					}
				case "viol":
					res.viols = append(res.viols, violation{Key: r.Key, Label: r.Label, Index: r.I, Msg: r.Msg, Detail: r.Detail})
				case "stats":
					lastStats = r.Stats
				case "done":
					done = true
				}
			}
			lf.Close()
		}
		if lastStats != nil {
			res.stats = append(res.stats, lastStats)
		}
		if done {
			if !p.KeepLogs && os.Getenv("VERIF_KEEP_LOGS") == "" {
				os.Remove(logPath)
				os.Remove(outPath)
			}
			return res
		}
		outB, _ := os.ReadFile(outPath)
		out := string(outB)
		if timedOut {
			// A build with the race detector has no deadlock detector: a case
			// that hangs there is put to the referee, the same case in a child
			// without the race detector, where the runtime itself decides.
			if raceLog != "" && last.I >= 0 {
				if crash, ok := deadlockReferee(p, tier, seed, shard, nshards, last.I); ok {
					if len(crash) > 6000 {
						crash = crash[:6000] + "\n…"
					}
					res.viols = append(res.viols, violation{
						Key: "crash/deadlock/" + subjectOf(last.Label), Label: last.Label, Index: last.I,
						Msg:    "fatal error: all goroutines are asleep - deadlock! (the race-detector build hung at this case until the watchdog; the same case without the race detector ends in the runtime's deadlock report)",
						Detail: last.Detail, Crash: crash,
					})
					res.restarts++
					return res
				}
			}
			res.inconcl = append(res.inconcl, fmt.Sprintf("watchdog (%v) fired in shard %d at case %q; goroutine dump in %s", limit, shard, last.Label, outPath))
			return res
		}
		kind, line := classifyCrash(out)
		if kind == "" {
			res.inconcl = append(res.inconcl, fmt.Sprintf("child exited without a verdict in shard %d at case %q; output in %s", shard, last.Label, outPath))
			return res
		}
		if last.I < 0 {
			res.inconcl = append(res.inconcl, fmt.Sprintf("child crashed (%s) before the first case in shard %d; output in %s", line, shard, outPath))
			return res
		}
		if len(out) > 6000 {
			out = out[:6000] + "\n…"
		}
		res.viols = append(res.viols, violation{
			Key: "crash/" + kind + "/" + subjectOf(last.Label), Label: last.Label, Index: last.I,
			Msg: line, Detail: last.Detail, Crash: out,
		})
		res.restarts++
		if only != "" || res.restarts > p.maxRestarts(tier) {
			if only == "" {
				res.inconcl = append(res.inconcl, fmt.Sprintf("shard %d stopped after %d crash restarts", shard, res.restarts))
			}
			return res
		}
		from = last.I + 1
	}
}

var (
	refereeOnce sync.Once
	refereeBin  string
)

// deadlockReferee runs case i of a race phase in a child built without the
// race detector and reports whether the Go runtime ended it with its
// "all goroutines are asleep" report. The verdict is the runtime's, not a
// clock's: the bound on the run only ends a referee that does not decide.
func deadlockReferee(p *propCfg, tier string, seed int64, shard, nshards, i int) (string, bool) {
	refereeOnce.Do(func() {
		if b, err := buildChild(false); err == nil {
			refereeBin = b
		}
	})
	if refereeBin == "" {
		return "", false
	}
	logPath := filepath.Join(workDir, "logs", fmt.Sprintf("%s-%s-s%d-referee%d.jsonl", p.ID, tier, shard, i))
	defer os.Remove(logPath)
	cmd := exec.Command(refereeBin, "-prop", p.ID, "-tier", tier, "-seed", strconv.FormatInt(seed, 10),
		"-shard", strconv.Itoa(shard), "-nshards", strconv.Itoa(nshards),
		"-from", strconv.Itoa(i), "-to", strconv.Itoa(i+1), "-log", logPath)
	cmd.Dir = verifDir
	e := env()
	if childTmp != "" {
		e = append(e, "TMPDIR="+childTmp)
	}
	cmd.Env = e
	var buf strings.Builder
	cmd.Stdout = &buf
	cmd.Stderr = &buf
	if cmd.Start() != nil {
		return "", false
	}
	timer := time.AfterFunc(time.Duration(p.watchdog(tier))*time.Second, func() { cmd.Process.Kill() })
	cmd.Wait()
	timer.Stop()
	kind, _ := classifyCrash(buf.String())
	return buf.String(), kind == "deadlock"
}

// subjectOf returns the first two path elements of a case label.
func subjectOf(label string) string {
	parts := strings.Split(label, "/")
	if len(parts) > 2 {
		parts = parts[:2]
	}
	return strings.Join(parts, "/")
}

var raceBlock = regexp.MustCompile(`(?s)WARNING: DATA RACE\n(.*?)\n==================`)
var frameRe = regexp.MustCompile(`(?m)^  (\S+)\(\)\n      (\S+):(\d+)`)

// raceSignature reduces one race report to the pair of outermost library
// frames of the two accesses (line numbers stripped).
func raceSignature(block string) string {
	parts := regexp.MustCompile(`(?m)^(Previous |)(Read|Write|read|write|atomic).* by .*:$`).Split(block, -1)
	var sigs []string
	for _, part := range parts[1:] {
		if i := strings.Index(part, "\n\n"); i >= 0 {
			part = part[:i]
		}
		fr := frameRe.FindAllStringSubmatch(part, -1)
		inner, outer := "", ""
		for _, f := range fr {
			if strings.Contains(f[1], "github.com/cinar/indicator/v2") || strings.Contains(f[2], "/repo/") {
				fn := strings.TrimPrefix(f[1], "github.com/cinar/indicator/v2/")
				if inner == "" {
					inner = fn
				}
				outer = fn
			}
		}
		if inner == "" && len(fr) > 0 {
			inner = fr[0][1]
			outer = inner
		}
		sigs = append(sigs, inner+"<"+outer)
		if len(sigs) == 2 {
			break
		}
	}
	sort.Strings(sigs)
	return strings.Join(sigs, " | ")
}

func collectRaces(prefix string) (blocks int, bySig map[string]string) {
	bySig = map[string]string{}
	files, _ := filepath.Glob(prefix + "*")
	for _, f := range files {
		b, err := os.ReadFile(f)
		if err != nil {
			continue
		}
		for _, m := range raceBlock.FindAllStringSubmatch(string(b), -1) {
			blocks++
			sig := raceSignature(m[1])
			if _, ok := bySig[sig]; !ok {
				bySig[sig] = m[0]
			}
		}
	}
	return
}

func main() {
	if len(os.Args) < 3 {
		fmt.Fprintln(os.Stderr, "usage: vcheck <ID> <quick|thorough> | vcheck <ID> --replay <file>")
		os.Exit(2)
	}
	id := os.Args[1]
	p := props[id]
	if p == nil {
		fmt.Fprintln(os.Stderr, "unknown property", id)
		os.Exit(2)
	}
	tier := os.Args[2]
	seed := int64(1)
	if s := os.Getenv("VERIF_SEED"); s != "" {
		if v, err := strconv.ParseInt(s, 10, 64); err == nil {
			seed = v
		}
	}
	only := ""
	if tier == "--replay" {
		if len(os.Args) < 4 {
			fmt.Fprintln(os.Stderr, "missing replay file")
			os.Exit(2)
		}
		b, err := os.ReadFile(os.Args[3])
		if err != nil {
			fmt.Fprintln(os.Stderr, err)
			os.Exit(2)
		}
		var rp struct {
			Tier  string `json:"tier"`
			Seed  int64  `json:"seed"`
			Label string `json:"label"`
		}
		json.Unmarshal(b, &rp)
		tier, seed, only = rp.Tier, rp.Seed, rp.Label
	}
	if tier != "quick" && tier != "thorough" {
		fmt.Fprintln(os.Stderr, "tier must be quick or thorough")
		os.Exit(2)
	}
	start := time.Now()
	os.MkdirAll(filepath.Join(workDir, "bin"), 0o755)
	os.MkdirAll(filepath.Join(workDir, "logs"), 0o755)
	os.MkdirAll(filepath.Join(verifDir, "evidence"), 0o755)
	os.MkdirAll(filepath.Join(verifDir, "replays"), 0o755)

	var known findingsFile
	if b, err := os.ReadFile(filepath.Join(verifDir, "known_findings.json")); err == nil {
		if err := json.Unmarshal(b, &known); err != nil {
			fmt.Fprintln(os.Stderr, "known_findings.json:", err)
			os.Exit(2)
		}
	}
	knownBy := map[string]finding{}
	for _, f := range known.Findings {
		if f.Property == id {
			knownBy[f.Key] = f
		}
	}

	type phase struct {
		race bool
		name string
	}
	phases := []phase{{false, "plain"}}
	if p.Race == "only" {
		phases = []phase{{true, "race"}}
	} else if p.Race == "both" {
		phases = append(phases, phase{true, "race"})
	}

	// Children create scratch files (file-system repositories, report
	// directories); a crashed child cannot remove its own, so they all live in
	// one directory that the parent removes.
	if d, err := os.MkdirTemp("", "verif-"+id+"-"); err == nil {
		childTmp = d
	}
	var all shardResult
	raceBlocks := 0
	raceSigs := map[string]string{}
	for _, ph := range phases {
		bin, err := buildChild(ph.race)
		if err != nil {
			// A tree that does not build cannot be judged: inconclusive, and loudly so.
			fmt.Println("INCONCLUSIVE property=" + id + " build failed")
			fmt.Fprintln(os.Stderr, err)
			os.Exit(3)
		}
		for _, cli := range p.CLI {
			cbin, err := buildCLI(cli)
			if err != nil {
				fmt.Println("INCONCLUSIVE property=" + id + " build failed")
				fmt.Fprintln(os.Stderr, err)
				os.Exit(3)
			}
			os.Setenv("VERIF_BIN_"+strings.ToUpper(strings.ReplaceAll(cli, "-", "_")), cbin)
		}
		nshards := p.shards(tier)
		if only != "" {
			nshards = 1
		}
		raceLog := ""
		if ph.race {
			raceDir := filepath.Join(workDir, "race", id)
			os.RemoveAll(raceDir)
			os.MkdirAll(raceDir, 0o755)
			raceLog = filepath.Join(raceDir, "r")
		}
		pid := p.ID
		if ph.race && p.Race == "both" {
			pid = p.ID + "R" // the race phase of a two-phase property has its own case list
		}
		var wg sync.WaitGroup
		results := make([]shardResult, nshards)
		sem := make(chan struct{}, 16)
		for s := 0; s < nshards; s++ {
			wg.Add(1)
			go func(s int) {
				defer wg.Done()
				sem <- struct{}{}
				defer func() { <-sem }()
				pp := *p
				pp.ID = pid
				results[s] = runShard(bin, &pp, tier, seed, s, nshards, only, raceLog)
			}(s)
		}
		wg.Wait()
		for _, r := range results {
			all.viols = append(all.viols, r.viols...)
			all.stats = append(all.stats, r.stats...)
			all.restarts += r.restarts
			all.inconcl = append(all.inconcl, r.inconcl...)
			all.cases += r.cases
		}
		if ph.race {
			n, sigs := collectRaces(raceLog)
			raceBlocks += n
			for k, v := range sigs {
				raceSigs[k] = v
			}
		}
	}
	if childTmp != "" {
		os.RemoveAll(childTmp)
	}
	for sig, block := range raceSigs {
		if len(block) > 6000 {
			block = block[:6000] + "\n…"
		}
		all.viols = append(all.viols, violation{Key: "race/" + sig, Label: "race/" + sig, Msg: "data race reported by the Go race detector", Crash: block})
	}

	// Fold statistics.
	evals := 0
	distinct := map[uint64]struct{}{}
	sets := map[string]map[uint64]struct{}{}
	counters := map[string]int64{}
	var samples []json.RawMessage
	var inconcl []string
	inconcl = append(inconcl, all.inconcl...)
	for _, st := range all.stats {
		if st == nil {
			continue
		}
		evals += st.Evaluations
		for _, h := range st.Distinct {
			distinct[h] = struct{}{}
		}
		for name, l := range st.Sets {
			m := sets[name]
			if m == nil {
				m = map[uint64]struct{}{}
				sets[name] = m
			}
			for _, h := range l {
				m[h] = struct{}{}
			}
		}
		for k, v := range st.Counters {
			if strings.HasPrefix(k, "max_") {
				if v > counters[k] {
					counters[k] = v
				}
			} else {
				counters[k] += v
			}
		}
		if len(samples) < 4 {
			for _, s := range st.Samples {
				if len(samples) < 4 {
					samples = append(samples, s)
				}
			}
		}
		inconcl = append(inconcl, st.Inconclusive...)
	}

	// Classify violations.
	sort.SliceStable(all.viols, func(i, j int) bool { return all.viols[i].Label < all.viols[j].Label })
	knownSeen := map[string]int{}
	var fresh []violation
	for _, v := range all.viols {
		if _, ok := knownBy[v.Key]; ok && v.Key != "" {
			knownSeen[v.Key]++
			continue
		}
		fresh = append(fresh, v)
	}
	var keys []string
	for k := range knownSeen {
		keys = append(keys, k)
	}
	sort.Strings(keys)
	for _, k := range keys {
		f := knownBy[k]
		fmt.Printf("KNOWN-FINDING: property=%s %s %s: %s (observed %d times in this run)\n", id, f.Key, f.Subject, clipStr(f.What, 220), knownSeen[k])
	}
	printed := map[string]int{}
	nViolLines := 0
	for _, v := range fresh {
		gk := v.Key
		if gk == "" {
			gk = subjectOf(v.Label) + "|" + firstWords(digits.ReplaceAllString(v.Msg, "#"), 8)
		}
		printed[gk]++
		if printed[gk] > 2 || nViolLines >= 25 {
			continue
		}
		h := sha1.Sum([]byte(v.Label + "|" + v.Key + "|" + v.Msg))
		path := filepath.Join(verifDir, "replays", fmt.Sprintf("%s-%x.json", id, h[:6]))
		rp := map[string]any{
			"property": id, "tier": tier, "seed": seed, "label": v.Label, "index": v.Index,
			"key": v.Key, "msg": v.Msg, "detail": v.Detail, "crash": v.Crash,
			"replay_cmd": fmt.Sprintf("./check %s --replay %s", id, path),
		}
		b, _ := json.MarshalIndent(rp, "", " ")
		os.WriteFile(path, b, 0o644)
		fmt.Printf("VIOLATION property=%s replay=%s\n", id, path)
		fmt.Printf("  # key=%q %s: %s\n", v.Key, v.Label, oneLine(v.Msg))
		nViolLines++
	}
	if len(fresh) > nViolLines {
		fmt.Printf("  # (%d violation records in total, %d distinct signatures; further replay files suppressed)\n", len(fresh), len(printed))
	}

	setCounts := map[string]int{}
	for name, m := range sets {
		setCounts[name] = len(m)
	}
	wall := time.Since(start).Seconds()
	minEvals := p.minEvals(tier)
	if only == "" && evals < minEvals {
		inconcl = append(inconcl, fmt.Sprintf("observed only %d evaluations, expected at least %d", evals, minEvals))
	}
	if only == "" && p.RequirePositive != "" {
		seen := 0
		for k, v := range counters {
			if strings.HasPrefix(k, p.RequirePositive) {
				seen++
				if v <= 0 {
					inconcl = append(inconcl, fmt.Sprintf("nothing observed for %s", k))
				}
			}
		}
		if seen < p.RequireCount {
			inconcl = append(inconcl, fmt.Sprintf("only %d of the expected %d %q subjects were exercised", seen, p.RequireCount, p.RequirePositive))
		}
	}
	if only == "" && len(distinct) < 2 {
		inconcl = append(inconcl, "fewer than 2 distinct non-trivial cases observed")
	}

	if only == "" {
		if len(samples) == 0 {
			samples = append(samples, json.RawMessage(`"(no sample recorded)"`))
		}
		cov := map[string]any{
			"evaluations":         evals,
			"distinct_nontrivial": len(distinct),
			"rule":                p.Rule,
			"samples":             samples,
			"counters":            counters,
			"distinct_sets":       setCounts,
			"child_restarts_after_crash": all.restarts,
			"known_findings_observed":    knownSeen,
			"inconclusive":               inconcl,
		}
		if p.Exhaustive != "" {
			cov["exhaustive"] = true
			cov["exhaustive_scope"] = p.Exhaustive
		}
		if p.Race != "" {
			cov["race_reports"] = raceBlocks
			cov["race_distinct_signatures"] = len(raceSigs)
		}
		ev := map[string]any{
			"property_id": id, "tier": tier, "seed": seed, "level": p.Level,
			"coverage": cov, "assumptions": p.Assumptions, "wall_s": wall, "violations": len(fresh),
		}
		b, _ := json.MarshalIndent(ev, "", " ")
		os.WriteFile(filepath.Join(verifDir, "evidence", id+".json"), append(b, '\n'), 0o644)
	}

	fmt.Printf("%s %s seed=%d: %d evaluations, %d distinct non-trivial, %d violations, %d known-finding signatures, %d child restarts, %.1fs\n",
		id, tier, seed, evals, len(distinct), len(fresh), len(knownSeen), all.restarts, wall)
	var ck []string
	for k := range counters {
		ck = append(ck, k)
	}
	sort.Strings(ck)
	var sb bytes.Buffer
	for _, k := range ck {
		fmt.Fprintf(&sb, " %s=%d", k, counters[k])
	}
	for k, v := range setCounts {
		fmt.Fprintf(&sb, " |%s|=%d", k, v)
	}
	if sb.Len() > 0 {
		fmt.Println("  observed:" + sb.String())
	}
	if len(fresh) > 0 {
		os.Exit(1)
	}
	if len(inconcl) > 0 {
		for _, m := range inconcl {
			fmt.Printf("INCONCLUSIVE property=%s %s\n", id, m)
		}
		os.Exit(3)
	}
}

var digits = regexp.MustCompile(`[-+]?[0-9][0-9.e+-]*`)

func clipStr(s string, n int) string {
	if len(s) > n {
		return s[:n] + "…"
	}
	return s
}

func firstWords(s string, n int) string {
	f := strings.Fields(s)
	if len(f) > n {
		f = f[:n]
	}
	return strings.Join(f, " ")
}

func oneLine(s string) string {
	s = strings.ReplaceAll(s, "\n", " ")
	if len(s) > 300 {
		s = s[:300] + "…"
	}
	return s
}
