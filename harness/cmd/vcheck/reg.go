package main

func init() {
	reg(&propCfg{
		ID: "C17", Level: "exploration",
		Rule: "random operation histories (1-400 ops, alphabets of 2-7 values drawn from the extremes of int8/int16/int32/int64/int/float32/float64, capacities 1-9) run in lock-step against a bounded-FIFO model (Ring) and a multiset model (Bst) with a reflective structural walk of the live tree every 16 ops; plus every Bst history of length <= L over a 3-letter alphabet (9 step kinds). A history is counted as distinct non-trivial when it contains a remove and a duplicate insert (Bst) or a put on a full ring and a get (Ring); exhaustive batches count once each.",
		Exhaustive: "all Bst histories of length <= 5 (quick) / <= 7 (thorough) over {insert,remove,contains} x 3 values, for float64 {1,2,3} and int8 {-128,0,127}",
		Shards: [2]int{16, 16}, MinEvals: [2]int{100, 1000},
	})
	reg(&propCfg{
		ID: "C16", Level: "exploration",
		Rule: "every stream helper is run inside the timer-free pipeline runner (independent reader per output, producers must reach close, goroutine census afterwards) and compared exactly with a pure slice model: exhaustively for all input lengths 0-6 (thorough 0-8; 0-4/0-5 and 0-3/0-4 per stream for the 2- and 3-input zippers, all combinations of unequal lengths) x all parameters 0-8 x 4 schedule parameterisations x element types int, float64, int64 (distinct, signed elements), plus random lengths up to 200 with random capacities, pacing and GOMAXPROCS. A case is counted as distinct non-trivial per (helper, type, length tuple with a non-empty first input, parameter tuple).",
		Exhaustive: "lengths 0-6 x parameters 0-8 per helper (Operate: all length pairs 0-4; Operate3: all triples 0-3; Since: all sequences of length <= 7 over 3 letters; Seq: from/to in [-3,6], increments 1-3)",
		Shards: [2]int{16, 16}, MinEvals: [2]int{100, 100},
	})
	reg(&propCfg{
		ID: "C01", Level: "exploration",
		Rule: "for each of the 61 indicator Compute methods: default configuration + seeded random admissible configurations (periods 1-12, documented ordering constraints) x series classes (random walks, 2-decimal walks, dyadic, ties, degenerate bars; thorough adds flat, monotone, plateau, spike, limit runs; zero/negative integers for additive indicators) x lengths {2w+3, 60 (,160)}; the real Compute is run on channels and every output position is compared with a slice reference written from the doc comment (window evaluated directly), tolerance 1e-9 x natural scale, ill-conditioned positions exempt. distinct_nontrivial counts distinct (indicator, configuration, class) triples with at least one compared position.",
		Shards: [2]int{16, 16}, MinEvals: [2]int{1000, 10000},
		RequirePositive: "cmp:", RequireCount: 61,
	})
	reg(&propCfg{
		ID: "C02", Level: "exploration",
		Rule: "for each of the 61 indicators x (default + seeded random admissible configurations): EVERY input length n in [0, 2w+3] plus {3w+7, 97}, equal-length inputs; the number of values on every output is compared with max(0, n-w), w read from the live instance's IdlePeriod() (implied warm-up for the 4 types without the method). Alignment is checked reference-free by the dependence-front probe: the inputs are changed from position p on (36 probes x 3 positions per configuration and class) and the first output index that changes must be >= p-w for every probe (no look-ahead) and == p-w for at least one (not late). distinct_nontrivial counts distinct (indicator, configuration, n > w) triples.",
		Shards: [2]int{16, 16}, MinEvals: [2]int{300, 1500},
		RequirePositive: "cmp:", RequireCount: 61,
	})
	reg(&propCfg{
		ID: "C03", Level: "exploration",
		Rule: "every indicator (61) and strategy (registry rows at default and random configurations, And/Or/Majority/Split/MACD-RSI over real sub-strategies, Inverse/NoLoss/StopLoss over base and compound strategies, nested decorators) is run in a timer-free pure-Go child under every schedule parameterisation: input channel capacity {0,1,3,64} x pacing {eager readers, each output in turn as the one slow reader, random Gosched bursts on producers and readers, slow producers} x GOMAXPROCS {1,16} (thorough {1,2,4,16}), for input lengths {0,1,w-1,w,w+1,2w+3,97} and, for multi-input indicators, each input in turn shortened to 0, 1, n-1. Oracles: the Go runtime's 'all goroutines are asleep' report (a logical proof that the pipeline wedged, attributed to the last BEGIN record), a goroutine census fixed point after every run (leak), producers reaching close (inputs consumed), and bit-identical output sequences across all schedule parameterisations of a case. distinct_nontrivial counts cases (pipeline, configuration, length) that produced at least one value; distinct observed global receive orders are counted in distinct_sets.interleavings.",
		Shards: [2]int{16, 16}, MinEvals: [2]int{1500, 5000},
		RequirePositive: "cmp:", RequireCount: 61,
	})
	reg(&propCfg{
		ID: "C04", Level: "exploration",
		Rule: "61 indicators and all strategies (registry rows at default and random configurations, And/Or/Majority/Split/MACD-RSI, decorators, nested) x configurations x series classes: (i) prefix law - for cut m the run on s[0:m] must equal, bit for bit, the corresponding prefix of the run on s (sampled cuts {0, w, w+1, n-1, 3 random} on n = 2w+8 / 2w_s+30, and ALL cuts 0..n on series of length <= 48); (ii) suffix law - replacing s[m:] (x1024, x1/1024, x2, x1/2, random per-bar factors) must not change any output for a position < m. distinct_nontrivial counts distinct (pipeline, configuration, class, n) cases (strategies: with at least one non-Hold action).",
		Shards: [2]int{16, 16}, MinEvals: [2]int{800, 4000},
		RequirePositive: "cmp:", RequireCount: 61,
	})
	reg(&propCfg{
		ID: "C15", Level: "exploration",
		Rule: "the 20 indicators named by the property x (default + seeded random period configurations) x 11 valid-OHLCV series classes chosen to be hostile (flat stretches, plateaus, ties, limit-up/down runs, close==high/low, zero-volume and zero-range bars, monotone runs, an outlier bar) x lengths 60-400 x replicas: every emitted value is passed through an invariant monitor (range [0,100] / [-100,0] / [0,1] / [-1,1] with slack 1e-6 of the range; upper >= middle >= lower and moving min <= value <= moving max and >= 0 with slack 1e-9 of the price scale). Positions whose defining denominator is zero, and non-finite values after the first such position, are exempt and counted. distinct_nontrivial counts distinct (indicator, configuration, class) triples with at least one checked value.",
		Shards: [2]int{16, 16}, MinEvals: [2]int{1000, 10000},
		RequirePositive: "cmp:", RequireCount: 20,
	})
	reg(&propCfg{
		ID: "C18", Level: "exploration",
		Rule: "metamorphic relation between two executions of the real code: all prices x 2^a and all volumes x 2^b for (a,b) in {(-4,2),(2,10),(10,-4),(2,0),(0,2)}. For 61 indicators x configurations x series classes x 2 lengths every output value must equal, BIT FOR BIT, the original value x 2^(a*dp+b*dv) (homogeneity degrees of Appendix A); additionally x100 / x0.01 within the 1e-9 tolerance at well-conditioned positions. For all strategies (base at default and random configurations, compounds, decorators) the action sequences must be identical. distinct_nontrivial counts distinct (pipeline, configuration, class) cases (strategies: with at least one non-Hold action).",
		Shards: [2]int{16, 16}, MinEvals: [2]int{1000, 5000},
		RequirePositive: "cmp:", RequireCount: 61,
	})
	reg(&propCfg{
		ID: "C05", Level: "exploration",
		Rule: "every strategy of the five AllStrategies registries plus Envelope (SMA/EMA) and Trix, each at its default and at seeded random With-configurations, And/Or/Majority/Split over real sub-strategies, MACD-RSI, Inverse/NoLoss/StopLoss over base and compound strategies, nested decorators and every member of AllAndStrategies/AllSplitStrategies of a 4-element base list: for EVERY snapshot count n in [0, 2w_s+3] (stride > 1 only for the 200-period defaults) plus {w_s, w_s+1, 97, 251} on walk/ties/degenerate series the emitted actions are counted and inspected: len == n for n >= w_s, every action in {-1,0,1}, all actions before the warm-up Hold; for n < w_s only Holds and at least n of them. distinct_nontrivial counts (strategy, n >= w_s) pairs with exactly n actions.",
		Shards: [2]int{16, 16}, MinEvals: [2]int{100, 300},
		RequirePositive: "cmp:", RequireCount: 32,
	})
	reg(&propCfg{
		ID: "C06", Level: "exploration",
		Rule: "32 base strategies x (default + seeded random admissible configurations with thresholds chosen so that both sides of every comparison occur) x series classes (OHLCV fields varying independently) x n in {w_s+40, 251}: the action at every snapshot is compared with the documented decision rule applied to the values of the strategy's OWN indicator instance, computed through the public API from the documented snapshot fields extracted by the harness and aligned by IdlePeriod(); positions where the compared quantities are equal within 1e-9 are exempt. distinct_nontrivial counts (strategy configuration, class, n) cases with at least one compared position and at least one Buy or Sell.",
		Shards: [2]int{16, 16}, MinEvals: [2]int{500, 3000},
		RequirePositive: "cmp:", RequireCount: 32,
	})
	reg(&propCfg{
		ID: "C09", Level: "exploration", Race: "both",
		Rule: "61 indicators and all strategies (registry rows at default and random configurations, compounds incl. AllAndStrategies/AllSplitStrategies members that share base instances, decorators): on ONE instance the call sequence A,B,A,D,C (inputs of different lengths and classes; strategies: Compute and Report rendering) is compared bit-for-bit with fresh instances, a reflective deep fingerprint of the instance (unexported fields included) is taken before and after every call, then 8 (strategies: 6) calls are released simultaneously on the same instance at GOMAXPROCS=16 and compared with the sequential results. The race phase repeats the concurrent batch R times (3 quick / 10 thorough) in a -race build with halt_on_error=0 and counts WARNING: DATA RACE blocks, de-duplicated by outermost library frame pair. distinct_nontrivial counts distinct (pipeline, configuration) pairs.",
		Shards: [2]int{16, 16}, MinEvals: [2]int{300, 1000},
		RequirePositive: "cmp:", RequireCount: 93,
	})
	reg(&propCfg{
		ID: "C10", Level: "exploration", Race: "both",
		Rule: "generated operation histories (Append with batches of 0-5 snapshots incl. empty batches and equal consecutive dates, Get, GetSince with bounds at / one day before / one day after stored dates, LastDate, Assets; 3-4 asset names plus a never-appended one; values = any finite float64 incl. +-MaxFloat64, smallest subnormals, 17-digit decimals; whole-day UTC dates from 2000-01-01; pre-existing zero-byte and header-only CSV files) are applied step by step to the sequential model map[name][]snapshot and to each of the in-memory, file-system (fresh temp dir) and SQL (database/sql over the in-memory fakesql driver and its dialect) repositories; after every step error-ness and contents are compared (Date.Equal, float bits), every Append is followed immediately by a read of the same asset. Concurrent histories (plain and -race builds, GOMAXPROCS=16): one writer per asset appends a planned, strictly dated list batch by batch while 3-8 readers issue Get/GetSince/LastDate/Assets on any asset; calls and returns are stamped from one atomic logical clock and every read must have observed a prefix of length m with (snapshots of Appends returned before the call) <= m <= (snapshots of Appends called before the return) - linearizability of a single-writer append-only list, decided exactly; in-memory readers overlap writers freely, file-system/SQL readers do not overlap the writer of the same asset (lazy streams) but everything else overlaps; the race phase counts WARNING: DATA RACE blocks. distinct_nontrivial counts histories with >= 2 appends and >= 3 reads and concurrent histories in which an intermediate state was observed.",
		Shards: [2]int{16, 16}, MinEvals: [2]int{50, 600},
		RequirePositive: "ops:", RequireCount: 3,
	})
	reg(&propCfg{
		ID: "C11", Level: "exploration",
		Rule: "six harness row structs (all supported kinds: string, bool, int..int64, uint..uint64, float32/64, time.Time with default and custom formats, header tags incl. one with a comma) plus asset.Snapshot, with values from the extremes of each kind (strings with commas, quotes, blanks, newlines, lone CR, NUL, BOM, non-ASCII; +-MaxFloat, subnormals, +-Inf, -0; MinInt64; years 1 and 9999): random histories of WriteToFile / AppendToFile / AppendOrWriteToCsvFile with 0-6 rows on one file, always including a longer file overwritten by a shorter one, with and without header; after every step the file is read back through the codec and compared with a list model (ints exact, floats by bits, strings byte-wise, times by Equal). Files written directly with encoding/csv using a permuted header and extra columns must read back identically, also through ONE codec value reused across header orders. JSON: JSONToChan(ChanToJSON(x)) for finite float64, int64, strings, time.Time and a struct. The two-byte sequence CR LF inside strings is outside the domain (encoding/csv normalises it). distinct_nontrivial counts file histories / documents.",
		Shards: [2]int{16, 16}, MinEvals: [2]int{100, 1500},
		RequirePositive: "cmp:", RequireCount: 10,
	})
	reg(&propCfg{
		ID: "C12", Level: "fault_enumeration", Race: "both", CLI: []string{"indicator-sync"},
		Rule: "the real asset.Sync runs between an in-memory source and in-memory / file-system / SQL targets wrapped by a recording, fault-injecting, yielding repository wrapper. Fault enumeration: for scenarios with 1-4 assets ALL subsets of assets whose source read fails x ALL subsets whose target append fails are run (plus assets missing from the source); random scenarios with up to 12 assets, source histories of 0-20 days, target = arbitrary prefix (empty, absent, header-only), explicit asset list or taken from the target, workers 1/2/4/8. Oracles per run: final target state == previous snapshots + exactly the source snapshots dated after the last date (or on/after the default start), in order, no duplicates; error returned iff a failure was injected/expected; assets outside the fault sets fully synchronised; an immediate second run changes nothing; results equal for 1/2/4/8 workers; the recorded call/return history of the target (logical clock) is checked by porcupine against the map-of-ordered-lists model, partitioned by asset; the race phase repeats the multi-worker runs in a -race build. End to end: cmd/indicator-sync (built from the tree under test) is executed between generated file-system repositories (explicit names or none, a name missing in the source, 1/2/4 workers) and the target directory compared with the model; exit status non-zero iff a failure was expected. distinct_nontrivial counts (scenario, fault subsets) runs.",
		Shards: [2]int{16, 16}, MinEvals: [2]int{30, 300},
	})
	reg(&propCfg{
		ID: "C13", Level: "exploration", Race: "both", CLI: []string{"indicator-backtest"},
		Rule: "the real backtest.Backtest runs over in-memory / file-system / SQL repositories holding 1-12 generated assets (0 to LastDays-6 snapshots inside the look-back window, 0-40 older ones, dates kept >= 2 days away from the window edge so the wall clock never decides; sometimes an absent asset) x 1-8 strategies with distinct names drawn from the registry and compounds, for Workers in {1,2,3,8,16}. A mutex-protected recording Report logs Begin/AssetBegin/Write/AssetEnd/End with sequence numbers and drains the three streams; an online trace checker decides the protocol order; the multiset of (asset, strategy) written must equal the cartesian product; the drained actions/outcomes must equal, bit for bit, strategy.ComputeWithOutcome evaluated directly on the snapshots inside the window; result sets must be equal for all worker counts. The bundled DataReport (one entry per pair, outcome/action/transactions equal the direct evaluation) and HTMLReport (asset pages and index.html parsed: every pair once, outcomes %.2f equal, rows in non-increasing outcome order, first row maximal) are checked the same way; the race phase repeats the 4- and 16-worker runs in a -race build. End to end: cmd/indicator-backtest is executed over a generated file-system repository and every row of its asset pages is compared with a direct evaluation of the tool's own strategy list inside the look-back window. distinct_nontrivial counts scenarios.",
		Shards: [2]int{16, 16}, MinEvals: [2]int{20, 200},
	})
	reg(&propCfg{
		ID: "C14", Level: "exploration",
		Rule: "all strategies (registry rows at default and random configurations, And/Or/Majority/Split/MACD-RSI, decorators, nested) x n in {w_s+1, w_s+2, 2w_s+9, 251} on walk / 2-decimal / ties series: Report(snapshots) is built and (a) its date channel and every column channel (reached through the unexported values field by reflection) are drained by independent readers and counted: every column must yield exactly as many values as there are date rows and the date axis must be the last rows of the snapshot dates; (b) per row the Close column equals the snapshot's close, the annotation equals Annotation(NormalizeActions(Compute)) at that date and Outcome equals 100 x the outcome as of that date (recomputed by the harness); (c) a second report is rendered with WriteToWriter in the timer-free child (a wedge is reported by the runtime), its data.addRow rows are parsed: one per date, every cell equal to the drained value, and no column is left with unconsumed values; (d) dependence front per indicator column: changing the snapshots from position p on must first change the row of p's date, never an earlier one and not consistently a later one. distinct_nontrivial counts (strategy configuration, n) cases.",
		Shards: [2]int{16, 16}, MinEvals: [2]int{100, 500},
		RequirePositive: "cmp:", RequireCount: 32,
	})
	reg(&propCfg{
		ID: "C19", Level: "fault_enumeration",
		Rule: "malformed external data is fed to the real readers inside the timer-free child (a reader that never closes its stream is reported by the runtime's deadlock detector; a panic kills the child and is attributed to the document logged before the call): CSV reader for 5 row shapes (1-8 fields: strings, ints, uint8/16, floats, bools, dates in two formats, header tags) with and without header, through ReadFromReader and ReadFromFile - EVERY truncation offset of a small valid document, grammar-aware corruptions (deleted/added fields, type errors per column incl. out-of-range integers, unbalanced and bare quotes, bare CR, CRLF, empty lines, BOM, separator-only rows, trailing garbage, missing final newline) stacked 1-3 deep, seeded byte mutations, permuted/partial headers; JSON stream reader: wrong top-level values, every truncation offset, the same corruptions; Tiingo repository over a fake http.RoundTripper installed as http.DefaultTransport (no network): 13 status codes x valid / empty / truncated / corrupted / HTML / object bodies. Oracles: no crash; the stream closes; rows delivered == records of the well-formed prefix computed by an independent strconv/time.Parse/json.Decoder reference; goroutine census empty afterwards; every response body closed once the stream has ended; status != 200, missing files and directories surface as errors. distinct_nontrivial counts distinct documents with a non-empty well-formed prefix.",
		Shards: [2]int{16, 16}, MinEvals: [2]int{40, 300}, Watchdog: [2]int{180, 900},
		RequirePositive: "cmp:", RequireCount: 7,
	})
	reg(&propCfg{
		ID: "C07", Level: "exploration",
		Rule: "the real And/Or/Majority/Split/Inverse/NoLoss/StopLoss combinators (and nestings NoLoss(StopLoss), StopLoss(NoLoss), Inverse(NoLoss), NoLoss(Inverse), NoLoss(And)) wrap scripted stub strategies that replay chosen action words; the output is compared with slice models of the specified combination (votes over position-wise DENORMALISED words, split rule, swap, explicit no-loss / stop-loss state machines over (action, close)) and, independently, with two trace safety monitors (no Sell at a close not above the preceding Buy's close; a Sell at the first close <= buy*(1-pct)). Exhaustive: all tuples of k words of length n for k=1 (n<=7 quick / 8 thorough), k=2 (n<=4 / 5), k=3 (n<=2 / 3) x 4 closing series x 3 percentages where relevant; plus random words up to length 200 with up to 6 sub-strategies. MACD-RSI is compared with the agreement rule over its own two real sub-strategies. distinct_nontrivial counts distinct (shape, word tuple) cases with n >= 2.",
		Exhaustive: "all k-tuples of action words over {Sell,Hold,Buy}: k=1 n<=7/8, k=2 n<=4/5, k=3 n<=2/3 (quick/thorough), for every combinator shape",
		Shards: [2]int{16, 16}, MinEvals: [2]int{100, 150},
	})
	reg(&propCfg{
		ID: "C08", Level: "exploration",
		Rule: "strategy.Outcome is run on channels for EVERY action word over {Sell,Hold,Buy} up to length 7 (quick) / 9 (thorough) x 6 positive value series (rising, halving, 1e-3 and 1e6 magnitudes, flat, jagged) and for random words/values up to length 300 with unequal stream lengths both ways; each run is compared with an independent (cash, shares) simulator (1e-12) and passed through invariant monitors (one entry per pair, >= -100%, 0 until the first Buy, bit-identical after NormalizeActions, strict Buy/Sell alternation of normalised streams, Normalize(Denormalize(x)) == x, CountTransactions = running non-Hold count, both producers reach close); buy-and-hold through ComputeWithOutcome equals v_i/v_0 - 1. distinct_nontrivial counts distinct words with at least two non-Hold actions plus random cases.",
		Exhaustive: "all action words of length <= 7 (quick) / <= 9 (thorough) x 6 value series",
		Shards: [2]int{16, 16}, MinEvals: [2]int{40, 100},
	})
}
