package main

// propCfg is the parent's static knowledge about one property's check.
type propCfg struct {
	ID          string
	Level       string // evidence "level"
	Race        string // "" = plain child only, "only" = race child only, "both" = plain phase + race phase (<ID>R case list)
	Rule        string
	Assumptions []string
	Exhaustive  string // non-empty: description of the exhaustively enumerated sub-space
	Shards      [2]int // quick, thorough
	Watchdog    [2]int // seconds per child process, quick / thorough
	MinEvals    [2]int
	KeepLogs    bool
	// RequirePositive: every counter with this prefix must be > 0, and at
	// least RequireCount of them must exist, or the run is inconclusive
	// (e.g. an indicator with no compared position).
	RequirePositive string
	RequireCount    int
	// CLI lists command line tools of the repository (directories under cmd/)
	// that the parent builds and the child executes end to end.
	CLI []string
}

func tierIdx(t string) int {
	if t == "thorough" {
		return 1
	}
	return 0
}
func (p *propCfg) shards(t string) int {
	n := p.Shards[tierIdx(t)]
	if n == 0 {
		n = 16
	}
	return n
}
func (p *propCfg) watchdog(t string) int {
	n := p.Watchdog[tierIdx(t)]
	if n == 0 {
		n = [2]int{480, 3000}[tierIdx(t)]
	}
	return n
}
func (p *propCfg) minEvals(t string) int { return p.MinEvals[tierIdx(t)] }
func (p *propCfg) maxRestarts(t string) int {
	if t == "thorough" {
		return 3000
	}
	return 400
}

var commonAssume = []string{
	"the Go runtime, the race detector and the standard library are trusted",
	"verdicts hold for the executions listed in coverage only (runtime monitoring, not proof)",
}

var props = map[string]*propCfg{}

func reg(p *propCfg) {
	p.Assumptions = append(p.Assumptions, commonAssume...)
	props[p.ID] = p
}
