// vcalib is a development aid: it runs registry rows against the library and
// prints, per indicator and configuration, the declared warm-up, output
// counts, and the agreement with the documented reference and with each
// deviation model. It decides nothing; the checks do.
package main

import (
	"flag"
	"fmt"
	"strings"

	"verif/harness/internal/gen"
	"verif/harness/internal/props"
	"verif/harness/internal/reg"
)

func main() {
	name := flag.String("name", "", "substring of indicator names to run (empty = all)")
	class := flag.String("class", gen.Walk, "series class")
	n := flag.Int("n", 150, "series length")
	ncfg := flag.Int("cfgs", 3, "random configurations per indicator")
	seed := flag.Int64("seed", 1, "seed")
	short := flag.Bool("short", false, "also run lengths 0..2w+3 and report output counts that differ from n-w")
	flag.Parse()
	for _, ind := range reg.Sorted() {
		if *name != "" && !strings.Contains(ind.Name, *name) {
			continue
		}
		for ci := 0; ci <= *ncfg; ci++ {
			cfg := ind.Default
			r := gen.New(*seed, fmt.Sprintf("%s/%d", ind.Name, ci))
			if ci > 0 {
				cfg = ind.Rand(r)
			}
			fmt.Println(props.Calibrate(ind, cfg, *class, *n, r, *short))
		}
	}
}
