// scalib is a development aid for the strategy registry (see vcalib).
package main

import (
	"flag"
	"fmt"
	"strings"

	"verif/harness/internal/gen"
	"verif/harness/internal/props"
	"verif/harness/internal/reg"
)

func main() {
	name := flag.String("name", "", "substring of strategy names (empty = all)")
	class := flag.String("class", gen.Walk, "series class")
	n := flag.Int("n", 200, "number of snapshots")
	ncfg := flag.Int("cfgs", 3, "random configurations per strategy")
	seed := flag.Int64("seed", 1, "seed")
	flag.Parse()
	for _, row := range reg.SortedStrats() {
		if *name != "" && !strings.Contains(row.Name, *name) {
			continue
		}
		for ci := 0; ci <= *ncfg; ci++ {
			cfg := row.Default
			r := gen.New(*seed, fmt.Sprintf("%s/%d", row.Name, ci))
			if ci > 0 {
				cfg = row.Rand(r)
			}
			fmt.Println(props.CalibrateStrat(row, cfg, *class, *n, r))
		}
	}
}
