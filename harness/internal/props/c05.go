package props

import (
	"fmt"

	"github.com/cinar/indicator/v2/strategy"

	"verif/harness/internal/gen"
	"verif/harness/internal/reg"
	"verif/harness/internal/run"
)

func init() { All["C05"] = c05 }

func c05Check(cc *run.Case, ns namedStrat, class string, n int, inst strategy.Strategy) bool {
	snaps := reg.Snaps(gen.Bars(cc.R, class, n))
	cc.Desc(map[string]any{"strategy": ns.Name, "class": class, "n": n, "w_s": ns.Warm, "reused_instance": inst != nil})
	if inst == nil {
		inst = ns.New()
	}
	acts := runStrat(inst, snaps)
	cc.Count("runs", 1)
	detail := map[string]any{"strategy": ns.Name, "class": class, "n": n, "w_s": ns.Warm, "quiet_prefix": ns.Quiet, "actions": fmt.Sprint(acts)}
	for i, a := range acts {
		if a != strategy.Buy && a != strategy.Sell && a != strategy.Hold {
			cc.Viol("", fmt.Sprintf("%s: action %d of %d is %d, not one of Sell(-1), Hold(0), Buy(1)", ns.Name, i, len(acts), a), detail)
			return false
		}
	}
	quiet := min(ns.Quiet, len(acts))
	for i := 0; i < quiet; i++ {
		if acts[i] != strategy.Hold {
			cc.Viol("", fmt.Sprintf("%s: action %d is %d before the warm-up (%d snapshots) has elapsed; all of them must be Hold", ns.Name, i, acts[i], ns.Quiet), detail)
			return false
		}
	}
	if n >= ns.Warm {
		if len(acts) != n {
			key := ""
			if len(acts) == n+1 {
				key = ns.PlusOne
			}
			cc.Viol(key, fmt.Sprintf("%s: %d actions for %d snapshots (warm-up %d): a strategy owes exactly one action per snapshot", ns.Name, len(acts), n, ns.Warm), detail)
			return key != ""
		}
		cc.Distinct(fmt.Sprintf("%s/%d", ns.Name, n))
	} else {
		if len(acts) < n {
			cc.Viol("", fmt.Sprintf("%s: only %d actions for %d snapshots (shorter than the warm-up %d): at least one Hold per snapshot is owed", ns.Name, len(acts), n, ns.Warm), detail)
			return false
		}
		for i, a := range acts {
			if a != strategy.Hold && i < ns.Quiet {
				cc.Viol("", fmt.Sprintf("%s: non-Hold action %d at %d on an input shorter than the warm-up", ns.Name, a, i), detail)
				return false
			}
		}
	}
	return true
}

func c05(ctx *run.Ctx) {
	base := baseStrats(ctx, ctx.Pick(3, 40))
	var small []namedStrat
	for _, b := range base {
		if b.Warm <= 40 {
			small = append(small, b)
		}
	}
	all := append(append([]namedStrat(nil), base...), compoundStrats(ctx, small, ctx.Pick(10, 150))...)
	for _, row := range reg.SortedStrats() {
		ctx.Count("cmp:"+row.Name, 0)
	}
	// A DEMA strategy whose first DEMA is the slower one (legal, unusual): the
	// count must still be n; the guaranteed-Hold prefix is the smaller warm-up.
	if row := reg.StratByName("trend.DemaStrategy"); row != nil {
		for i := 0; i < ctx.Pick(3, 10); i++ {
			c := row.Rand(gen.New(ctx.Seed, fmt.Sprintf("c05-dema-swapped/%d", i)))
			if len(c.I) != 4 {
				continue
			}
			c.I[0], c.I[1], c.I[2], c.I[3] = c.I[2], c.I[3], c.I[0], c.I[1]
			all = append(all, namedStrat{Name: fmt.Sprintf("trend.DemaStrategy swapped=%v", c), New: func() strategy.Strategy { return row.New(c) },
				Warm: max(c.I[0]+c.I[1]-2, c.I[2]+c.I[3]-2), Quiet: min(c.I[0]+c.I[1]-2, c.I[2]+c.I[3]-2)})
		}
	}
	for si, ns := range all {
		ns := ns
		ctx.Case(fmt.Sprintf("strat/%d/all-short-lengths", si), func(cc *run.Case) {
			// every n in [0, 2w_s+3] (capped for the two 200-period defaults), plus 97 and 251
			top := 2*ns.Warm + 3
			step := 1
			if top > 120 {
				step = 1 + top/120
			}
			for n := 0; n <= top; n += step {
				if !c05Check(cc, ns, gen.Walk, n, nil) {
					return
				}
			}
			// one instance serves all of the following series, as in a backtest over several assets
			shared := ns.New()
			for _, n := range []int{ns.Warm, ns.Warm + 1, 97, 251} {
				for _, class := range []string{gen.Walk, gen.Down, gen.Ties, gen.Degen} {
					if !c05Check(cc, ns, class, n, shared) {
						return
					}
				}
			}
			if ns.Row != nil {
				cc.Count("cmp:"+ns.Row.Name, 1)
			}
			if cc.WantSample() && si%9 == 4 {
				cc.Sample(map[string]any{"strategy": ns.Name, "w_s": ns.Warm, "lengths": fmt.Sprintf("0..%d step %d, %d, %d, 97, 251", top, step, ns.Warm, ns.Warm+1), "oracle": "len == n, alphabet {-1,0,1}, Hold prefix"})
			}
		})
	}
}
