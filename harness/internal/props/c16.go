package props

import (
	"fmt"
	"math"
	"reflect"
	"sync"

	"github.com/cinar/indicator/v2/asset"
	"github.com/cinar/indicator/v2/helper"

	"verif/harness/internal/mon"
	"verif/harness/internal/run"
)

func init() { All["C16"] = c16 }

// c16num is the set of element types the helper monitor instantiates.
type c16num interface{ int | int64 | float64 }

// hcase is one helper under test: how to build the stream pipeline and the
// pure slice model of what it must produce.
type hcase[T c16num] struct {
	name   string
	nin    int
	params [][]int // admissible parameter tuples
	build  func(in []<-chan T, p []int) []<-chan T
	model  func(in [][]T, p []int) [][]T
	// nonzero: inputs must not contain zeros (integer division).
	nonzero bool
}

func rng(lo, hi int) [][]int {
	var out [][]int
	for i := lo; i <= hi; i++ {
		out = append(out, []int{i})
	}
	return out
}

func one[T any](c <-chan T) []<-chan T { return []<-chan T{c} }

func mapS[T any](xs []T, f func(T) T) []T {
	out := make([]T, 0, len(xs))
	for _, x := range xs {
		out = append(out, f(x))
	}
	return out
}

func zipS[T any](a, b []T, f func(x, y T) T) []T {
	n := min(len(a), len(b))
	out := make([]T, 0, n)
	for i := 0; i < n; i++ {
		out = append(out, f(a[i], b[i]))
	}
	return out
}

func helperCases[T c16num]() []hcase[T] {
	isOdd := func(x T) bool { return math.Mod(float64(x), 2) >= 1 }
	abs := func(x T) T {
		if x < 0 {
			return -x
		}
		return x
	}
	m1 := func(name string, f func(<-chan T) <-chan T, g func(T) T) hcase[T] {
		return hcase[T]{name: name, nin: 1, params: [][]int{{}},
			build: func(in []<-chan T, p []int) []<-chan T { return one(f(in[0])) },
			model: func(in [][]T, p []int) [][]T { return [][]T{mapS(in[0], g)} }}
	}
	mp := func(name string, f func(<-chan T, T) <-chan T, g func(T, T) T, nz bool) hcase[T] {
		ps := rng(0, 8)
		if nz {
			ps = rng(1, 8)
		}
		return hcase[T]{name: name, nin: 1, params: ps,
			build: func(in []<-chan T, p []int) []<-chan T { return one(f(in[0], T(p[0]))) },
			model: func(in [][]T, p []int) [][]T {
				return [][]T{mapS(in[0], func(x T) T { return g(x, T(p[0])) })}
			}}
	}
	m2 := func(name string, f func(a, b <-chan T) <-chan T, g func(T, T) T, nz bool) hcase[T] {
		return hcase[T]{name: name, nin: 2, params: [][]int{{}}, nonzero: nz,
			build: func(in []<-chan T, p []int) []<-chan T { return one(f(in[0], in[1])) },
			model: func(in [][]T, p []int) [][]T { return [][]T{zipS(in[0], in[1], g)} }}
	}
	cases := []hcase[T]{
		{name: "Map", nin: 1, params: [][]int{{}},
			build: func(in []<-chan T, p []int) []<-chan T {
				return one(helper.Map(in[0], func(x T) T { return x*3 + 1 }))
			},
			model: func(in [][]T, p []int) [][]T { return [][]T{mapS(in[0], func(x T) T { return x*3 + 1 })} }},
		{name: "Apply", nin: 1, params: [][]int{{}},
			build: func(in []<-chan T, p []int) []<-chan T {
				return one(helper.Apply(in[0], func(x T) T { return x - 7 }))
			},
			model: func(in [][]T, p []int) [][]T { return [][]T{mapS(in[0], func(x T) T { return x - 7 })} }},
		{name: "Filter", nin: 1, params: [][]int{{}},
			build: func(in []<-chan T, p []int) []<-chan T { return one(helper.Filter(in[0], isOdd)) },
			model: func(in [][]T, p []int) [][]T {
				var out []T
				for _, x := range in[0] {
					if isOdd(x) {
						out = append(out, x)
					}
				}
				return [][]T{out}
			}},
		{name: "Skip", nin: 1, params: rng(0, 8),
			build: func(in []<-chan T, p []int) []<-chan T { return one(helper.Skip(in[0], p[0])) },
			model: func(in [][]T, p []int) [][]T { return [][]T{in[0][min(p[0], len(in[0])):]} }},
		{name: "First", nin: 1, params: rng(0, 8),
			build: func(in []<-chan T, p []int) []<-chan T { return one(helper.First(in[0], p[0])) },
			model: func(in [][]T, p []int) [][]T { return [][]T{in[0][:min(p[0], len(in[0]))]} }},
		{name: "Last", nin: 1, params: rng(1, 8),
			build: func(in []<-chan T, p []int) []<-chan T { return one(helper.Last(in[0], p[0])) },
			model: func(in [][]T, p []int) [][]T { return [][]T{in[0][max(0, len(in[0])-p[0]):]} }},
		{name: "Shift", nin: 1, params: rng(0, 8),
			build: func(in []<-chan T, p []int) []<-chan T { return one(helper.Shift(in[0], p[0], T(99))) },
			model: func(in [][]T, p []int) [][]T {
				out := make([]T, 0, p[0]+len(in[0]))
				for i := 0; i < p[0]; i++ {
					out = append(out, T(99))
				}
				return [][]T{append(out, in[0]...)}
			}},
		{name: "Buffered", nin: 1, params: rng(0, 8),
			build: func(in []<-chan T, p []int) []<-chan T { return one(helper.Buffered(in[0], p[0])) },
			model: func(in [][]T, p []int) [][]T { return [][]T{in[0]} }},
		{name: "Duplicate", nin: 1, params: rng(1, 5),
			build: func(in []<-chan T, p []int) []<-chan T { return helper.Duplicate(in[0], p[0]) },
			model: func(in [][]T, p []int) [][]T {
				out := make([][]T, p[0])
				for i := range out {
					out[i] = in[0]
				}
				return out
			}},
		{name: "Count", nin: 1, params: rng(0, 3),
			build: func(in []<-chan T, p []int) []<-chan T { return one(helper.Count(T(p[0]), in[0])) },
			model: func(in [][]T, p []int) [][]T {
				out := make([]T, len(in[0]))
				for i := range out {
					out[i] = T(p[0]) + T(i)
				}
				return [][]T{out}
			}},
		{name: "Change", nin: 1, params: rng(0, 8),
			build: func(in []<-chan T, p []int) []<-chan T { return one(helper.Change(in[0], p[0])) },
			model: func(in [][]T, p []int) [][]T {
				var out []T
				for i := p[0]; i < len(in[0]); i++ {
					out = append(out, in[0][i]-in[0][i-p[0]])
				}
				return [][]T{out}
			}},
		{name: "ChangeRatio", nin: 1, params: rng(0, 8), nonzero: true,
			build: func(in []<-chan T, p []int) []<-chan T { return one(helper.ChangeRatio(in[0], p[0])) },
			model: func(in [][]T, p []int) [][]T {
				var out []T
				for i := p[0]; i < len(in[0]); i++ {
					out = append(out, (in[0][i]-in[0][i-p[0]])/in[0][i-p[0]])
				}
				return [][]T{out}
			}},
		{name: "ChangePercent", nin: 1, params: rng(0, 8), nonzero: true,
			build: func(in []<-chan T, p []int) []<-chan T { return one(helper.ChangePercent(in[0], p[0])) },
			model: func(in [][]T, p []int) [][]T {
				var out []T
				for i := p[0]; i < len(in[0]); i++ {
					out = append(out, (in[0][i]-in[0][i-p[0]])/in[0][i-p[0]]*100)
				}
				return [][]T{out}
			}},
		{name: "MapWithPrevious", nin: 1, params: rng(0, 2),
			build: func(in []<-chan T, p []int) []<-chan T {
				return one(helper.MapWithPrevious(in[0], func(prev, x T) T { return prev*2 + x }, T(p[0])))
			},
			model: func(in [][]T, p []int) [][]T {
				prev := T(p[0])
				out := make([]T, 0, len(in[0]))
				for _, x := range in[0] {
					prev = prev*2 + x
					out = append(out, prev)
				}
				return [][]T{out}
			}},
		{name: "SyncPeriod", nin: 1, params: pairs(0, 6, 0, 6),
			build: func(in []<-chan T, p []int) []<-chan T { return one(helper.SyncPeriod(p[0], p[1], in[0])) },
			model: func(in [][]T, p []int) [][]T { return [][]T{in[0][min(max(0, p[0]-p[1]), len(in[0])):]} }},
		{name: "Pipe", nin: 1, params: rng(0, 3),
			build: func(in []<-chan T, p []int) []<-chan T {
				t := make(chan T, p[0])
				go helper.Pipe(in[0], t)
				return one[T](t)
			},
			model: func(in [][]T, p []int) [][]T { return [][]T{in[0]} }},
		{name: "Echo", nin: 1, params: pairs(1, 4, 0, 3),
			build: func(in []<-chan T, p []int) []<-chan T { return one(helper.Echo(in[0], p[0], p[1])) },
			model: func(in [][]T, p []int) [][]T {
				if len(in[0]) < p[0] {
					return nil // outside the modelled domain: fewer inputs than the echo memory
				}
				out := append([]T(nil), in[0]...)
				for i := 0; i < p[1]; i++ {
					out = append(out, in[0][len(in[0])-p[0]:]...)
				}
				return [][]T{out}
			}},
		{name: "Operate", nin: 2, params: [][]int{{}},
			build: func(in []<-chan T, p []int) []<-chan T {
				return one(helper.Operate(in[0], in[1], func(a, b T) T { return a*1000 + b }))
			},
			model: func(in [][]T, p []int) [][]T {
				return [][]T{zipS(in[0], in[1], func(a, b T) T { return a*1000 + b })}
			}},
		{name: "Operate3", nin: 3, params: [][]int{{}},
			build: func(in []<-chan T, p []int) []<-chan T {
				return one(helper.Operate3(in[0], in[1], in[2], func(a, b, c T) T { return a*10000 + b*100 + c }))
			},
			model: func(in [][]T, p []int) [][]T {
				n := min(len(in[0]), len(in[1]), len(in[2]))
				out := make([]T, 0, n)
				for i := 0; i < n; i++ {
					out = append(out, in[0][i]*10000+in[1][i]*100+in[2][i])
				}
				return [][]T{out}
			}},
		m2("Add", helper.Add[T], func(a, b T) T { return a + b }, false),
		m2("Subtract", helper.Subtract[T], func(a, b T) T { return a - b }, false),
		m2("Multiply", helper.Multiply[T], func(a, b T) T { return a * b }, false),
		m2("Divide", helper.Divide[T], func(a, b T) T { return a / b }, true),
		mp("IncrementBy", helper.IncrementBy[T], func(x, y T) T { return x + y }, false),
		mp("DecrementBy", helper.DecrementBy[T], func(x, y T) T { return x - y }, false),
		mp("MultiplyBy", helper.MultiplyBy[T], func(x, y T) T { return x * y }, false),
		mp("DivideBy", helper.DivideBy[T], func(x, y T) T { return x / y }, true),
		mp("Pow", helper.Pow[T], func(x, y T) T { return T(math.Pow(float64(x), float64(y))) }, false),
		m1("Abs", helper.Abs[T], abs),
		m1("Sign", helper.Sign[T], func(x T) T {
			switch {
			case x > 0:
				return 1
			case x < 0:
				return -1
			}
			return 0
		}),
		m1("KeepPositives", helper.KeepPositives[T], func(x T) T {
			if x > 0 {
				return x
			}
			return 0
		}),
		m1("KeepNegatives", helper.KeepNegatives[T], func(x T) T {
			if x < 0 {
				return x
			}
			return 0
		}),
		m1("Sqrt", func(c <-chan T) <-chan T { return helper.Sqrt(helper.Abs(c)) }, func(x T) T { return T(math.Sqrt(float64(abs(x)))) }),
		{name: "RoundDigits", nin: 1, params: rng(0, 3),
			build: func(in []<-chan T, p []int) []<-chan T {
				return one(helper.RoundDigits(helper.DivideBy(in[0], 8), p[0]))
			},
			model: func(in [][]T, p []int) [][]T {
				return [][]T{mapS(in[0], func(x T) T {
					m := math.Pow(10, float64(p[0]))
					return T(math.Round(float64(x/8)*m) / m)
				})}
			}},
	}
	return cases
}

func pairs(lo1, hi1, lo2, hi2 int) [][]int {
	var out [][]int
	for a := lo1; a <= hi1; a++ {
		for b := lo2; b <= hi2; b++ {
			out = append(out, []int{a, b})
		}
	}
	return out
}

// lengthTuples enumerates all tuples of input lengths.
func lengthTuples(nin, maxLen int) [][]int {
	out := [][]int{{}}
	for k := 0; k < nin; k++ {
		var next [][]int
		for _, t := range out {
			for l := 0; l <= maxLen; l++ {
				next = append(next, append(append([]int(nil), t...), l))
			}
		}
		out = next
	}
	return out
}

var c16Scheds = []mon.Sched{
	{Cap: 0, Pace: "eager"},
	{Cap: 3, Pace: "rr", Seed: 7},
	{Cap: 0, Pace: "slow", Slow: 0},
	{Cap: 64, Pace: "slowprod", Seed: 3},
}

func c16Typed[T c16num](ctx *run.Ctx, typ string, elem func(stream, i int) T) {
	census := mon.NewCensus()
	for _, hc := range helperCases[T]() {
		hc := hc
		maxLen := ctx.Pick(6, 8)
		if hc.nin == 2 {
			maxLen = ctx.Pick(4, 5)
		}
		if hc.nin == 3 {
			maxLen = ctx.Pick(3, 4)
		}
		ctx.Case(fmt.Sprintf("%s/%s/exhaustive", hc.name, typ), func(cc *run.Case) {
			for _, lens := range lengthTuples(hc.nin, maxLen) {
				inputs := make([][]T, hc.nin)
				for k := range inputs {
					inputs[k] = make([]T, lens[k])
					for i := range inputs[k] {
						inputs[k][i] = elem(k, i)
					}
				}
				for _, p := range hc.params {
					want := hc.model(inputs, p)
					if want == nil {
						cc.Count("outside_domain_skipped", 1)
						continue
					}
					for si, s := range c16Scheds {
						if !helperCheck(cc, census, hc, typ, inputs, p, s, want) {
							return
						}
						if si == 0 && len(lens) > 0 && lens[0] > 0 {
							cc.Distinct(fmt.Sprintf("%s/%s/%v/%v", hc.name, typ, lens, p))
						}
					}
				}
			}
		})
		// Random longer inputs.
		ctx.Case(fmt.Sprintf("%s/%s/random", hc.name, typ), func(cc *run.Case) {
			reps := ctx.Pick(6, 400)
			for rep := 0; rep < reps; rep++ {
				inputs := make([][]T, hc.nin)
				for k := range inputs {
					inputs[k] = make([]T, cc.R.Range(0, 200))
					for i := range inputs[k] {
						inputs[k][i] = elem(k, i)
					}
				}
				p := hc.params[cc.R.Intn(len(hc.params))]
				want := hc.model(inputs, p)
				if want == nil {
					continue
				}
				s := mon.Sched{Cap: cc.R.Pick(0, 1, 3, 64), Pace: []string{"eager", "rr", "slow", "slowprod"}[cc.R.Intn(4)], Seed: cc.R.U64(), Procs: cc.R.Pick(0, 1, 2, 16)}
				if !helperCheck(cc, census, hc, typ, inputs, p, s, want) {
					return
				}
				cc.Distinct(fmt.Sprintf("%s/%s/rand/%d", hc.name, typ, rep))
			}
		})
	}
}

func helperCheck[T c16num](cc *run.Case, census *mon.Census, hc hcase[T], typ string, inputs [][]T, p []int, s mon.Sched, want [][]T) bool {
	lens := make([]int, len(inputs))
	for k := range inputs {
		lens[k] = len(inputs[k])
	}
	cc.Desc(map[string]any{"helper": hc.name, "type": typ, "lens": lens, "params": p, "sched": s})
	census.Begin()
	res := mon.Run(inputs, s, func(in []<-chan T) []<-chan T { return hc.build(in, p) })
	cc.Count("pipeline_runs", 1)
	cc.SetAdd("interleavings", fmt.Sprintf("%s/%x", hc.name, res.Sig))
	detail := func() map[string]any {
		return map[string]any{"helper": hc.name, "type": typ, "inputs": fmt.Sprint(inputs), "params": p, "sched": s, "got": fmt.Sprint(res.Outs), "want": fmt.Sprint(want)}
	}
	if len(res.Outs) != len(want) {
		cc.Viol("", fmt.Sprintf("helper.%s[%s]%v returned %d streams, model has %d", hc.name, typ, p, len(res.Outs), len(want)), detail())
		return false
	}
	for j := range want {
		if !eqSlice(res.Outs[j], want[j]) {
			cc.Viol("", fmt.Sprintf("helper.%s[%s] params=%v lens=%v: stream %d = %v, slice model gives %v", hc.name, typ, p, lens, j, res.Outs[j], want[j]), detail())
			return false
		}
		cc.Count("values_compared", int64(len(want[j])))
	}
	if lk := census.End(); lk != nil {
		if lk.Unsettled {
			cc.Inconclusive("goroutines still runnable after the yield budget")
		} else {
			d := detail()
			d["leak"] = lk
			cc.Viol("", fmt.Sprintf("helper.%s[%s] params=%v lens=%v left %d goroutine(s) behind: %s", hc.name, typ, p, lens, lk.Count, mon.LeakSite(lk.Stacks[0])), d)
			return false
		}
	}
	if cc.WantSample() && len(inputs[0]) >= 3 && len(p) > 0 && p[0] > 0 {
		cc.Sample(detail())
	}
	return true
}

func eqSlice[T comparable](a, b []T) bool {
	if len(a) != len(b) {
		return false
	}
	for i := range a {
		if a[i] != b[i] {
			// NaN == NaN for our purposes (same computation on both sides)
			if reflect.ValueOf(a[i]).CanFloat() && math.IsNaN(reflect.ValueOf(a[i]).Float()) && math.IsNaN(reflect.ValueOf(b[i]).Float()) {
				continue
			}
			return false
		}
	}
	return true
}

func c16(ctx *run.Ctx) {
	// Distinct elements per stream (unique ids: any reordering, duplication
	// or loss is visible); never zero (integer division).
	c16Typed[int](ctx, "int", func(stream, i int) int { return 1 + i*3 + stream*(i%2+1) + 7*stream })
	c16Typed[float64](ctx, "float64", func(stream, i int) float64 { return 1.5 + float64(i)*1.25 + float64(stream)*0.125 })
	c16Typed[int64](ctx, "int64neg", func(stream, i int) int64 { return int64((i+1)*(1-2*(i%2))) * int64(stream+1) })
	// Floats with exact zeros (and sign changes) in every stream: quotients are
	// +-Inf or NaN there, as IEEE division - and the slice model - give them.
	c16Typed[float64](ctx, "float64zeros", func(stream, i int) float64 {
		if (i+stream)%3 == 1 {
			return 0
		}
		return float64(i+1) * (1.5 - float64((i+stream)%2)*3)
	})
	c16Misc(ctx)
}

func c16FieldA() []float64 {
	type pt struct{ X, Y float64 }
	c, err := helper.Field[float64, pt](helper.SliceToChan([]*pt{{10, 20}, {30, 40}}), "Y")
	if err != nil {
		return nil
	}
	return helper.ChanToSlice(c)
}

func c16FieldB() []float64 {
	type pt struct{ Y, X float64 }
	c, err := helper.Field[float64, pt](helper.SliceToChan([]*pt{{21, 11}, {41, 31}}), "Y")
	if err != nil {
		return nil
	}
	return helper.ChanToSlice(c)
}

// c16Misc covers the helpers that do not fit the uniform shape: Head (takes N
// and leaves the rest to its caller), Since, Seq, Waitable, Field, Drain,
// ChanToSlice/SliceToChan and the pure functions.
func c16Misc(ctx *run.Ctx) {
	census := mon.NewCensus()
	ctx.Case("Head/int/exhaustive", func(cc *run.Case) {
		for n := 0; n <= 6; n++ {
			for k := 0; k <= 8; k++ {
				for _, capacity := range []int{0, 2} {
					cc.Desc(map[string]any{"helper": "Head", "n": n, "k": k, "cap": capacity})
					census.Begin()
					src := make(chan int, capacity)
					xs := make([]int, n)
					for i := range xs {
						xs[i] = 10 + i
					}
					go func() {
						for _, x := range xs {
							src <- x
						}
						close(src)
					}()
					got := helper.ChanToSlice(helper.Head(src, k))
					rest := helper.ChanToSlice[int](src) // Head takes N and leaves the rest
					want := xs[:min(k, n)]
					wantRest := xs[min(k, n):]
					if !eqSlice(got, want) || !eqSlice(rest, wantRest) {
						cc.Viol("", fmt.Sprintf("helper.Head n=%d k=%d: took %v and left %v, model takes %v and leaves %v", n, k, got, rest, want, wantRest), nil)
						return
					}
					if lk := census.End(); lk != nil && !lk.Unsettled {
						cc.Viol("", fmt.Sprintf("helper.Head n=%d k=%d left %d goroutine(s): %s", n, k, lk.Count, mon.LeakSite(lk.Stacks[0])), lk)
						return
					}
					cc.Count("pipeline_runs", 1)
					cc.Distinct(fmt.Sprintf("Head/%d/%d/%d", n, k, capacity))
				}
			}
		}
	})
	// Zipping branches of ONE Duplicate with an independent stream of a
	// different length: the longer inputs must still be consumed to the end
	// (the shared source's producer must reach its close), whichever
	// argument position the short stream takes.
	ctx.Case("Operate-over-Duplicate/int", func(cc *run.Case) {
		type shape struct {
			name  string
			build func(in []<-chan int) []<-chan int
		}
		f2 := func(a, b int) int { return a*1000 + b }
		f3 := func(a, b, c int) int { return a*1000000 + b*1000 + c }
		shapes := []shape{
			{"Operate(dup0, other)", func(in []<-chan int) []<-chan int {
				d := helper.Duplicate(in[0], 2)
				go helper.Drain(d[1])
				return one(helper.Operate(d[0], in[1], f2))
			}},
			{"Operate3(dup0, dup1, other)", func(in []<-chan int) []<-chan int {
				d := helper.Duplicate(in[0], 2)
				return one(helper.Operate3(d[0], d[1], in[1], f3))
			}},
			{"Operate3(dup0, other, dup1)", func(in []<-chan int) []<-chan int {
				d := helper.Duplicate(in[0], 2)
				return one(helper.Operate3(d[0], in[1], d[1], f3))
			}},
			{"Operate3(other, dup0, dup1)", func(in []<-chan int) []<-chan int {
				d := helper.Duplicate(in[0], 2)
				return one(helper.Operate3(in[1], d[0], d[1], f3))
			}},
			{"Operate(dup0, Operate(dup1, other))", func(in []<-chan int) []<-chan int {
				d := helper.Duplicate(in[0], 2)
				return one(helper.Operate(d[0], helper.Operate(d[1], in[1], f2), f2))
			}},
		}
		for si, sh := range shapes {
			for na := 0; na <= 5; na++ {
				for nb := 0; nb <= 5; nb++ {
					a, b := make([]int, na), make([]int, nb)
					for i := range a {
						a[i] = 1 + i
					}
					for i := range b {
						b[i] = 11 + i
					}
					n := min(na, nb)
					want := make([]int, n)
					for i := range want {
						switch si {
						case 0:
							want[i] = f2(a[i], b[i])
						case 1:
							want[i] = f3(a[i], a[i], b[i])
						case 2:
							want[i] = f3(a[i], b[i], a[i])
						case 3:
							want[i] = f3(b[i], a[i], a[i])
						case 4:
							want[i] = f2(a[i], f2(a[i], b[i]))
						}
					}
					for _, s := range c16Scheds {
						cc.Desc(map[string]any{"shape": sh.name, "len_shared": na, "len_other": nb, "sched": s})
						census.Begin()
						res := mon.Run([][]int{a, b}, s, sh.build)
						cc.Count("pipeline_runs", 1)
						if !eqSlice(res.Outs[0], want) {
							cc.Viol("", fmt.Sprintf("%s with lengths %d/%d: got %v, slice model gives %v", sh.name, na, nb, res.Outs[0], want), nil)
							return
						}
						if lk := census.End(); lk != nil && !lk.Unsettled {
							cc.Viol("", fmt.Sprintf("%s with lengths %d/%d left %d goroutine(s) behind: %s", sh.name, na, nb, lk.Count, mon.LeakSite(lk.Stacks[0])), lk)
							return
						}
					}
					cc.Distinct(fmt.Sprintf("opdup/%d/%d/%d", si, na, nb))
				}
			}
		}
	})
	ctx.Case("Since/exhaustive", func(cc *run.Case) {
		// every sequence of length <= 7 over a 3-letter alphabet
		for n := 0; n <= 7; n++ {
			total := 1
			for i := 0; i < n; i++ {
				total *= 3
			}
			for code := 0; code < total; code++ {
				xs := make([]int, n)
				c := code
				for i := range xs {
					xs[i] = c % 3
					c /= 3
				}
				want := make([]int, n)
				for i := range xs {
					if i > 0 && xs[i] == xs[i-1] {
						want[i] = want[i-1] + 1
					}
				}
				got := mon.RunSimple([][]int{xs}, func(in []<-chan int) []<-chan int { return one(helper.Since[int, int](in[0])) })[0]
				if !eqSlice(got, want) {
					cc.Viol("", fmt.Sprintf("helper.Since(%v) = %v, run-length model gives %v", xs, got, want), nil)
					return
				}
				cc.Count("pipeline_runs", 1)
			}
			cc.Distinct(fmt.Sprintf("Since/%d", n))
		}
	})
	ctx.Case("Seq", func(cc *run.Case) {
		for from := -3; from <= 3; from++ {
			for to := -3; to <= 6; to++ {
				for inc := 1; inc <= 3; inc++ {
					var want []int
					for i := from; i < to; i += inc {
						want = append(want, i)
					}
					got := helper.ChanToSlice(helper.Seq(from, to, inc))
					if !eqSlice(got, want) {
						cc.Viol("", fmt.Sprintf("helper.Seq(%d,%d,%d) = %v, half-open model gives %v", from, to, inc, got, want), nil)
						return
					}
					var wantF []float64
					for x := float64(from) / 4; x < float64(to)/4; x += float64(inc) / 8 {
						wantF = append(wantF, x)
					}
					gotF := helper.ChanToSlice(helper.Seq(float64(from)/4, float64(to)/4, float64(inc)/8))
					if !eqSlice(gotF, wantF) {
						cc.Viol("", fmt.Sprintf("helper.Seq(%v,%v,%v) = %v, model %v", float64(from)/4, float64(to)/4, float64(inc)/8, gotF, wantF), nil)
						return
					}
					cc.Count("pipeline_runs", 2)
					cc.Distinct(fmt.Sprintf("Seq/%d/%d/%d", from, to, inc))
				}
			}
		}
	})
	ctx.Case("Waitable-Drain-SliceToChan", func(cc *run.Case) {
		for n := 0; n <= 8; n++ {
			for _, capacity := range []int{0, 3} {
				census.Begin()
				xs := make([]int, n)
				for i := range xs {
					xs[i] = 100 + i
				}
				wg := &sync.WaitGroup{}
				src := make(chan int, capacity)
				go func() {
					for _, x := range xs {
						src <- x
					}
					close(src)
				}()
				got := helper.ChanToSlice(helper.Waitable(wg, src))
				wg.Wait() // must return once the stream is drained
				if !eqSlice(got, xs) {
					cc.Viol("", fmt.Sprintf("helper.Waitable: got %v want %v", got, xs), nil)
					return
				}
				if got := helper.ChanToSlice(helper.SliceToChan(xs)); !eqSlice(got, xs) {
					cc.Viol("", fmt.Sprintf("ChanToSlice(SliceToChan(%v)) = %v", xs, got), nil)
					return
				}
				helper.Drain(helper.SliceToChan(xs))
				if lk := census.End(); lk != nil && !lk.Unsettled {
					cc.Viol("", fmt.Sprintf("Waitable/Drain/SliceToChan n=%d left %d goroutine(s): %s", n, lk.Count, mon.LeakSite(lk.Stacks[0])), lk)
					return
				}
				cc.Count("pipeline_runs", 3)
				cc.Distinct(fmt.Sprintf("Waitable/%d/%d", n, capacity))
			}
		}
	})
	ctx.Case("Field", func(cc *run.Case) {
		for n := 0; n <= 6; n++ {
			snaps := make([]*asset.Snapshot, n)
			want := make([]float64, n)
			for i := range snaps {
				snaps[i] = &asset.Snapshot{Open: 1 + float64(i), High: 20 + float64(i), Low: 300 + float64(i), Close: 4000 + float64(i), Volume: 5e4 + float64(i)}
				want[i] = snaps[i].Low
			}
			c, err := helper.Field[float64, asset.Snapshot](helper.SliceToChan(snaps), "Low")
			if err != nil {
				cc.Viol("", "helper.Field(Low) returned an error: "+err.Error(), nil)
				return
			}
			if got := helper.ChanToSlice(c); !eqSlice(got, want) {
				cc.Viol("", fmt.Sprintf("helper.Field(Low) = %v, want %v", got, want), nil)
				return
			}
			cc.Count("pipeline_runs", 1)
			cc.Distinct(fmt.Sprintf("Field/%d", n))
		}
		// two different struct types that print the same name ("props.pt") and
		// keep the requested field at different positions
		if got, want := c16FieldA(), []float64{20, 40}; !eqSlice(got, want) {
			cc.Viol("", fmt.Sprintf("helper.Field(Y) on struct{X,Y} = %v, want %v", got, want), nil)
			return
		}
		if got, want := c16FieldB(), []float64{21, 41}; !eqSlice(got, want) {
			cc.Viol("", fmt.Sprintf("helper.Field(Y) on a second struct type of the same name with the fields in the order {Y,X} = %v, want %v", got, want), nil)
			return
		}
		if _, err := helper.Field[float64, asset.Snapshot](nil, "Nope"); err == nil {
			cc.Viol("", "helper.Field with an unknown field name returned no error", nil)
		}
		if _, err := helper.Field[float64, int](nil, "X"); err == nil {
			cc.Viol("", "helper.Field on a non-struct type returned no error", nil)
		}
	})
	// Special values and other element types for the pointwise helpers whose
	// uniform cases use ordinary numbers only.
	ctx.Case("special-values", func(cc *run.Case) {
		nan, negz := math.NaN(), math.Copysign(0, -1)
		xs := []float64{3, nan, -2, negz, 0, math.Inf(1), math.Inf(-1), nan, 1e-300, -1e-300}
		bits := func(v []float64) []uint64 {
			out := make([]uint64, len(v))
			for i, x := range v {
				out[i] = math.Float64bits(x)
				if x != x {
					out[i] = 0x7ff8000000000001
				}
			}
			return out
		}
		wantP, wantN := make([]float64, len(xs)), make([]float64, len(xs))
		for i, x := range xs {
			if x > 0 {
				wantP[i] = x
			}
			if x < 0 {
				wantN[i] = x
			}
		}
		if got := helper.ChanToSlice(helper.KeepPositives(helper.SliceToChan(xs))); !eqSlice(bits(got), bits(wantP)) {
			cc.Viol("", fmt.Sprintf("KeepPositives(%v) = %v, want %v (everything that is not above zero becomes 0)", xs, got, wantP), nil)
			return
		}
		if got := helper.ChanToSlice(helper.KeepNegatives(helper.SliceToChan(xs))); !eqSlice(bits(got), bits(wantN)) {
			cc.Viol("", fmt.Sprintf("KeepNegatives(%v) = %v, want %v (everything that is not below zero becomes +0)", xs, got, wantN), nil)
			return
		}
		// RoundDigits in other element types: integers are already whole, float32
		// rounds like the float64 computation RoundDigit documents
		for d := 0; d <= 4; d++ {
			i32 := []int32{0, 7, -7, 512, 30000000, -30000000, math.MaxInt32, math.MinInt32}
			if got := helper.ChanToSlice(helper.RoundDigits(helper.SliceToChan(i32), d)); !eqSlice(got, i32) {
				cc.Viol("", fmt.Sprintf("RoundDigits[int32](%v, %d) = %v: whole numbers must stay as they are", i32, d, got), nil)
				return
			}
			i16 := []int16{0, 5, -5, 512, 32767, -32768}
			if got := helper.ChanToSlice(helper.RoundDigits(helper.SliceToChan(i16), d)); !eqSlice(got, i16) {
				cc.Viol("", fmt.Sprintf("RoundDigits[int16](%v, %d) = %v: whole numbers must stay as they are", i16, d, got), nil)
				return
			}
			f32 := []float32{0.145, 1.005, 2.675, -0.145, 1234.5678, 0.1, 2.5, 3.4028e30}
			want := make([]float32, len(f32))
			m := math.Pow(10, float64(d))
			for i, x := range f32 {
				want[i] = float32(math.Round(float64(x)*m) / m)
			}
			if got := helper.ChanToSlice(helper.RoundDigits(helper.SliceToChan(f32), d)); !eqSlice(got, want) {
				cc.Viol("", fmt.Sprintf("RoundDigits[float32](%v, %d) = %v, rounding the value to %d decimal places gives %v", f32, d, got, d, want), nil)
				return
			}
			cc.Count("pipeline_runs", 3)
		}
		// Count from a fractional start: from, from+1, (from+1)+1, ...
		for _, from := range []float64{0.1, -0.7, 1e-20, 0.5, 3} {
			other := make([]int, 5)
			want := make([]float64, len(other))
			for i, v := 0, from; i < len(want); i, v = i+1, v+1 {
				want[i] = v
			}
			if got := helper.ChanToSlice(helper.Count(from, helper.SliceToChan(other))); !eqSlice(got, want) {
				cc.Viol("", fmt.Sprintf("Count(%v, 5 values) = %v, want %v", from, got, want), nil)
				return
			}
			f32 := float32(from)
			want32 := make([]float32, len(other))
			for i, v := 0, f32; i < len(want32); i, v = i+1, v+1 {
				want32[i] = v
			}
			if got := helper.ChanToSlice(helper.Count(f32, helper.SliceToChan(other))); !eqSlice(got, want32) {
				cc.Viol("", fmt.Sprintf("Count[float32](%v, 5 values) = %v, want %v", f32, got, want32), nil)
				return
			}
			cc.Count("pipeline_runs", 2)
		}
		// First ends its output as soon as the first N values are known: a
		// consumer may read it to the end BEFORE it reads the sibling copy of the
		// same Duplicate (a later close would deadlock here, which the runtime reports)
		// (N <= 1: Duplicate hands every value to both copies in lock-step, so a
		// second value cannot reach First before the sibling is read at all)
		for n := 0; n <= 1; n++ {
			src := []int{10, 20, 30, 40, 50, 60}
			cs := helper.Duplicate(helper.SliceToChan(src), 2)
			head := helper.ChanToSlice(helper.First(cs[0], n))
			rest := helper.ChanToSlice(cs[1])
			if !eqSlice(head, src[:n]) || !eqSlice(rest, src) {
				cc.Viol("", fmt.Sprintf("First(%d) read to its end before the sibling copy of one Duplicate: got %v and %v from %v", n, head, rest, src), nil)
				return
			}
			cc.Count("pipeline_runs", 1)
		}
		// Apply calls its function once per element, equal neighbours included
		{
			src := []float64{1, 1, 2, 2, 2, 3, 1}
			total, calls := 0.0, 0
			got := helper.ChanToSlice(helper.Apply(helper.SliceToChan(src), func(x float64) float64 { calls++; total += x; return total }))
			if want := []float64{1, 2, 4, 6, 8, 11, 12}; !eqSlice(got, want) || calls != len(src) {
				cc.Viol("", fmt.Sprintf("Apply(running total) over %v = %v with %d calls, want %v with %d calls", src, got, calls, want, len(src)), nil)
				return
			}
			inv := helper.ChanToSlice(helper.Pow(helper.SliceToChan([]float64{0, math.Copysign(0, -1), 2}), -1))
			if len(inv) != 3 || !math.IsInf(inv[0], 1) || !math.IsInf(inv[1], -1) || inv[2] != 0.5 {
				cc.Viol("", fmt.Sprintf("Pow([0, -0, 2], -1) = %v, want [+Inf -Inf 0.5]", inv), nil)
				return
			}
			cc.Count("pipeline_runs", 2)
		}
		// Skip, Shift and First hand the capacity of their input on to their output
		// (Map, Filter and Apply do not, by design): with a buffered source a consumer may read one copy of a
		// Duplicate to its end before it starts on the other one. A stage that
		// handed on an unbuffered channel would deadlock here.
		{
			src := []int{1, 2, 3, 4, 5, 6}
			stages := map[string]func(<-chan int) <-chan int{
				"Skip(2)":     func(c <-chan int) <-chan int { return helper.Skip(c, 2) },
				"Shift(1, 0)": func(c <-chan int) <-chan int { return helper.Shift(c, 1, 0) },
				"First(9)":    func(c <-chan int) <-chan int { return helper.First(c, 9) },
			}
			for name, st := range stages {
				cs := helper.Duplicate(st(helper.Buffered(helper.SliceToChan(src), 8)), 2)
				a := helper.ChanToSlice(cs[0])
				b := helper.ChanToSlice(cs[1])
				if !eqSlice(a, b) {
					cc.Viol("", fmt.Sprintf("%s behind a buffered source, two copies read one after the other: %v and %v", name, a, b), nil)
					return
				}
				cc.Count("pipeline_runs", 1)
			}
		}
		// Head returns at once: its caller may well start the producer afterwards
		// (a Head that waited for its values inside the call would deadlock here)
		{
			src := []int{7, 8, 9, 10, 11}
			c := make(chan int)
			h := helper.Head(c, 3)
			go func() {
				defer close(c)
				for _, x := range src {
					c <- x
				}
			}()
			head := helper.ChanToSlice(h)
			rest := helper.ChanToSlice(c)
			if !eqSlice(head, src[:3]) || !eqSlice(rest, src[3:]) {
				cc.Viol("", fmt.Sprintf("Head(c, 3) with the producer started after the call: got %v and left %v of %v", head, rest, src), nil)
				return
			}
			cc.Count("pipeline_runs", 1)
		}
		cc.Count("pipeline_runs", 2)
		cc.Distinct("special-values")
	})
	ctx.Case("pure", func(cc *run.Case) {
		gcd := func(a, b int) int {
			for b != 0 {
				a, b = b, a%b
			}
			return a
		}
		for a := 1; a <= 30; a++ {
			for b := 1; b <= 30; b++ {
				g := gcd(a, b)
				if got := helper.Gcd(a, b); got != g {
					cc.Viol("", fmt.Sprintf("helper.Gcd(%d,%d) = %d, want %d", a, b, got, g), nil)
					return
				}
				if got := helper.Lcm(a, b); got != a/g*b {
					cc.Viol("", fmt.Sprintf("helper.Lcm(%d,%d) = %d, want %d", a, b, got, a/g*b), nil)
					return
				}
				for c := 1; c <= 30; c += 7 {
					if got := helper.Gcd(a, b, c); got != gcd(g, c) {
						cc.Viol("", fmt.Sprintf("helper.Gcd(%d,%d,%d) = %d, want %d", a, b, c, got, gcd(g, c)), nil)
						return
					}
				}
				if got := helper.CommonPeriod(a, b, 7); got != max(a, b, 7) {
					cc.Viol("", fmt.Sprintf("helper.CommonPeriod(%d,%d,7) = %d", a, b, got), nil)
					return
				}
				cc.Count("pure_calls", 4)
			}
		}
		cc.Distinct("pure/gcd-lcm")
		cc.Distinct("pure/common-period")
	})
}
