package props

import (
	"fmt"
	"strings"

	"github.com/cinar/indicator/v2/asset"
	"github.com/cinar/indicator/v2/strategy"

	"verif/harness/internal/gen"
	"verif/harness/internal/mon"
	"verif/harness/internal/reg"
)

// runStrat runs one Compute call over the snapshots.
func runStrat(s strategy.Strategy, snaps []*asset.Snapshot) []strategy.Action {
	return mon.RunSimple([][]*asset.Snapshot{snaps}, func(in []<-chan *asset.Snapshot) []<-chan strategy.Action {
		return []<-chan strategy.Action{s.Compute(in[0])}
	})[0]
}

type ruleCmp struct {
	Compared, Exempt, Bad int
	FirstBad             int
	LenDiff              int
	Buys, Sells, Holds   int
}

func compareRule(actual []strategy.Action, want []reg.RuleVal) ruleCmp {
	rc := ruleCmp{FirstBad: -1, LenDiff: len(actual) - len(want)}
	n := min(len(actual), len(want))
	for i := 0; i < n; i++ {
		switch actual[i] {
		case strategy.Buy:
			rc.Buys++
		case strategy.Sell:
			rc.Sells++
		default:
			rc.Holds++
		}
		if want[i].Exempt {
			rc.Exempt++
			continue
		}
		rc.Compared++
		if actual[i] != want[i].A {
			rc.Bad++
			if rc.FirstBad < 0 {
				rc.FirstBad = i
			}
		}
	}
	return rc
}

// CalibrateStrat describes how a strategy's output relates to its registry
// row. Development aid only.
func CalibrateStrat(row *reg.Strat, cfg reg.Cfg, class string, n int, r *gen.Rand) string {
	var sb strings.Builder
	s := row.New(cfg)
	ws := row.Warm(s)
	snaps := reg.Snaps(gen.Bars(r, class, n))
	actual := runStrat(s, snaps)
	fmt.Fprintf(&sb, "%-44s cfg=%v w_s=%d n=%d len=%d ", row.Name, cfg, ws, n, len(actual))
	firstNonHold := -1
	for i, a := range actual {
		if a != strategy.Hold {
			firstNonHold = i
			break
		}
	}
	fmt.Fprintf(&sb, "firstNonHold=%d ", firstNonHold)
	if firstNonHold >= 0 && firstNonHold < ws {
		fmt.Fprintf(&sb, "NONHOLD-BEFORE-WARMUP ")
	}
	want := row.Rule(row.New(cfg), snaps)
	if len(want) != n {
		fmt.Fprintf(&sb, "RULELEN=%d ", len(want))
	}
	rc := compareRule(actual, want)
	if rc.Bad == 0 && rc.LenDiff == 0 {
		fmt.Fprintf(&sb, "RULE OK compared=%d exempt=%d B/S/H=%d/%d/%d", rc.Compared, rc.Exempt, rc.Buys, rc.Sells, rc.Holds)
	} else {
		fmt.Fprintf(&sb, "RULE MISMATCH bad=%d/%d lendiff=%d first=%d B/S/H=%d/%d/%d", rc.Bad, rc.Compared, rc.LenDiff, rc.FirstBad, rc.Buys, rc.Sells, rc.Holds)
		for _, d := range row.Devs {
			dc := compareRule(actual, d.Rule(row.New(cfg), snaps))
			if dc.Bad == 0 && dc.LenDiff == 0 {
				fmt.Fprintf(&sb, " | DEV %s MATCHES compared=%d", d.Key, dc.Compared)
			} else {
				fmt.Fprintf(&sb, " | dev %s mismatches bad=%d lendiff=%d", d.Key, dc.Bad, dc.LenDiff)
			}
		}
	}
	return sb.String()
}
