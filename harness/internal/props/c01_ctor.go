package props

import (
	"fmt"

	"github.com/cinar/indicator/v2/trend"
	"github.com/cinar/indicator/v2/volatility"
	"github.com/cinar/indicator/v2/volume"

	"verif/harness/internal/gen"
	"verif/harness/internal/reg"
	"verif/harness/internal/run"
)

// The parameterless constructors. The registry builds its default instances
// through the With-constructors and the documented Default* constants; a
// parameterless constructor must give an instance that computes exactly the
// same values (and declares the same warm-up), otherwise its defaults are not
// the documented ones.
type defaultCtor struct {
	ind string  // registry row
	cfg reg.Cfg // registry configuration it must equal (zero value: the row's Default)
	alt bool
	mk  func() reg.Inst
}

func c01DefaultCtors() []defaultCtor {
	ema := reg.Cfg{I: []int{trend.DefaultEnvelopePeriod}, F: []float64{trend.DefaultEnvelopePercentage}, S: "ema"}
	return []defaultCtor{
		{ind: "trend.Kama", mk: func() reg.Inst { x := trend.NewKama[float64](); return reg.Inst{Obj: x, Compute: reg.A11(x.Compute), Idle: x.IdlePeriod()} }},
		{ind: "trend.Macd", mk: func() reg.Inst { x := trend.NewMacd[float64](); return reg.Inst{Obj: x, Compute: reg.A12(x.Compute), Idle: x.IdlePeriod()} }},
		{ind: "trend.Rma", mk: func() reg.Inst { x := trend.NewRma[float64](); return reg.Inst{Obj: x, Compute: reg.A11(x.Compute), Idle: x.IdlePeriod()} }},
		{ind: "trend.Smma", mk: func() reg.Inst { x := trend.NewSmma[float64](); return reg.Inst{Obj: x, Compute: reg.A11(x.Compute), Idle: x.IdlePeriod()} }},
		{ind: "trend.Tsi", mk: func() reg.Inst { x := trend.NewTsi[float64](); return reg.Inst{Obj: x, Compute: reg.A11(x.Compute), Idle: x.IdlePeriod()} }},
		{ind: "trend.Envelope", mk: func() reg.Inst { x := trend.NewEnvelopeWithSma[float64](); return reg.Inst{Obj: x, Compute: reg.A13(x.Compute), Idle: x.IdlePeriod()} }},
		{ind: "trend.Envelope", cfg: ema, alt: true, mk: func() reg.Inst { x := trend.NewEnvelopeWithEma[float64](); return reg.Inst{Obj: x, Compute: reg.A13(x.Compute), Idle: x.IdlePeriod()} }},
		{ind: "volatility.DonchianChannel", mk: func() reg.Inst { x := volatility.NewDonchianChannel[float64](); return reg.Inst{Obj: x, Compute: reg.A13(x.Compute), Idle: x.IdlePeriod()} }},
		{ind: "volatility.KeltnerChannel", mk: func() reg.Inst { x := volatility.NewKeltnerChannel[float64](); return reg.Inst{Obj: x, Compute: reg.A33(x.Compute), Idle: x.IdlePeriod()} }},
		{ind: "volatility.MovingStd", mk: func() reg.Inst { x := volatility.NewMovingStd[float64](); return reg.Inst{Obj: x, Compute: reg.A11(x.Compute), Idle: x.IdlePeriod()} }},
		{ind: "volatility.PercentB", mk: func() reg.Inst { x := volatility.NewPercentB[float64](); return reg.Inst{Obj: x, Compute: reg.A11(x.Compute), Idle: x.IdlePeriod()} }},
		{ind: "volatility.Po", mk: func() reg.Inst { x := volatility.NewPo[float64](); return reg.Inst{Obj: x, Compute: reg.A31(x.Compute), Idle: x.IdlePeriod()} }},
		{ind: "volume.Emv", mk: func() reg.Inst { x := volume.NewEmv[float64](); return reg.Inst{Obj: x, Compute: reg.A31(x.Compute), Idle: x.IdlePeriod()} }},
		{ind: "volume.Fi", mk: func() reg.Inst { x := volume.NewFi[float64](); return reg.Inst{Obj: x, Compute: reg.A21(x.Compute), Idle: x.IdlePeriod()} }},
		{ind: "volume.Vwap", mk: func() reg.Inst { x := volume.NewVwap[float64](); return reg.Inst{Obj: x, Compute: reg.A21(x.Compute), Idle: x.IdlePeriod()} }},
	}
}

func c01CtorCases(ctx *run.Ctx) {
	for i, dc := range c01DefaultCtors() {
		dc := dc
		ind := reg.ByName(dc.ind)
		if ind == nil {
			continue
		}
		ctx.Case(fmt.Sprintf("ctor/%s/%d", dc.ind, i), func(cc *run.Case) {
			cfg := ind.Default
			if dc.alt {
				cfg = dc.cfg
			}
			for _, n := range []int{0, 40, 251} {
				inputs := indInputs(ind, gen.Bars(cc.R, gen.Walk2, n), nil)
				want := ind.New(cfg)
				got := dc.mk()
				cc.Desc(map[string]any{"indicator": dc.ind, "registry_cfg": cfg, "n": n})
				if got.Idle != want.Idle {
					cc.Viol("", fmt.Sprintf("%s: the parameterless constructor declares a warm-up of %d, the documented defaults %v give %d", dc.ind, got.Idle, cfg, want.Idle), nil)
					return
				}
				a, b := runInd(got, inputs), runInd(want, inputs)
				if !eqOuts(a, b) {
					cc.Viol("", fmt.Sprintf("%s: the instance of the parameterless constructor computes other values than one configured with the documented defaults %v (n=%d)", dc.ind, cfg, n), map[string]any{"constructor": jsonSafe(clip(a, 6)), "documented_defaults": jsonSafe(clip(b, 6))})
					return
				}
				// ... and the documented formula itself
				classifyRef(cc, ind, cfg, got.Idle, inputs, a, "ctor", true)
			}
			cc.Count("default_constructors_checked", 1)
		})
	}
}
