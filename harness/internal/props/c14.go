package props

import (
	"bytes"
	"fmt"
	"math"
	"reflect"
	"strconv"
	"strings"
	"sync"
	"time"

	"github.com/cinar/indicator/v2/asset"
	"github.com/cinar/indicator/v2/helper"
	"github.com/cinar/indicator/v2/strategy"

	"verif/harness/internal/gen"
	"verif/harness/internal/reg"
	"verif/harness/internal/run"
)

func init() { All["C14"] = c14 }

// drained is what the report's channels yield when every one of them is
// drained by its own reader.
type drained struct {
	Dates []time.Time
	Names []string
	Roles []string
	Cols  [][]string // printed values, as the template would print them ("%v")
	Nums  [][]float64
}

// drainReport drains the date channel and every column channel (through the
// unexported `values` field, no hook) concurrently.
func drainReport(rep *helper.Report) drained {
	d := drained{Cols: make([][]string, len(rep.Columns)), Nums: make([][]float64, len(rep.Columns))}
	var wg sync.WaitGroup
	wg.Add(1)
	go func() { defer wg.Done(); d.Dates = helper.ChanToSlice(rep.Date) }()
	for i, col := range rep.Columns {
		d.Names = append(d.Names, col.Name())
		d.Roles = append(d.Roles, col.Role())
		ch := unexportedField(col, "values")
		wg.Add(1)
		go func(i int, ch reflect.Value) {
			defer wg.Done()
			for {
				v, ok := ch.Recv()
				if !ok {
					return
				}
				d.Cols[i] = append(d.Cols[i], fmt.Sprintf("%v", v.Interface()))
				if v.CanFloat() {
					d.Nums[i] = append(d.Nums[i], v.Float())
				} else if v.CanInt() {
					d.Nums[i] = append(d.Nums[i], float64(v.Int()))
				}
			}
		}(i, ch)
	}
	wg.Wait()
	return d
}

// dayIndex maps a snapshot date (midnight in its own zone) back to its index.
func dayIndex(t time.Time) int {
	y, m, d := t.Date()
	return int(time.Date(y, m, d, 0, 0, 0, 0, time.UTC).Sub(reg.Day(0)).Hours() / 24)
}

// inZone re-dates snapshots to local midnight of the same calendar day in
// another time zone (exchanges east and west of Greenwich).
func inZone(snaps []*asset.Snapshot, loc *time.Location) []*asset.Snapshot {
	out := make([]*asset.Snapshot, len(snaps))
	for i, s := range snaps {
		c := *s
		y, m, d := s.Date.Date()
		c.Date = time.Date(y, m, d, 0, 0, 0, 0, loc)
		out[i] = &c
	}
	return out
}

var c14Zones = []*time.Location{time.UTC, time.FixedZone("UTC+9", 9*3600), time.FixedZone("UTC-5", -5*3600), time.FixedZone("UTC+1", 3600)}

// c14Key returns the known-finding key for a column that yields `extra`
// values more than there are date rows: the two strategies that shift by the
// largest period instead of the largest warm-up draw their average columns
// (and the annotation, which inherits the extra action) one row longer than
// the date axis, which they skip by the period.
func c14Key(ns namedStrat, extra int) string {
	if extra == 1 {
		return ns.PlusOne
	}
	return ""
}

func c14Check(cc *run.Case, ns namedStrat, class string, n int) bool {
	bars := c01Bars(cc.R, class, n)
	zone := c14Zones[cc.R.Intn(len(c14Zones))]
	snaps := inZone(reg.Snaps(bars), zone)
	if n > 3 && cc.R.Intn(3) == 0 {
		// two snapshots carry the same date (a split day, two sessions on one day)
		k := cc.R.Range(1, n-1)
		snaps[k].Date = snaps[k-1].Date
	}
	cc.Desc(map[string]any{"strategy": ns.Name, "class": class, "n": n, "w_s": ns.Warm, "zone": zone.String()})
	detail := map[string]any{"strategy": ns.Name, "class": class, "n": n, "w_s": ns.Warm, "zone": zone.String()}
	fail := func(key, msg string) bool {
		cc.Viol(key, fmt.Sprintf("%s report over %d snapshots: %s", ns.Name, n, msg), detail)
		return key != ""
	}
	// (i) every column supplies exactly one value per date row
	d := drainReport(ns.New().Report(helper.SliceToChan(snaps)))
	cc.Count("reports_drained", 1)
	rows := len(d.Dates)
	detail["date_rows"] = rows
	if rows == 0 || rows > n {
		key := ""
		if rows == 0 && n == ns.Warm+1 {
			key = c14Key(ns, 1) // the date axis is skipped by the period, one more than the warm-up
		}
		fail(key, fmt.Sprintf("the date axis has %d rows for %d snapshots (warm-up %d)", rows, n, ns.Warm))
		return key != ""
	}
	// the date axis must be the dates of the last `rows` snapshots, one row per snapshot
	first := n - rows
	for k, dt := range d.Dates {
		if !dt.Equal(snaps[first+k].Date) {
			return fail("", fmt.Sprintf("date row %d is %s, the %d-th snapshot is dated %s (the date axis must carry the dates of the last %d snapshots)", k, dt.Format("2006-01-02"), first+k, snaps[first+k].Date.Format("2006-01-02"), rows))
		}
	}
	ok := true
	for i := range d.Cols {
		if len(d.Cols[i]) != rows {
			name := d.Names[i]
			if d.Roles[i] == "annotation" {
				name = "(annotation)"
			}
			key := c14Key(ns, len(d.Cols[i])-rows)
			fail(key, fmt.Sprintf("column %d %q yields %d values for %d date rows (a short column silently prints zeros, a long one is left with unconsumed values)", i, name, len(d.Cols[i]), rows))
			ok = false
			if key == "" {
				return false
			}
		}
	}
	cc.Count("columns_checked", int64(len(d.Cols)))
	if !ok {
		return true // known count deviation: the row-content checks below would only repeat it
	}
	// (ii) Close, annotation and Outcome of every row
	acts := runStrat(ns.New(), snaps)
	norm := normalizeModel(acts)
	closes := reg.Col(snaps, 'c')
	outs := simulate(closes, acts)
	for i, name := range d.Names {
		switch {
		case name == "Close" && d.Roles[i] == "data":
			for k := 0; k < rows; k++ {
				if d.Nums[i][k] != closes[first+k] {
					key := ""
					if strings.HasPrefix(ns.Name, "trend.CciStrategy ") && eqFloats(d.Nums[i], reg.Col(snaps, 'h')[first:first+rows]) {
						key = "trend.CciStrategy:cci-strategy-high-for-all-fields"
					}
					return fail(key, fmt.Sprintf("row %d (%s): Close column shows %v, the snapshot's close is %v", k, d.Dates[k].Format("2006-01-02"), d.Nums[i][k], closes[first+k]))
				}
			}
			cc.Count("close_cells", int64(rows))
		case d.Roles[i] == "annotation":
			for k := 0; k < rows && first+k < len(norm); k++ {
				if want := norm[first+k].Annotation(); d.Cols[i][k] != want {
					return fail("", fmt.Sprintf("row %d (%s): annotation %q, the normalised action recommended on that date is %q", k, d.Dates[k].Format("2006-01-02"), d.Cols[i][k], want))
				}
			}
			cc.Count("annotation_cells", int64(rows))
		case name == "Outcome":
			for k := 0; k < rows && first+k < len(outs); k++ {
				want := outs[first+k] * 100
				if !(math.Abs(d.Nums[i][k]-want) <= 1e-9*math.Max(1, math.Abs(want))) && !(math.IsNaN(d.Nums[i][k]) && math.IsNaN(want)) {
					return fail("", fmt.Sprintf("row %d (%s): Outcome column shows %v, the outcome as of that date is %v", k, d.Dates[k].Format("2006-01-02"), d.Nums[i][k], want))
				}
			}
			cc.Count("outcome_cells", int64(rows))
		}
	}
	// (iv) rendering terminates, renders one row per date, and the rendered
	// cells are the drained values; nothing is left unconsumed afterwards.
	rep := ns.New().Report(helper.SliceToChan(snaps))
	var buf bytes.Buffer
	if err := rep.WriteToWriter(&buf); err != nil {
		return fail("", "WriteToWriter failed: "+err.Error())
	}
	rendered := addRowRe.FindAllStringSubmatch(buf.String(), -1)
	if len(rendered) != rows {
		return fail("", fmt.Sprintf("%d rows rendered for %d dates", len(rendered), rows))
	}
	for k, m := range rendered {
		cells := strings.Split(strings.Join(strings.Fields(m[1]), ""), ",")
		// cells[0] = newDate("..."), then one per column, then a trailing empty cell
		if len(cells) < 1+len(d.Cols) {
			return fail("", fmt.Sprintf("rendered row %d has %d cells for %d columns", k, len(cells)-1, len(d.Cols)))
		}
		if want := fmt.Sprintf("newDate(%q)", d.Dates[k].Format(helper.DefaultReportDateFormat)); cells[0] != want {
			return fail("", fmt.Sprintf("rendered row %d is labelled %s, the date of that row is %s (snapshot dates in zone %s)", k, cells[0], want, zone))
		}
		for i := range d.Cols {
			want := d.Cols[i][k]
			if d.Roles[i] == "annotation" {
				if want == "" {
					want = "null"
				} else {
					want = strconv.Quote(want)
				}
			}
			if cells[1+i] != want {
				return fail("", fmt.Sprintf("rendered row %d column %d shows %s, the column's value for that date is %s", k, i, cells[1+i], want))
			}
		}
	}
	left := drainReport(rep)
	for i := range left.Cols {
		if len(left.Cols[i]) != 0 {
			return fail("", fmt.Sprintf("column %d %q is left with %d unconsumed value(s) after rendering", i, d.Names[i], len(left.Cols[i])))
		}
	}
	cc.Count("reports_rendered", 1)
	// (iii) indicator columns are plotted against the dates they were computed
	// for: the dependence front of every data column is exactly the row of p.
	minLag := make([]int, len(d.Cols))
	for i := range minLag {
		minLag[i] = math.MaxInt
	}
	probe := func(p, kind int) bool {
		altSnaps := inZone(reg.Snaps(perturb(bars, p, kind, cc.R)), zone)
		for i := range altSnaps {
			altSnaps[i].Date = snaps[i].Date
		}
		alt := drainReport(ns.New().Report(helper.SliceToChan(altSnaps)))
		cc.Count("front_probes", 1)
		for i := range d.Cols {
			if d.Roles[i] != "data" || d.Names[i] == "Outcome" || i >= len(alt.Cols) {
				continue
			}
			k := firstDiffS(d.Cols[i], alt.Cols[i])
			if k < 0 {
				continue
			}
			// A cell that is NaN/Inf at the row of p (an undefined 0/0 term still
			// inside a moving window) cannot show a reaction: unobservable, not late.
			if row := max(p, first) - first; row < len(d.Cols[i]) && row < len(alt.Cols[i]) && (nonFiniteCell(d.Cols[i][row]) || nonFiniteCell(alt.Cols[i][row])) && first+k >= p {
				cc.Count("front_probes_unobservable", 1)
				continue
			}
			if first+k < p {
				fail("", fmt.Sprintf("column %d %q: changing the snapshots from position %d on changes the value plotted at row %d (date of snapshot %d): the column is drawn too early", i, d.Names[i], p, k, first+k))
				return false
			}
			if lag := first + k - max(p, first); lag < minLag[i] {
				minLag[i] = lag
			}
		}
		return true
	}
	// Columns are filled (0) up to their own warm-up: only positions after
	// the strategy's warm-up are probed, and only on series long enough to
	// offer several of them (a saturating column may ignore a single probe).
	lo := max(first, ns.Warm) + 1
	if n < lo+10 {
		return true
	}
	for _, p := range []int{lo, lo + 2, n - 2} {
		for kind := 0; kind < 6; kind++ {
			if !probe(p, kind) {
				return false
			}
		}
	}
	late := false
	for i := range minLag {
		if minLag[i] != math.MaxInt && minLag[i] > 0 {
			late = true
		}
	}
	// "Late" is concluded from unanimity: no probe at any position moved the
	// column on the row of the change. That is only evidence on series in
	// general position. Where every row looks like the next one (flat, halted,
	// tied, limit-run markets) a formula that ratchets - a band that only ever
	// tightens, an extreme that has to be beaten - legitimately ignores every
	// probe on its own row, at every position alike. "Too early" above is
	// sound on any series and stays in force for all classes.
	switch class {
	case gen.Walk, gen.Walk2, gen.Dyadic, gen.Spike, "tiny", "huge":
	default:
		if late {
			cc.Count("late_verdicts_not_drawn_on_a_market_without_movement", 1)
		}
		late = false
	}
	if late {
		for p := lo; p < n; p++ {
			for kind := 0; kind < 4; kind++ {
				if !probe(p, kind) {
					return false
				}
			}
		}
		for i := range minLag {
			if minLag[i] != math.MaxInt && minLag[i] > 0 {
				key := ""
				if strings.HasPrefix(ns.Name, "trend.ApoStrategy ") && d.Names[i] == "APO" && minLag[i] == 1 {
					key = "trend.ApoStrategy:apo-report-column-shifted-by-slow"
				}
				if !fail(key, fmt.Sprintf("column %d %q never reacts before %d row(s) after the date whose snapshot changed: it is plotted %d row(s) late", i, d.Names[i], minLag[i], minLag[i])) {
					return false
				}
			}
		}
	}
	return true
}

func nonFiniteCell(s string) bool {
	return strings.Contains(s, "NaN") || strings.Contains(s, "Inf")
}

func firstDiffS(a, b []string) int {
	n := min(len(a), len(b))
	for i := 0; i < n; i++ {
		if a[i] != b[i] {
			return i
		}
	}
	if len(a) != len(b) {
		return n
	}
	return -1
}

func eqFloats(a, b []float64) bool {
	if len(a) != len(b) {
		return false
	}
	for i := range a {
		if a[i] != b[i] {
			return false
		}
	}
	return true
}

var _ = asset.Snapshot{}
var _ strategy.Action

func c14(ctx *run.Ctx) {
	base := baseStrats(ctx, ctx.Pick(1, 20))
	var small []namedStrat
	for _, b := range base {
		if b.Warm <= 40 {
			small = append(small, b)
		}
	}
	all := append(append([]namedStrat(nil), base...), compoundStrats(ctx, small, ctx.Pick(3, 40))...)
	for _, row := range reg.SortedStrats() {
		ctx.Count("cmp:"+row.Name, 0)
	}
	for si, ns := range all {
		ns := ns
		lens := []int{ns.Warm + 1, ns.Warm + 2, 2*ns.Warm + 9, 251}
		if si%9 == 4 {
			lens = append(lens, 640) // several years of daily bars
		}
		if si < len(base) {
			// a market that does not move (whole windows of equal closes, ranges
			// and volumes), for every base strategy: windows without any change
			// are where a ratio has no value and a guard may swallow one
			for _, class := range []string{gen.Flat, gen.Halt} {
				class := class
				ctx.Case(fmt.Sprintf("strat/%d/%s", si, class), func(cc *run.Case) {
					c14Check(cc, ns, class, 2*ns.Warm+70)
				})
			}
		}
		for _, n := range lens {
			n := n
			if n <= ns.Warm {
				continue
			}
			ctx.Case(fmt.Sprintf("strat/%d/n%d", si, n), func(cc *run.Case) {
				class := []string{gen.Walk, gen.Walk2, gen.Ties, gen.Flat, gen.Plateau, gen.Degen, gen.LimitRun, gen.Dyadic, gen.Halt, "tiny", "huge"}[cc.R.Intn(11)]
				if n == 2*ns.Warm+9 {
					class = "tiny" // every strategy is reported once in a very small currency unit
				}
				if c14Check(cc, ns, class, n) {
					cc.Distinct(fmt.Sprintf("%s/%d", ns.Name, n))
				}
				if ns.Row != nil {
					cc.Count("cmp:"+ns.Row.Name, 1)
				}
				if cc.WantSample() && si%7 == 2 && n == 251 {
					cc.Sample(map[string]any{"strategy": ns.Name, "n": n, "oracle": "column counts == date rows; Close/annotation/Outcome per row; rendered cells == drained values; no leftovers; dependence front of indicator columns"})
				}
			})
		}
	}
}
