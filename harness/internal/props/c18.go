package props

import (
	"fmt"
	"math"

	"verif/harness/internal/gen"
	"verif/harness/internal/reg"
	"verif/harness/internal/run"
)

func init() { All["C18"] = c18 }

// scaleInputs multiplies price-like streams by fp and volume streams by fv
// (time indices are never rescaled).
func scaleInputs(ind *reg.Indicator, inputs [][]float64, fp, fv float64) [][]float64 {
	out := make([][]float64, len(inputs))
	for k, s := range inputs {
		f := fp
		switch ind.In[k] {
		case 'v':
			f = fv
		case 't':
			f = 1
		}
		o := make([]float64, len(s))
		for i, x := range s {
			o[i] = x * f
		}
		out[k] = o
	}
	return out
}

// devKeyFor recognises the signature of a known deviation in a broken scale
// relation: BOTH executions must match the same deviation model exactly, and
// at least one of them must differ from the documented formula.
func devKeyFor(ind *reg.Indicator, cfg reg.Cfg, w int, inA, outA, inB, outB [][]float64) string {
	for _, dv := range ind.Devs {
		if compareRef(ind, w, inA, outA, dv.Ref(cfg, inA)).Bad != nil || compareRef(ind, w, inB, outB, dv.Ref(cfg, inB)).Bad != nil {
			continue
		}
		if compareRef(ind, w, inA, outA, ind.Ref(cfg, inA)).Bad != nil || compareRef(ind, w, inB, outB, ind.Ref(cfg, inB)).Bad != nil {
			return ind.Name + ":" + dv.Key
		}
	}
	return ""
}

// discontinuous lists the indicators whose documented formula contains a
// comparison between computed quantities.
var discontinuous = map[string]bool{"volume.Mfi": true, "volume.Obv": true, "volume.Nvi": true, "trend.Aroon": true, "volatility.SuperTrend": true}

// (log2 price factor, log2 volume factor): small and large currency units
// (a token quoted in BTC, a price in the smallest coin) and volume units
// (fractional coin volumes, volumes in millions of shares).
var scalePairs = [][2]int{{-4, 2}, {2, 10}, {10, -4}, {2, 0}, {0, 2}, {-38, -30}, {40, 30}, {0, -30}}

func c18Indicator(cc *run.Case, ind *reg.Indicator, cfg reg.Cfg, class string, n int) bool {
	bars := gen.Bars(cc.R, class, n)
	inputs := indInputs(ind, bars, nil)
	inst := ind.New(cfg)
	w := inst.Idle
	base := runInd(inst, inputs)
	cc.Count("base_runs", 1)
	cc.Count("cmp:"+ind.Name, 1)
	for _, sp := range scalePairs {
		a, b := sp[0], sp[1]
		fp, fv := math.Ldexp(1, a), math.Ldexp(1, b)
		scaledIn := scaleInputs(ind, inputs, fp, fv)
		cc.Desc(map[string]any{"indicator": ind.Name, "cfg": cfg, "class": class, "n": n, "price_factor": fp, "volume_factor": fv})
		got := runInd(ind.New(cfg), scaledIn)
		cc.Count("scaled_runs", 1)
		for j := range base {
			d := degOf(ind, j)
			f := math.Ldexp(1, a*d.P+b*d.V)
			if len(got[j]) != len(base[j]) {
				cc.Viol("", fmt.Sprintf("%s %v output %d: %d values on the original series, %d on the rescaled one", ind.Name, cfg, j, len(base[j]), len(got[j])), nil)
				return false
			}
			for k := range base[j] {
				want := base[j][k] * f
				g := got[j][k]
				if g == want || (math.IsNaN(g) && math.IsNaN(want)) {
					continue
				}
				// Not covariant. Is it the signature of a known deviation? Then
				// both executions must match the same deviation model exactly.
				key := devKeyFor(ind, cfg, w, inputs, base, scaledIn, got)
				cc.Viol(key, fmt.Sprintf("%s %v output %d (%s) index %d: prices x2^%d, volumes x2^%d should scale the value exactly by 2^%d (homogeneity degree %d/%d): %.17g became %.17g, expected %.17g",
					ind.Name, cfg, j, ind.Out[j], k, a, b, a*d.P+b*d.V, d.P, d.V, base[j][k], g, want),
					map[string]any{"indicator": ind.Name, "cfg": cfg, "class": class, "n": n, "a": a, "b": b, "output": j, "k": k, "inputs": jsonSafe(clip(inputs, 60))})
				return false
			}
			cc.Count("values_compared_bit_exact", int64(len(base[j])))
		}
	}
	// Decimal re-denomination (x100, x0.01): within rounding only. Formulas
	// that branch on a comparison of computed quantities (sign of a change,
	// "since the extreme changed", trend flips) are discontinuous exactly at
	// ties, where a non-power-of-two factor may round the two sides apart:
	// for them only the exact power-of-two relation above is claimed.
	for _, f10 := range [][2]float64{{100, 0.01}, {0.01, 100}} {
		if discontinuous[ind.Name] {
			cc.Count("decimal_skipped_discontinuous_formula", 1)
			break
		}
		scaledIn := scaleInputs(ind, inputs, f10[0], f10[1])
		got := runInd(ind.New(cfg), scaledIn)
		refS := ind.Ref(cfg, scaledIn)
		refO := ind.Ref(cfg, inputs)
		// An indicator that is known to deviate from its documented formula (C01
		// finding) amplifies rounding the way its AS-BUILT formula does: the
		// conditioning (Ill, S) of its deviation models counts as well.
		var devS [][][]reg.RV
		for _, d := range ind.Devs {
			devS = append(devS, d.Ref(cfg, scaledIn), d.Ref(cfg, inputs))
		}
		expect := make([][]reg.RV, len(base))
		for j := range base {
			d := degOf(ind, j)
			f := math.Pow(f10[0], float64(d.P)) * math.Pow(f10[1], float64(d.V))
			expect[j] = make([]reg.RV, len(base[j]))
			for k := range base[j] {
				rv := reg.RV{V: base[j][k] * f}
				if j < len(refS) && k < len(refS[j]) {
					rv.Ill, rv.S = refS[j][k].Ill, refS[j][k].S*4
				}
				if j < len(refO) && k < len(refO[j]) && refO[j][k].Ill {
					rv.Ill = true
				}
				for _, dr := range devS {
					if j < len(dr) && k < len(dr[j]) {
						rv.Ill = rv.Ill || dr[j][k].Ill
						rv.S = math.Max(rv.S, dr[j][k].S*4)
					}
				}
				expect[j][k] = rv
			}
		}
		// Non-finite values poison running sums for good (a known C01 finding):
		// once either run has gone non-finite the comparison stops for that output.
		for j := range expect {
			dead := false
			for k := range expect[j] {
				if dead || !finite(base[j][k]) || (k < len(got[j]) && !finite(got[j][k])) {
					dead = true
					expect[j][k].Ill = true
				}
			}
		}
		res := compareRef(ind, w, scaledIn, got, expect)
		cc.Count("values_compared_decimal", int64(res.Compared))
		if res.Bad != nil {
			key := devKeyFor(ind, cfg, w, inputs, base, scaledIn, got)
			cc.Viol(key, fmt.Sprintf("%s %v output %d index %d: prices x%g, volumes x%g: got %s, homogeneity predicts %s (tolerance %.3g)", ind.Name, cfg, res.Bad.Output, res.Bad.K, f10[0], f10[1], res.Bad.ActualS, res.Bad.ExpectS, res.Bad.Tol),
				map[string]any{"indicator": ind.Name, "cfg": cfg, "class": class, "n": n, "inputs": jsonSafe(clip(inputs, 60))})
			return false
		}
	}
	cc.Distinct(fmt.Sprintf("%s/%v/%s", ind.Name, cfg, class))
	return true
}

// settle is a series class of this check only: a walk and then a halt that
// outlasts every average, so that the averages a strategy compares converge
// to within rounding of each other and of the price. What the comparison says
// there is decided by the last bits - which a power-of-two unit leaves alone.
const settle = "settle"

func c18Strategy(cc *run.Case, ns namedStrat, class string, n int) {
	var bars []gen.Bar
	if class == settle {
		bars = gen.Bars(cc.R, gen.Walk2, n)
		for last := bars[len(bars)-1]; len(bars) < n+260; {
			bars = append(bars, last)
		}
	} else {
		bars = gen.Bars(cc.R, class, n)
	}
	base := runStrat(ns.New(), reg.Snaps(bars))
	nonHold := 0
	for _, a := range base {
		if a != 0 {
			nonHold++
		}
	}
	for _, sp := range scalePairs {
		fp, fv := math.Ldexp(1, sp[0]), math.Ldexp(1, sp[1])
		cc.Desc(map[string]any{"strategy": ns.Name, "class": class, "n": n, "price_factor": fp, "volume_factor": fv})
		got := runStrat(ns.New(), reg.Snaps(gen.ScaleBars(bars, fp, fv)))
		cc.Count("scaled_runs", 1)
		if !eqActions(base, got) {
			first := -1
			for i := 0; i < min(len(base), len(got)); i++ {
				if base[i] != got[i] {
					first = i
					break
				}
			}
			cc.Viol("", fmt.Sprintf("%s: multiplying prices by 2^%d and volumes by 2^%d changes the recommendations (first difference at snapshot %d; %d vs %d actions)", ns.Name, sp[0], sp[1], first, len(base), len(got)),
				map[string]any{"strategy": ns.Name, "class": class, "n": n, "a": sp[0], "b": sp[1], "base": fmt.Sprint(base), "scaled": fmt.Sprint(got)})
			return
		}
		cc.Count("actions_compared", int64(len(base)))
	}
	if nonHold > 0 {
		cc.Distinct(fmt.Sprintf("%s/%s/%d", ns.Name, class, n))
	}
}

func c18(ctx *run.Ctx) {
	nrand := ctx.Pick(4, 40)
	classes := []string{gen.Walk, gen.Walk2, gen.Dyadic, gen.Ties, gen.Degen}
	if !ctx.Quick() {
		classes = gen.OHLCVClasses
	}
	for _, ind := range reg.Sorted() {
		ind := ind
		lengths := []int{-1, 120}
		if discontinuous[ind.Name] {
			// a formula with branches keeps state across them: what a branch
			// taken early does to a value may only show much later
			lengths = append(lengths, 500)
		}
		ctx.Count("cmp:"+ind.Name, 0)
		for ci, cfg := range indCfgs(ctx, ind, nrand) {
			ci, cfg := ci, cfg
			w := ind.New(cfg).Idle
			for _, class := range classes {
				class := class
				for _, n := range lengths {
					if n < 0 {
						n = 2*w + 9
					}
					n := n
					ctx.Case(fmt.Sprintf("ind/%s/cfg%d/%s/n%d", ind.Name, ci, class, n), func(cc *run.Case) {
						ok := c18Indicator(cc, ind, cfg, class, n)
						if discontinuous[ind.Name] {
							// which branch a bar takes depends on the series: several per case
							for rep := 0; rep < 5 && ok; rep++ {
								ok = c18Indicator(cc, ind, cfg, class, n)
							}
						}
						if cc.WantSample() && ci == 1 && class == gen.Walk2 {
							cc.Sample(map[string]any{"indicator": ind.Name, "cfg": cfg, "class": class, "n": n, "scale_pairs_log2": scalePairs, "degrees": ind.Deg})
						}
					})
				}
			}
		}
	}
	base := baseStrats(ctx, ctx.Pick(2, 8))
	var small []namedStrat
	for _, b := range base {
		if b.Warm <= 40 {
			small = append(small, b)
		}
	}
	all := append(append([]namedStrat(nil), base...), compoundStrats(ctx, small, ctx.Pick(6, 24))...)
	for si, ns := range all {
		ns := ns
		for _, class := range append(append([]string(nil), classes...), settle) {
			class := class
			ctx.Case(fmt.Sprintf("strat/%d/%s", si, class), func(cc *run.Case) {
				c18Strategy(cc, ns, class, 2*ns.Warm+80)
				cc.Count("strategy_cases", 1)
			})
		}
	}
}
