package props

import (
	"fmt"
	"math"
	"os"
	"os/exec"
	"path/filepath"
	"sort"
	"strconv"
	"strings"
	"time"

	"github.com/cinar/indicator/v2/asset"
	"github.com/cinar/indicator/v2/helper"
	"github.com/cinar/indicator/v2/strategy"
	"github.com/cinar/indicator/v2/strategy/compound"
	smomentum "github.com/cinar/indicator/v2/strategy/momentum"
	strend "github.com/cinar/indicator/v2/strategy/trend"
	svolatility "github.com/cinar/indicator/v2/strategy/volatility"
	svolume "github.com/cinar/indicator/v2/strategy/volume"

	"verif/harness/internal/gen"
	"verif/harness/internal/run"
)

// End-to-end cases: the repository's own command line tools, built by the
// parent from the tree under test, are executed on generated file-system
// repositories and their effects compared with the same models as the
// library-level cases. This covers the wiring in cmd/*/main.go.

func todayUTC() time.Time { return time.Now().UTC().Truncate(24 * time.Hour) }

func snapAgo(daysAgo int, r *gen.Rand) *asset.Snapshot {
	p := gen.Round2(r.FRange(5, 500))
	if r.Intn(2) == 0 {
		p = r.FRange(5, 500) // all 17 significant digits (adjusted prices)
	}
	return &asset.Snapshot{Date: todayUTC().AddDate(0, 0, -daysAgo), Open: p, High: p + 2, Low: p - 1, Close: p + 1, Volume: float64(r.Range(100, 9999))}
}

// agoOf returns the dates of an asset as days before today and the snapshots
// by that number.
func agoOf(repo asset.Repository, name string) ([]int, map[int]asset.Snapshot, error) {
	c, err := repo.Get(name)
	if err != nil {
		return nil, nil, err
	}
	var out []int
	by := map[int]asset.Snapshot{}
	for s := range c {
		d := int(math.Round(todayUTC().Sub(s.Date).Hours() / 24))
		out = append(out, d)
		by[d] = *s
	}
	return out, by, nil
}

// c12CLI runs cmd/indicator-sync between two file-system repositories.
func c12CLI(cc *run.Case) {
	bin := os.Getenv("VERIF_BIN_INDICATOR_SYNC")
	if bin == "" {
		cc.Inconclusive("indicator-sync binary not provided by the parent")
		return
	}
	r := cc.R
	// A source without a single asset while the target holds some, no names
	// given: every asset of the target fails (the source does not have it), and
	// the failure must reach the exit status whatever the number of workers.
	if root, err := os.MkdirTemp("", "verif-c12cli-"); err == nil {
		srcDir, tgtDir := filepath.Join(root, "src"), filepath.Join(root, "tgt")
		os.Mkdir(srcDir, 0o700)
		os.Mkdir(tgtDir, 0o700)
		tgt := asset.NewFileSystemRepository(tgtDir)
		for _, n := range []string{"aa", "bb"} {
			tgt.Append(n, helper.SliceToChan([]*asset.Snapshot{snapAgo(9, r), snapAgo(8, r)}))
		}
		args := []string{"-source-name", "filesystem", "-source-config", srcDir, "-target-name", "filesystem", "-target-config", tgtDir, "-days", "20", "-workers", strconv.Itoa(r.Pick(1, 2, 4, 8)), "-delay", "0"}
		cc.Desc(map[string]any{"args": args, "source": "empty directory", "target": "assets aa, bb"})
		out, runErr := exec.Command(bin, args...).CombinedOutput()
		cc.Count("cli_runs", 1)
		os.RemoveAll(root)
		if runErr == nil {
			cc.Viol("", "indicator-sync (command line): the source holds none of the target's assets, yet the tool exits with status 0 (no failure reported)", map[string]any{"args": args, "output": clipStr(string(out), 800)})
			return
		}
	}
	for rep := 0; rep < 6; rep++ {
		root, err := os.MkdirTemp("", "verif-c12cli-")
		if err != nil {
			cc.Inconclusive(err.Error())
			return
		}
		srcDir, tgtDir := filepath.Join(root, "src"), filepath.Join(root, "tgt")
		os.Mkdir(srcDir, 0o700)
		os.Mkdir(tgtDir, 0o700)
		src, tgt := asset.NewFileSystemRepository(srcDir), asset.NewFileSystemRepository(tgtDir)
		// -days: assets new to the target start (now - days); no snapshot is dated
		// exactly 20 days ago; the large values mean "all history".
		days := r.Pick(20, 20, 20, 36500, 150000, 1000000)
		names := []string{"aa", "bb.c", "cvs", "d-d", "e5"}[:r.Range(2, 5)]
		source := map[string][]int{} // days ago, descending (= chronological)
		orig := map[string]map[int]asset.Snapshot{}
		prefix := map[string]int{}
		for _, name := range names {
			var ago []int
			for d := 45; d >= 2; d-- {
				if d != days && r.Intn(3) > 0 {
					ago = append(ago, d)
				}
			}
			source[name] = ago
			var snaps []*asset.Snapshot
			orig[name] = map[int]asset.Snapshot{}
			for _, d := range ago {
				snaps = append(snaps, snapAgo(d, r))
				orig[name][d] = *snaps[len(snaps)-1]
			}
			src.Append(name, helper.SliceToChan(snaps))
			k := -1 // not in the target at all
			if r.Intn(3) > 0 {
				k = r.Range(0, len(ago))
			}
			prefix[name] = k
			if k >= 0 {
				tgt.Append(name, helper.SliceToChan(snaps[:k]))
			}
		}
		explicit := r.Intn(2) == 0
		missing := explicit && r.Intn(3) == 0
		workers := r.Pick(1, 2, 4)
		args := []string{"-source-name", "filesystem", "-source-config", srcDir, "-target-name", "filesystem", "-target-config", tgtDir,
			"-days", strconv.Itoa(days), "-workers", strconv.Itoa(workers), "-delay", "0"}
		if explicit {
			args = append(args, names...)
			if missing {
				args = append(args, "not-in-source")
			}
		}
		desc := map[string]any{"args": args, "source_days_ago": source, "target_prefix_len": prefix}
		cc.Desc(desc)
		out, runErr := exec.Command(bin, args...).CombinedOutput()
		cc.Count("cli_runs", 1)
		fail := func(msg string) {
			desc["output"] = clipStr(string(out), 1500)
			cc.Viol("", "indicator-sync (command line): "+msg, desc)
			os.RemoveAll(root)
		}
		if (runErr != nil) != missing {
			fail(fmt.Sprintf("exit error = %v, a failure was expected = %v", runErr, missing))
			return
		}
		for _, name := range names {
			k := max(prefix[name], 0)
			want := append([]int(nil), source[name][:k]...)
			for _, d := range source[name] {
				if (k > 0 && d < source[name][k-1]) || (k == 0 && d < days) {
					want = append(want, d)
				}
			}
			got, gotBy, err := agoOf(tgt, name)
			if err != nil && len(want) > 0 {
				fail(fmt.Sprintf("asset %s cannot be read from the target: %v", name, err))
				return
			}
			srcBy := orig[name] // as handed to the source repository, before any file round trip
			for _, d := range got {
				if a, b := gotBy[d], srcBy[d]; a.Open != b.Open || a.High != b.High || a.Low != b.Low || a.Close != b.Close || a.Volume != b.Volume {
					fail(fmt.Sprintf("asset %s: the snapshot dated %d days ago differs between target (%v) and source (%v)", name, d, a, b))
					return
				}
			}
			if !eqInts(got, want) {
				fail(fmt.Sprintf("asset %s holds snapshots dated %v days ago, expected %v (previous %v + source snapshots after the last date / inside the last %d days)", name, got, want, source[name][:k], days))
				return
			}
		}
		os.RemoveAll(root)
		cc.Distinct(fmt.Sprintf("cli/%s/%d", cc.Label, rep))
	}
}

// cliStrategies is the strategy list cmd/indicator-backtest assembles.
func cliStrategies() []strategy.Strategy {
	var l []strategy.Strategy
	l = append(l, compound.AllStrategies()...)
	l = append(l, smomentum.AllStrategies()...)
	l = append(l, strategy.AllStrategies()...)
	l = append(l, strend.AllStrategies()...)
	l = append(l, svolatility.AllStrategies()...)
	l = append(l, svolume.AllStrategies()...)
	return l
}

// c13CLI runs cmd/indicator-backtest over a file-system repository with the
// HTML report and checks the pages against a direct evaluation.
func c13CLI(cc *run.Case) {
	bin := os.Getenv("VERIF_BIN_INDICATOR_BACKTEST")
	if bin == "" {
		cc.Inconclusive("indicator-backtest binary not provided by the parent")
		return
	}
	r := cc.R
	root, err := os.MkdirTemp("", "verif-c13cli-")
	if err != nil {
		cc.Inconclusive(err.Error())
		return
	}
	defer os.RemoveAll(root)
	repoDir, outDir := filepath.Join(root, "repo"), filepath.Join(root, "out")
	os.Mkdir(repoDir, 0o700)
	repo := asset.NewFileSystemRepository(repoDir)
	last := r.Pick(120, 300)
	names := []string{"aa", "bb.c", "cvs"}[:r.Range(1, 3)]
	inside := map[string][]*asset.Snapshot{}
	for _, name := range names {
		nIn := r.Range(40, last-6)
		bars := gen.Bars(r, gen.Walk2, nIn+5)
		var snaps []*asset.Snapshot
		for k, b := range bars {
			ago := 2 + (len(bars) - 1 - k)
			if k < 5 {
				ago = last + 3 + (5 - k) // older than the look-back window
			}
			s := &asset.Snapshot{Date: todayUTC().AddDate(0, 0, -ago), Open: b.O, High: b.H, Low: b.L, Close: b.C, Volume: b.V}
			snaps = append(snaps, s)
			if k >= 5 {
				inside[name] = append(inside[name], s)
			}
		}
		repo.Append(name, helper.SliceToChan(snaps))
	}
	workers := r.Pick(1, 3, 8)
	args := []string{"-repository-name", "filesystem", "-repository-config", repoDir, "-report-name", "html", "-report-config", outDir, "-workers", strconv.Itoa(workers), "-last", strconv.Itoa(last)}
	if r.Intn(2) == 0 {
		args = append(args, names...)
	}
	desc := map[string]any{"args": args, "assets": names}
	cc.Desc(desc)
	out, runErr := exec.Command(bin, args...).CombinedOutput()
	cc.Count("cli_runs", 1)
	fail := func(msg string) {
		desc["output"] = clipStr(string(out), 1500)
		cc.Viol("", "indicator-backtest (command line): "+msg, desc)
	}
	if runErr != nil {
		fail("exited with an error: " + runErr.Error())
		return
	}
	// The window the tool reads back: dates are >= 2 days inside it, so the
	// asset's snapshots inside the window are exactly `inside` (re-read from
	// the repository to get the values the CSV round trip produced).
	for _, name := range names {
		b, err := os.ReadFile(filepath.Join(outDir, name+".html"))
		if err != nil {
			fail(fmt.Sprintf("no report page for asset %s: %v", name, err))
			return
		}
		rows := assetRowRe.FindAllStringSubmatch(string(b), -1)
		strats := cliStrategies()
		if len(rows) != len(strats) {
			fail(fmt.Sprintf("%s.html has %d rows, the tool runs %d strategies", name, len(rows), len(strats)))
			return
		}
		var want, got []string
		for _, s := range strats {
			a, o := strategy.ComputeWithOutcome(s, helper.SliceToChan(inside[name]))
			go helper.Drain(a)
			outs := helper.ChanToSlice(o)
			want = append(want, fmt.Sprintf("%s|%.2f", s.Name(), lastOr(outs, 0)*100))
		}
		prev := math.Inf(1)
		for ri, row := range rows {
			m := pctRe.FindStringSubmatch(row[2])
			if m == nil {
				fail(fmt.Sprintf("%s.html row %d has no outcome cell", name, ri))
				return
			}
			got = append(got, row[1]+"|"+m[1])
			v, _ := strconv.ParseFloat(m[1], 64)
			if v > prev+0.0101 { // both values are rounded to 2 decimals
				fail(fmt.Sprintf("%s.html is not in non-increasing outcome order at row %d (%s%% after %.2f%%)", name, ri, m[1], prev))
				return
			}
			prev = v
		}
		sort.Strings(want)
		sort.Strings(got)
		if strings.Join(want, "\n") != strings.Join(got, "\n") {
			for i := range want {
				if i >= len(got) || want[i] != got[i] {
					fail(fmt.Sprintf("%s.html: the (strategy, outcome) rows differ from a direct evaluation of the tool's strategy list inside the look-back window; first difference: page has %q, direct evaluation gives %q", name, got[min(i, len(got)-1)], want[i]))
					return
				}
			}
		}
		cc.Count("cli_pairs_checked", int64(len(want)))
	}
	b, err := os.ReadFile(filepath.Join(outDir, "index.html"))
	if err != nil {
		fail("no index.html: " + err.Error())
		return
	}
	if rows := indexRowRe.FindAllStringSubmatch(string(b), -1); len(rows) != len(names) {
		fail(fmt.Sprintf("index.html has %d rows for %d assets", len(rows), len(names)))
		return
	}
	cc.Distinct("cli/" + cc.Label)
}
