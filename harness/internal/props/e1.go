package props

import (
	"fmt"
	"math"

	"verif/harness/internal/gen"
	"verif/harness/internal/mon"
	"verif/harness/internal/reg"
)

// indInputs builds the input streams of an indicator from OHLCV bars
// according to its In signature.
func indInputs(ind *reg.Indicator, bars []gen.Bar, numeric []float64) [][]float64 {
	in := make([][]float64, len(ind.In))
	for k := range in {
		switch f := ind.In[k]; f {
		case 'p':
			if numeric != nil {
				in[k] = numeric
			} else {
				in[k] = gen.Field(bars, 'c')
			}
		case 't':
			xs := make([]float64, len(bars))
			for i := range xs {
				xs[i] = float64(i + 1)
			}
			in[k] = xs
		default:
			in[k] = gen.Field(bars, f)
		}
	}
	return in
}

// runInd runs one Compute call with unbuffered inputs and eager readers.
func runInd(inst reg.Inst, inputs [][]float64) [][]float64 {
	return mon.RunSimple(inputs, inst.Compute)
}

// scaleAt returns the natural scale P^dp * V^dv of an output at input
// position pos: P, V = largest price / volume magnitude seen up to pos (for
// negative degrees the smallest non-zero magnitude).
type scaler struct {
	pMax, pMin, vMax, vMin []float64
}

func newScaler(ind *reg.Indicator, inputs [][]float64) *scaler {
	n := 0
	for _, s := range inputs {
		if len(s) > n {
			n = len(s)
		}
	}
	sc := &scaler{make([]float64, n), make([]float64, n), make([]float64, n), make([]float64, n)}
	pm, pn, vm, vn := 0.0, math.Inf(1), 0.0, math.Inf(1)
	for i := 0; i < n; i++ {
		for k, s := range inputs {
			if i >= len(s) {
				continue
			}
			a := math.Abs(s[i])
			switch ind.In[k] {
			case 'v':
				vm = math.Max(vm, a)
				if a > 0 {
					vn = math.Min(vn, a)
				}
			case 't':
			default:
				pm = math.Max(pm, a)
				if a > 0 {
					pn = math.Min(pn, a)
				}
			}
		}
		sc.pMax[i], sc.pMin[i], sc.vMax[i], sc.vMin[i] = pm, pn, vm, vn
	}
	return sc
}

func (s *scaler) at(pos int, d reg.Degree) float64 {
	if pos >= len(s.pMax) {
		pos = len(s.pMax) - 1
	}
	if pos < 0 {
		return 1
	}
	pw := func(mx, mn float64, d int) float64 {
		switch {
		case d > 0:
			return math.Pow(mx, float64(d))
		case d < 0:
			if math.IsInf(mn, 1) || mn == 0 {
				return 1
			}
			return math.Pow(mn, float64(d))
		}
		return 1
	}
	v := pw(s.pMax[pos], s.pMin[pos], d.P) * pw(s.vMax[pos], s.vMin[pos], d.V)
	if v == 0 || math.IsNaN(v) || math.IsInf(v, 0) {
		return 1
	}
	return v
}

const relTol = 1e-9

type mismatch struct {
	Output   int     `json:"output"`
	K        int     `json:"k"`
	Actual   float64 `json:"-"`
	Expected float64 `json:"-"`
	ActualS  string  `json:"actual"`
	ExpectS  string  `json:"expected"`
	Tol      float64 `json:"tolerance"`
}

type cmpResult struct {
	Compared, Exempt int
	MaxRel           float64
	Bad              *mismatch
	NBad             int
	// BadFinite counts mismatching positions whose actual value is finite;
	// FirstBadK / FirstIllK are the smallest output index with a mismatch /
	// with an ill-conditioned reference value (-1 if none).
	BadFinite            int
	FirstBadK, FirstIllK int
}

// poisoned reports the "non-finite for good" signature: every mismatching
// value is NaN/Inf and the first of them does not precede the first position
// at which the formula itself is ill-conditioned.
func (r cmpResult) poisoned() bool {
	return r.NBad > 0 && r.BadFinite == 0 && r.FirstIllK >= 0 && r.FirstBadK >= r.FirstIllK
}

// compareRef compares actual outputs with a reference over the overlap of
// positions (lengths are C02's business).
func compareRef(ind *reg.Indicator, w int, inputs [][]float64, actual [][]float64, ref [][]reg.RV) cmpResult {
	res := cmpResult{FirstBadK: -1, FirstIllK: -1}
	sc := newScaler(ind, inputs)
	for j := range ref {
		if j >= len(actual) {
			break
		}
		deg := reg.Degree{}
		if j < len(ind.Deg) {
			deg = ind.Deg[j]
		}
		n := len(ref[j])
		if len(actual[j]) < n {
			n = len(actual[j])
		}
		for k := 0; k < n; k++ {
			rv := ref[j][k]
			if rv.Ill || math.IsNaN(rv.V) || math.IsInf(rv.V, 0) {
				res.Exempt++
				if res.FirstIllK < 0 || k < res.FirstIllK {
					res.FirstIllK = k
				}
				continue
			}
			a := actual[j][k]
			scale := math.Max(math.Abs(rv.V), math.Max(sc.at(k+w, deg), rv.S))
			tol := relTol * scale
			res.Compared++
			diff := math.Abs(a - rv.V)
			if !(diff <= tol) { // also catches NaN
				res.NBad++
				if !math.IsNaN(a) && !math.IsInf(a, 0) {
					res.BadFinite++
				}
				if res.FirstBadK < 0 || k < res.FirstBadK {
					res.FirstBadK = k
				}
				if res.Bad == nil {
					res.Bad = &mismatch{Output: j, K: k, Actual: a, Expected: rv.V, Tol: tol,
						ActualS: fmt.Sprintf("%.17g", a), ExpectS: fmt.Sprintf("%.17g", rv.V)}
				}
				continue
			}
			if rel := diff / scale; rel > res.MaxRel {
				res.MaxRel = rel
			}
		}
	}
	return res
}

// clip shortens series for JSON details.
func clip(in [][]float64, n int) [][]float64 {
	out := make([][]float64, len(in))
	for i, s := range in {
		if len(s) > n {
			s = s[:n]
		}
		out[i] = s
	}
	return out
}

// jsonSafe replaces non-finite floats (which encoding/json rejects).
func jsonSafe(in [][]float64) [][]any {
	out := make([][]any, len(in))
	for i, s := range in {
		out[i] = make([]any, len(s))
		for k, v := range s {
			if math.IsNaN(v) || math.IsInf(v, 0) {
				out[i][k] = fmt.Sprint(v)
			} else {
				out[i][k] = v
			}
		}
	}
	return out
}
