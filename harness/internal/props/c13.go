package props

import (
	"fmt"
	"io"
	"log/slog"
	"math"
	"os"
	"path/filepath"
	"regexp"
	"sort"
	"strconv"
	"strings"
	"sync"
	"time"

	"github.com/cinar/indicator/v2/asset"
	"github.com/cinar/indicator/v2/backtest"
	"github.com/cinar/indicator/v2/helper"
	"github.com/cinar/indicator/v2/strategy"

	"verif/harness/internal/gen"
	"verif/harness/internal/run"
)

func init() {
	All["C13"] = func(ctx *run.Ctx) { c13(ctx, false) }
	All["C13R"] = func(ctx *run.Ctx) { c13(ctx, true) }
}

var quietLogger = slog.New(slog.NewTextHandler(io.Discard, nil))

// ---- recording report: the protocol trace monitor ----

type btEvent struct {
	Seq   int
	Kind  string // begin, assetBegin, write, assetEnd, end
	Asset string
	Strat string
}

type btWrite struct {
	Snapshots int
	Actions   []strategy.Action
	Outcomes  []float64
	Count     int
}

type recReport struct {
	mu     sync.Mutex
	events []btEvent
	writes map[string]*btWrite // asset|strategy
}

func newRecReport() *recReport { return &recReport{writes: map[string]*btWrite{}} }

func (r *recReport) ev(kind, a, s string) {
	r.mu.Lock()
	r.events = append(r.events, btEvent{Seq: len(r.events), Kind: kind, Asset: a, Strat: s})
	r.mu.Unlock()
}

func (r *recReport) Begin(_ []string, _ []strategy.Strategy) error { r.ev("begin", "", ""); return nil }
func (r *recReport) AssetBegin(name string, _ []strategy.Strategy) error {
	r.ev("assetBegin", name, "")
	return nil
}
func (r *recReport) Write(name string, s strategy.Strategy, snaps <-chan *asset.Snapshot, actions <-chan strategy.Action, outcomes <-chan float64) error {
	var wg sync.WaitGroup
	w := &btWrite{}
	wg.Add(3)
	go func() { defer wg.Done(); w.Snapshots = len(helper.ChanToSlice(snaps)) }()
	go func() { defer wg.Done(); w.Actions = helper.ChanToSlice(actions) }()
	go func() { defer wg.Done(); w.Outcomes = helper.ChanToSlice(outcomes) }()
	wg.Wait()
	r.mu.Lock()
	key := name + "|" + s.Name()
	if old := r.writes[key]; old != nil {
		old.Count++
	} else {
		w.Count = 1
		r.writes[key] = w
	}
	r.events = append(r.events, btEvent{Seq: len(r.events), Kind: "write", Asset: name, Strat: s.Name()})
	r.mu.Unlock()
	return nil
}
func (r *recReport) AssetEnd(name string) error { r.ev("assetEnd", name, ""); return nil }
func (r *recReport) End() error                 { r.ev("end", "", ""); return nil }

// checkProtocol is the trace checker for the notification order.
func checkProtocol(events []btEvent, assets []string, nStrats int) string {
	if len(events) == 0 || events[0].Kind != "begin" {
		return "the first notification is not Begin"
	}
	if events[len(events)-1].Kind != "end" {
		return "the last notification is not End"
	}
	state := map[string]int{} // 0 = not begun, 1 = begun, 2 = ended
	writes := map[string]int{}
	for i, e := range events {
		switch e.Kind {
		case "begin":
			if i != 0 {
				return fmt.Sprintf("Begin notified again at event %d", i)
			}
		case "end":
			if i != len(events)-1 {
				return fmt.Sprintf("End notified at event %d of %d, before the last notification", i, len(events))
			}
		case "assetBegin":
			if state[e.Asset] != 0 {
				return fmt.Sprintf("AssetBegin(%s) notified twice", e.Asset)
			}
			state[e.Asset] = 1
		case "write":
			if state[e.Asset] != 1 {
				return fmt.Sprintf("Write(%s, %s) outside AssetBegin..AssetEnd of that asset", e.Asset, e.Strat)
			}
			writes[e.Asset]++
		case "assetEnd":
			if state[e.Asset] != 1 {
				return fmt.Sprintf("AssetEnd(%s) without a matching AssetBegin", e.Asset)
			}
			if writes[e.Asset] != nStrats {
				return fmt.Sprintf("AssetEnd(%s) after %d Write notifications, %d strategies", e.Asset, writes[e.Asset], nStrats)
			}
			state[e.Asset] = 2
		}
	}
	for _, a := range assets {
		if state[a] != 2 {
			return fmt.Sprintf("asset %s was not reported completely (state %d) before End", a, state[a])
		}
	}
	return ""
}

// ---- scenario ----

type btScenario struct {
	Assets     []string       `json:"assets"`
	InWindow   map[string]int `json:"snapshots_inside_window"`
	Old        map[string]int `json:"snapshots_before_window"`
	Missing    []string       `json:"requested_but_absent"`
	Strategies []string       `json:"strategies"`
	LastDays   int            `json:"last_days"`
	Repo       string         `json:"repository"`
	OldLast    bool           `json:"older_history_appended_after_recent"` // stored order is not chronological
	FromRepo   bool           `json:"names_taken_from_repository"`         // Names left empty: Backtest asks the repository
	Workers    int            `json:"workers"`
	Unwritable string         `json:"strategy_whose_report_file_cannot_be_written,omitempty"` // its name contains a path separator
}

type btWorld struct {
	sc      btScenario
	snaps   map[string][]*asset.Snapshot // all stored snapshots
	inside  map[string][]*asset.Snapshot // those inside the look-back window
	mkStrat []func() strategy.Strategy
}

func buildWorld(cc *run.Case, pool []namedStrat, nAssets, nStrats int, repoKind string, forced ...namedStrat) *btWorld {
	r := cc.R
	w := &btWorld{snaps: map[string][]*asset.Snapshot{}, inside: map[string][]*asset.Snapshot{}}
	sc := btScenario{InWindow: map[string]int{}, Old: map[string]int{}, LastDays: r.Pick(365, 120, 60), Repo: repoKind}
	today := time.Now().UTC().Truncate(24 * time.Hour)
	for i := 0; i < nAssets; i++ {
		name := fmt.Sprintf("asset%02d%s", i, []string{"", ".b", "s", ".csv", "-c"}[i%5]) // dots and suffix letters in names
		sc.Assets = append(sc.Assets, name)
		nIn := r.Range(0, sc.LastDays-6)
		if r.Intn(4) > 0 {
			nIn = r.Range(min(40, sc.LastDays-6), sc.LastDays-6)
		}
		nOld := r.Pick(0, 0, 3, 40)
		if i > 0 && r.Intn(6) == 0 {
			// a stale asset: nothing (or nothing recent) is known about it, every
			// strategy is evaluated on an empty window and still reported once
			nIn = 0
			if repoKind == "sql" {
				nOld = r.Pick(3, 40) // its rows are all older than the window
			}
		}
		if repoKind == "sql" && nIn == 0 && nOld == 0 {
			nIn = 1 // a SQL repository cannot hold an asset without rows: it would be an absent asset
		}
		sc.InWindow[name], sc.Old[name] = nIn, nOld
		bars := gen.Bars(r, []string{gen.Walk, gen.Walk2, gen.Ties}[r.Intn(3)], nIn+nOld)
		if r.Intn(4) == 0 && len(bars) > 0 {
			// a very quiet asset: every strategy ends within a few millionths of a
			// percent of the others, yet the rankings must order them exactly
			p0 := bars[0].C
			q := func(p float64) float64 { return 100 + (p-p0)*1e-7 }
			for i := range bars {
				bars[i].O, bars[i].H, bars[i].L, bars[i].C = q(bars[i].O), q(bars[i].H), q(bars[i].L), q(bars[i].C)
			}
		}
		// dates: old ones at least 2 days before the window edge, inside ones at
		// least 2 days inside it and ending 2 days ago: the wall clock never
		// decides which side a snapshot falls on.
		for k, b := range bars {
			var d time.Time
			if k < nOld {
				d = today.AddDate(0, 0, -(sc.LastDays + 3 + (nOld - k)))
			} else {
				d = today.AddDate(0, 0, -(2 + (nIn + nOld - 1 - k)))
				if age := 2 + (nIn + nOld - 1 - k); age > sc.LastDays-3 {
					continue
				}
			}
			s := &asset.Snapshot{Date: d, Open: b.O, High: b.H, Low: b.L, Close: b.C, Volume: b.V}
			w.snaps[name] = append(w.snaps[name], s)
			if k >= nOld {
				w.inside[name] = append(w.inside[name], s)
			}
		}
	}
	sc.OldLast = r.Intn(3) == 0
	sc.FromRepo = r.Intn(3) == 0
	if !sc.FromRepo && r.Intn(3) == 0 {
		// several absent assets, so that more than one worker takes the failure path at the same time
		for k := r.Range(1, 5); k > 0; k-- {
			sc.Missing = append(sc.Missing, fmt.Sprintf("absent-asset-%d", k))
		}
	}
	seen := map[string]bool{}
	// members every scenario is given in turn, so that the whole pool (every
	// strategy, as constructed and re-tuned through its fields) is backtested
	// whatever the draws below pick
	for _, ns := range forced {
		nm := ns.New().Name()
		if !seen[nm] {
			seen[nm] = true
			w.mkStrat = append(w.mkStrat, ns.New)
			sc.Strategies = append(sc.Strategies, nm)
		}
	}
	nStrats += len(w.mkStrat)
	for len(w.mkStrat) < nStrats {
		ns := pool[r.Intn(len(pool))]
		nm := ns.New().Name()
		if seen[nm] {
			continue
		}
		seen[nm] = true
		w.mkStrat = append(w.mkStrat, ns.New)
		sc.Strategies = append(sc.Strategies, nm)
	}
	if r.Intn(3) == 0 {
		// a user-named group whose name contains a path separator: its individual
		// report file cannot be written (no such directory). Wherever the pair is
		// presented all the same, it must carry the right figures.
		sc.Unwritable = "benchmarks/buy and hold"
		w.mkStrat = append(w.mkStrat, func() strategy.Strategy {
			return strategy.NewOrStrategy("benchmarks/buy and hold", strategy.NewBuyAndHoldStrategy())
		})
		sc.Strategies = append(sc.Strategies, sc.Unwritable)
	}
	w.sc = sc
	return w
}

func (w *btWorld) repo() (asset.Repository, func(), error) {
	repo, cleanup, err := newRepo(w.sc.Repo)
	if err != nil {
		return nil, nil, err
	}
	for name, snaps := range w.snaps {
		batches := [][]*asset.Snapshot{snaps}
		if w.sc.OldLast {
			// a back-fill: the recent snapshots were stored first, the older history later
			nOld := len(snaps) - len(w.inside[name])
			batches = [][]*asset.Snapshot{snaps[nOld:], snaps[:nOld]}
		}
		for _, b := range batches {
			if err := repo.Append(name, helper.SliceToChan(b)); err != nil {
				cleanup()
				return nil, nil, err
			}
		}
	}
	for _, name := range w.sc.Assets {
		if len(w.snaps[name]) == 0 {
			repo.Append(name, helper.SliceToChan([]*asset.Snapshot(nil)))
		}
	}
	return repo, cleanup, nil
}

type directResult struct {
	Actions  []strategy.Action
	Outcomes []float64
}

func (w *btWorld) direct(asset string, si int) directResult {
	a, o := strategy.ComputeWithOutcome(w.mkStrat[si](), helper.SliceToChan(w.inside[asset]))
	res := make(chan []strategy.Action, 1)
	go func() { res <- helper.ChanToSlice(a) }()
	outs := helper.ChanToSlice(o)
	return directResult{<-res, outs}
}

func firstOr(xs []string) string {
	if len(xs) == 0 {
		return ""
	}
	return xs[0]
}

func lastOr[T any](xs []T, zero T) T {
	if len(xs) == 0 {
		return zero
	}
	return xs[len(xs)-1]
}

var (
	assetRowRe = regexp.MustCompile(`(?s)<tr>\s*<td><a href="[^"]*">([^<]*)</a></td>(.*?)</tr>`)
	indexRowRe = regexp.MustCompile(`(?s)<tr>\s*<td><a href="[^"]*">([^<]*)</a></td>\s*<td>([^<]*)</td>(.*?)</tr>`)
	cellRe     = regexp.MustCompile(`(?s)<td>(.*?)</td>`)
	tagRe      = regexp.MustCompile(`(?s)<[^>]*>`)
	pctRe      = regexp.MustCompile(`(-?[0-9.]+(?:e[+-]?[0-9]+)?|NaN|[+-]Inf)%`)
)

// c13Run executes one backtest with the recording report, DataReport and
// HTMLReport and applies all oracles. Returns a canonical result string for
// the worker-independence comparison.
func c13Run(cc *run.Case, w *btWorld, workers int, raceOnly bool) (string, bool) {
	sc := w.sc
	sc.Workers = workers
	cc.Desc(sc)
	fail := func(msg string) (string, bool) {
		cc.Viol("", fmt.Sprintf("Backtest (workers=%d, repository=%s): %s", workers, sc.Repo, msg), sc)
		return "", false
	}
	names := append(append([]string(nil), sc.Missing...), sc.Assets...)
	for i := range sc.Missing { // spread the absent names over the list
		j := (i * 7) % len(names)
		names[i], names[j] = names[j], names[i]
	}
	mkStrats := func() []strategy.Strategy {
		out := make([]strategy.Strategy, len(w.mkStrat))
		for i, f := range w.mkStrat {
			out[i] = f()
		}
		return out
	}
	newBT := func(repo asset.Repository, rep backtest.Report) *backtest.Backtest {
		bt := backtest.NewBacktest(repo, rep)
		bt.Names, bt.Strategies, bt.Workers, bt.LastDays, bt.Logger = names, mkStrats(), workers, sc.LastDays, quietLogger
		if sc.FromRepo {
			bt.Names = nil // Backtest takes the asset names from repository.Assets()
		}
		return bt
	}
	repo, cleanup, err := w.repo()
	if err != nil {
		cc.Inconclusive("cannot build repository: " + err.Error())
		return "", false
	}
	defer cleanup()

	// --- recording report: protocol, exactly-once, content ---
	rec := newRecReport()
	if err := newBT(repo, rec).Run(); err != nil {
		return fail("Run returned an error: " + err.Error())
	}
	cc.Count("backtest_runs", 1)
	if msg := checkProtocol(rec.events, sc.Assets, len(w.mkStrat)); msg != "" {
		return fail("notification protocol: " + msg)
	}
	var canon []string
	for _, a := range sc.Assets {
		for si, sn := range sc.Strategies {
			wr := rec.writes[a+"|"+sn]
			if wr == nil {
				return fail(fmt.Sprintf("no result was written for (%s, %s)", a, sn))
			}
			if wr.Count != 1 {
				return fail(fmt.Sprintf("%d results were written for (%s, %s)", wr.Count, a, sn))
			}
			if raceOnly {
				continue
			}
			d := w.direct(a, si)
			if wr.Snapshots != len(w.inside[a]) {
				return fail(fmt.Sprintf("(%s, %s): the report received %d snapshots, %d lie inside the look-back window", a, sn, wr.Snapshots, len(w.inside[a])))
			}
			if !eqActions(wr.Actions, d.Actions) || !bitsEq(wr.Outcomes, d.Outcomes) {
				return fail(fmt.Sprintf("(%s, %s): actions/outcomes delivered to the report differ from evaluating the strategy directly on the asset's snapshots inside the window (%d/%d actions, %d/%d outcomes)", a, sn, len(wr.Actions), len(d.Actions), len(wr.Outcomes), len(d.Outcomes)))
			}
			canon = append(canon, fmt.Sprintf("%s|%s|%d|%x", a, sn, lastOr(d.Actions, 0), math.Float64bits(lastOr(d.Outcomes, 0))))
		}
	}
	if len(rec.writes) != len(sc.Assets)*len(sc.Strategies) {
		return fail(fmt.Sprintf("%d distinct (asset, strategy) results written, cartesian product has %d", len(rec.writes), len(sc.Assets)*len(sc.Strategies)))
	}
	cc.Count("pairs_checked", int64(len(sc.Assets)*len(sc.Strategies)))

	// --- bundled DataReport ---
	// In a third of the scenarios both bundled reports have already served one
	// complete run when the run that is judged starts: a report presents the
	// results of its last run, not of every run it has ever seen.
	reused := cc.R.Intn(3) == 0
	data := backtest.NewDataReport()
	if reused {
		if err := newBT(repo, data).Run(); err != nil {
			return fail("Run with DataReport returned an error: " + err.Error())
		}
		cc.Count("runs_through_a_used_report", 1)
	}
	if err := newBT(repo, data).Run(); err != nil {
		return fail("Run with DataReport returned an error: " + err.Error())
	}
	for _, a := range sc.Assets {
		res := data.Results[a]
		if len(res) != len(sc.Strategies) {
			return fail(fmt.Sprintf("DataReport holds %d results for %s, %d strategies", len(res), a, len(sc.Strategies)))
		}
		if raceOnly {
			continue
		}
		seen := map[string]bool{}
		for _, rr := range res {
			sn := rr.Strategy.Name()
			if seen[sn] {
				return fail(fmt.Sprintf("DataReport holds two results for (%s, %s)", a, sn))
			}
			seen[sn] = true
			si := indexOf(sc.Strategies, sn)
			if si < 0 {
				return fail(fmt.Sprintf("DataReport holds a result for an unknown strategy %q", sn))
			}
			d := w.direct(a, si)
			if rr.Asset != a || rr.Action != lastOr(d.Actions, 0) || math.Float64bits(rr.Outcome) != math.Float64bits(lastOr(d.Outcomes, 0)) || !eqActions(rr.Transactions, d.Actions) {
				return fail(fmt.Sprintf("DataReport result for (%s, %s): outcome %v action %d, direct evaluation gives outcome %v action %d", a, sn, rr.Outcome, rr.Action, lastOr(d.Outcomes, 0), lastOr(d.Actions, 0)))
			}
		}
	}
	cc.Count("data_reports", 1)

	// --- bundled HTMLReport ---
	dir, err := os.MkdirTemp("", "verif-c13-")
	if err != nil {
		cc.Inconclusive(err.Error())
		return "", false
	}
	defer os.RemoveAll(dir)
	html := backtest.NewHTMLReport(dir)
	html.Logger = quietLogger
	html.WriteStrategyReports = cc.R.Intn(3) == 0
	customDates := html.WriteStrategyReports && cc.R.Bool()
	if customDates {
		html.DateFormat = "2006-01-02 15h04" // the strategy reports must label their rows in THIS format
	}
	// What a backtest is told (a date format for ITS pages) is no business of
	// anything else: a strategy report rendered by the caller looks the same
	// before and after the run.
	var probe []*asset.Snapshot
	for _, a := range sc.Assets {
		if len(w.inside[a]) > len(probe) {
			probe = w.inside[a]
		}
	}
	var rowsBefore []string
	if !raceOnly && len(probe) > 0 {
		rowsBefore, _ = renderRows(strategy.NewBuyAndHoldStrategy(), probe)
	}
	if reused {
		if err := newBT(repo, html).Run(); err != nil {
			return fail("Run with HTMLReport returned an error: " + err.Error())
		}
		cc.Count("runs_through_a_used_report", 1)
	}
	if err := newBT(repo, html).Run(); err != nil {
		return fail("Run with HTMLReport returned an error: " + err.Error())
	}
	if rowsBefore != nil {
		rowsAfter, _ := renderRows(strategy.NewBuyAndHoldStrategy(), probe)
		if !eqStrings(rowsBefore, rowsAfter) {
			return fail(fmt.Sprintf("a strategy report rendered by the caller after the run differs from the same report rendered before it (HTMLReport.DateFormat was %q): first row %q, before the run %q", html.DateFormat, firstOr(rowsAfter), firstOr(rowsBefore)))
		}
		cc.Count("caller_reports_compared_across_a_run", 1)
	}
	if !raceOnly && customDates {
		// one strategy report of an asset with snapshots: its date labels carry the hour
		for _, a := range sc.Assets {
			if len(w.inside[a]) == 0 {
				continue
			}
			for _, sn := range sc.Strategies {
				if sn == sc.Unwritable {
					continue
				}
				b, err := os.ReadFile(filepath.Join(dir, fmt.Sprintf("%s - %s.html", a, sn)))
				if err != nil {
					return fail(fmt.Sprintf("no strategy report for (%s, %s): %v", a, sn, err))
				}
				if !strings.Contains(string(b), "data.addRow(") {
					continue // a report without rows (fewer snapshots than the warm-up) has no labels
				}
				if !strings.Contains(string(b), "00h00") {
					return fail(fmt.Sprintf("the strategy report of (%s, %s) does not label its rows in the report's DateFormat %q (no %q in the page)", a, sn, html.DateFormat, "00h00"))
				}
				cc.Count("strategy_report_date_formats_checked", 1)
				break
			}
			break
		}
	}
	if !raceOnly {
		best := map[string]float64{}
		for _, a := range sc.Assets {
			b, err := os.ReadFile(filepath.Join(dir, a+".html"))
			if err != nil {
				return fail(fmt.Sprintf("HTMLReport wrote no report for asset %s: %v", a, err))
			}
			rows := assetRowRe.FindAllStringSubmatch(string(b), -1)
			// the pair whose strategy report could not be written may be missing
			// from the page (the failure is logged); every other pair must be there
			skipped := ""
			if html.WriteStrategyReports && sc.Unwritable != "" && len(rows) == len(sc.Strategies)-1 {
				skipped = sc.Unwritable
				for _, row := range rows {
					if row[1] == skipped {
						skipped = ""
					}
				}
			}
			if len(rows) != len(sc.Strategies) && skipped == "" {
				return fail(fmt.Sprintf("%s.html has %d result rows, %d strategies", a, len(rows), len(sc.Strategies)))
			}
			seen := map[string]bool{}
			prev := math.Inf(1)
			maxOut := math.Inf(-1)
			exp := make([]float64, len(sc.Strategies))
			for si := range sc.Strategies {
				exp[si] = lastOr(w.direct(a, si).Outcomes, 0) * 100
				if sc.Strategies[si] != skipped {
					maxOut = math.Max(maxOut, exp[si])
				}
			}
			for ri, row := range rows {
				sn := row[1]
				si := indexOf(sc.Strategies, sn)
				if si < 0 || seen[sn] {
					return fail(fmt.Sprintf("%s.html row %d names strategy %q (unknown or repeated)", a, ri, sn))
				}
				seen[sn] = true
				m := pctRe.FindStringSubmatch(row[2])
				if m == nil {
					return fail(fmt.Sprintf("%s.html row %d has no outcome cell", a, ri))
				}
				shown, _ := strconv.ParseFloat(m[1], 64)
				if want := fmt.Sprintf("%.2f", exp[si]); m[1] != want {
					return fail(fmt.Sprintf("%s.html shows outcome %s%% for %s, direct evaluation gives %s%%", a, m[1], sn, want))
				}
				_ = shown
				// the other cells of the row: last recommendation, how many periods it has
				// stood, number of recommended Buy/Sell actions - all by direct evaluation
				acts := w.direct(a, si).Actions
				if len(acts) > 0 {
					lastA := acts[len(acts)-1]
					since, tx := 0, 0
					for k := len(acts) - 1; k > 0 && acts[k-1] == lastA; k-- {
						since++
					}
					for _, x := range acts {
						if x != strategy.Hold {
							tx++
						}
					}
					cells := cellRe.FindAllStringSubmatch(row[2], -1)
					tag := map[strategy.Action]string{strategy.Buy: "Buy", strategy.Sell: "Sell", strategy.Hold: "Hold"}[lastA]
					if len(cells) != 4 {
						return fail(fmt.Sprintf("%s.html row %d (%s) has %d cells after the name, expected action, since, outcome, transactions", a, ri, sn, len(cells)))
					}
					if got := strings.TrimSpace(tagRe.ReplaceAllString(cells[0][1], "")); got != tag {
						return fail(fmt.Sprintf("%s.html shows the action %q for %s, the last action of a direct evaluation is %s", a, got, sn, tag))
					}
					if got := strings.TrimSpace(cells[1][1]); got != strconv.Itoa(since) {
						return fail(fmt.Sprintf("%s.html shows since = %s for %s, by direct evaluation the last recommendation (%s) has stood for %d period(s)", a, got, sn, tag, since))
					}
					if got := strings.TrimSpace(cells[3][1]); got != strconv.Itoa(tx) {
						return fail(fmt.Sprintf("%s.html shows %s transactions for %s, a direct evaluation recommends Buy or Sell %d time(s)", a, got, sn, tx))
					}
					cc.Count("html_cells_checked", 3)
				}
				// rankings list results in non-increasing outcome order
				if exp[si] > prev+1e-9*math.Max(1, math.Abs(prev)) {
					return fail(fmt.Sprintf("%s.html is not in non-increasing outcome order: row %d (%s, %.6f%%) comes after a row with %.6f%%", a, ri, sn, exp[si], prev))
				}
				prev = exp[si]
				if ri == 0 {
					best[a] = exp[si]
					if exp[si] < maxOut-1e-9*math.Max(1, math.Abs(maxOut)) {
						return fail(fmt.Sprintf("%s.html presents %s (%.6f%%) as best, the maximal outcome is %.6f%%", a, sn, exp[si], maxOut))
					}
				}
			}
		}
		b, err := os.ReadFile(filepath.Join(dir, "index.html"))
		if err != nil {
			return fail("HTMLReport wrote no index.html: " + err.Error())
		}
		rows := indexRowRe.FindAllStringSubmatch(string(b), -1)
		if len(rows) != len(sc.Assets) {
			return fail(fmt.Sprintf("index.html has %d rows, %d assets were reported", len(rows), len(sc.Assets)))
		}
		prev := math.Inf(1)
		seen := map[string]bool{}
		for ri, row := range rows {
			a := row[1]
			if _, ok := best[a]; !ok || seen[a] {
				return fail(fmt.Sprintf("index.html row %d names asset %q (unknown or repeated)", ri, a))
			}
			seen[a] = true
			if best[a] > prev+1e-9*math.Max(1, math.Abs(prev)) {
				return fail(fmt.Sprintf("index.html is not in non-increasing outcome order: row %d (%s, best %.6f%%) comes after %.6f%%", ri, a, best[a], prev))
			}
			prev = best[a]
		}
		cc.Count("html_reports", 1)
	}
	sort.Strings(canon)
	return strings.Join(canon, "\n"), true
}

func indexOf(xs []string, x string) int {
	for i, v := range xs {
		if v == x {
			return i
		}
	}
	return -1
}

func c13(ctx *run.Ctx, raceOnly bool) {
	base := baseStrats(ctx, 2)
	var pool []namedStrat
	for _, b := range base {
		if b.Warm <= 40 {
			pool = append(pool, b)
		}
	}
	comp := compoundStrats(ctx, pool, 4)
	for _, c := range comp {
		if !strings.HasPrefix(c.Name, "strategy.All") { // shared-instance compounds keep their generic names
			pool = append(pool, c)
		}
	}
	if !raceOnly {
		// end to end through cmd/indicator-backtest
		for i := 0; i < ctx.Pick(3, 24); i++ {
			ctx.Case(fmt.Sprintf("cli/%d", i), c13CLI)
		}
	}
	n := ctx.Pick(32, 600)
	if raceOnly {
		n = ctx.Pick(16, 100)
	}
	for i := 0; i < n; i++ {
		i := i
		repoKind := []string{"memory", "filesystem", "memory", "sql"}[i%4]
		ctx.Case(fmt.Sprintf("scenario/%s/%d", repoKind, i), func(cc *run.Case) {
			off := 0
			if raceOnly {
				off = len(pool) / 2 // the race phase starts its turn through the pool elsewhere
			}
			w := buildWorld(cc, pool, cc.R.Range(1, 12), cc.R.Range(1, 6), repoKind,
				pool[(off+3*i)%len(pool)], pool[(off+3*i+1)%len(pool)], pool[(off+3*i+2)%len(pool)])
			ws := []int{1, 2, 3, 8, 16}
			if raceOnly {
				ws = []int{4, 16}
			}
			base := ""
			for wi, workers := range ws {
				canon, ok := c13Run(cc, w, workers, raceOnly)
				if !ok {
					return
				}
				if wi == 0 {
					base = canon
				} else if canon != base && !raceOnly {
					cc.Viol("", fmt.Sprintf("Backtest: the set of results with %d workers differs from the set with %d worker(s)", workers, ws[0]), w.sc)
					return
				}
			}
			cc.Distinct(fmt.Sprintf("scenario/%d", i))
			if cc.WantSample() {
				cc.Sample(w.sc)
			}
		})
	}
}
