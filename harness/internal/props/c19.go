package props

import (
	"bufio"
	"bytes"
	"context"
	"encoding/csv"
	"encoding/json"
	"fmt"
	"io"
	"log/slog"
	"net/http"
	"os"
	"path/filepath"
	"reflect"
	"regexp"
	"strconv"
	"strings"
	"sync"
	"sync/atomic"
	"testing/iotest"
	"time"

	"github.com/cinar/indicator/v2/asset"
	"github.com/cinar/indicator/v2/helper"

	"verif/harness/internal/gen"
	"verif/harness/internal/mon"
	"verif/harness/internal/run"
)

func init() { All["C19"] = c19 }

// Row shapes with 1 to 8 fields.
type shape1 struct{ A string }
type shape2 struct {
	I int
	F float64
}
type shape3 struct {
	B bool
	U uint8
	S string
}
type shape6 struct {
	Date   time.Time `format:"2006-01-02"`
	Open   float64
	High   float64
	Low    float64
	Close  float64
	Volume float64
}
type shape8 struct {
	Id   int64
	Name string
	X    float32
	Ok   bool
	N    uint16
	When time.Time
	Tag  string `header:"tag name"`
	Z    int8
}

// refParseField mirrors what a field of the given kind accepts, written
// independently of the library (strconv / time.Parse per kind).
func refParseField(f reflect.Value, s, format string) bool {
	switch f.Kind() {
	case reflect.String:
		f.SetString(s)
	case reflect.Bool:
		v, err := strconv.ParseBool(s)
		if err != nil {
			return false
		}
		f.SetBool(v)
	case reflect.Int, reflect.Int8, reflect.Int16, reflect.Int32, reflect.Int64:
		v, err := strconv.ParseInt(s, 10, f.Type().Bits())
		if err != nil {
			return false
		}
		f.SetInt(v)
	case reflect.Uint, reflect.Uint8, reflect.Uint16, reflect.Uint32, reflect.Uint64:
		v, err := strconv.ParseUint(s, 10, f.Type().Bits())
		if err != nil {
			return false
		}
		f.SetUint(v)
	case reflect.Float32, reflect.Float64:
		v, err := strconv.ParseFloat(s, f.Type().Bits())
		if err != nil {
			return false
		}
		f.SetFloat(v)
	case reflect.Struct:
		v, err := time.Parse(format, s)
		if err != nil {
			return false
		}
		f.Set(reflect.ValueOf(v))
	default:
		return false
	}
	return true
}

// refCsv computes the records of the well-formed prefix of a CSV document
// for row type T.
func refCsv[T any](doc []byte, hasHeader bool) []*T {
	st := reflect.TypeOf((*T)(nil)).Elem()
	nf := st.NumField()
	colOf := make([]int, nf)
	formats := make([]string, nf)
	names := make([]string, nf)
	for i := 0; i < nf; i++ {
		colOf[i] = i
		names[i] = st.Field(i).Name
		if h, ok := st.Field(i).Tag.Lookup("header"); ok {
			names[i] = h
		}
		formats[i] = helper.DefaultDateTimeFormat
		if f, ok := st.Field(i).Tag.Lookup("format"); ok {
			formats[i] = f
		}
	}
	rd := csv.NewReader(bytes.NewReader(doc))
	if hasHeader {
		hdr, err := rd.Read()
		if err != nil {
			return nil
		}
		pos := map[string]int{}
		for i, h := range hdr {
			pos[h] = i
		}
		for i := range colOf {
			if p, ok := pos[names[i]]; ok {
				colOf[i] = p
			} else {
				colOf[i] = -1
			}
		}
	}
	var out []*T
	for {
		rec, err := rd.Read()
		if err != nil {
			return out
		}
		row := new(T)
		v := reflect.ValueOf(row).Elem()
		for i := 0; i < nf; i++ {
			if colOf[i] < 0 {
				continue
			}
			if colOf[i] >= len(rec) {
				return out // a record too short for the row type ends the well-formed prefix
			}
			if !refParseField(v.Field(i), rec[colOf[i]], formats[i]) {
				return out
			}
		}
		out = append(out, row)
	}
}

// eofGuard wraps a document: a reader that keeps polling its input long
// after the end of input without closing its stream is livelocked (a logical
// bound on progress, not a wall-clock one: a correct reader polls a few times
// at most). The panic kills the child; the parent attributes it to the case.
type eofGuard struct {
	r     io.Reader
	after int
}

func (g *eofGuard) Read(p []byte) (int, error) {
	n, err := g.r.Read(p)
	if err == io.EOF {
		g.after++
		if g.after > 10000 {
			panic("verif: the reader polled its input 10000 times after the end of input without closing its stream (livelock)")
		}
	}
	return n, err
}

// docReader hands a document to a reader under test as one of the reader
// types a caller may hold (chosen by the document, so that a case replays):
// the reader's behaviour must not depend on which one it is.
func docReader(doc []byte) io.Reader {
	switch gen.Hash64(string(doc)) % 6 {
	case 0:
		return bytes.NewBuffer(append([]byte(nil), doc...))
	case 1:
		return strings.NewReader(string(doc))
	case 2:
		return bufio.NewReader(&eofGuard{r: bytes.NewReader(doc)})
	case 3:
		return iotest.OneByteReader(&eofGuard{r: bytes.NewReader(doc)})
	}
	return &eofGuard{r: bytes.NewReader(doc)}
}

// countingHandler discards log records but bounds their number per document:
// a reader logs an error and stops, so thousands of error records for one
// document mean it is looping on the same malformed input (a logical progress
// bound; the panic kills the child and the parent attributes it to the case).
type countingHandler struct{ n *atomic.Int64 }

func (h countingHandler) Enabled(context.Context, slog.Level) bool { return true }
func (h countingHandler) Handle(context.Context, slog.Record) error {
	if h.n.Add(1) > 20000 {
		panic("verif: the reader logged 20000 errors for one document without closing its stream (livelock)")
	}
	return nil
}
func (h countingHandler) WithAttrs([]slog.Attr) slog.Handler { return h }
func (h countingHandler) WithGroup(string) slog.Handler      { return h }

var logCount atomic.Int64
var discardLogger = slog.New(countingHandler{&logCount})

// csvCase feeds one document to the reader and applies the oracles.
func csvCase[T any](cc *run.Case, census *mon.Census, typ string, doc []byte, hasHeader bool, viaFile string) bool {
	cc.Desc(map[string]any{"reader": "csv", "type": typ, "hasHeader": hasHeader, "doc": string(doc), "via_file": viaFile != ""})
	logCount.Store(0)
	census.Begin()
	c, err := helper.NewCsv[T](hasHeader)
	if err != nil {
		cc.Viol("", "NewCsv: "+err.Error(), nil)
		return false
	}
	c.Logger = discardLogger
	var rows <-chan *T
	if viaFile != "" {
		if err := os.WriteFile(viaFile, doc, 0o600); err != nil {
			cc.Inconclusive(err.Error())
			return false
		}
		rows, err = c.ReadFromFile(viaFile)
		if err != nil {
			cc.Viol("", "ReadFromFile of an existing regular file returned an error: "+err.Error(), nil)
			return false
		}
	} else {
		rows = c.ReadFromReader(docReader(doc))
	}
	got := helper.ChanToSlice(rows) // blocks for ever if the stream is never closed: runtime deadlock report
	cc.Count("csv_documents", 1)
	want := refCsv[T](doc, hasHeader)
	detail := map[string]any{"type": typ, "hasHeader": hasHeader, "doc": string(doc), "got_rows": len(got), "want_rows": len(want)}
	if len(got) != len(want) {
		cc.Viol("", fmt.Sprintf("CSV reader (%s, header=%v) delivered %d rows, the well-formed prefix of the document has %d records", typ, hasHeader, len(got), len(want)), detail)
		return false
	}
	for i := range got {
		if m := sameRow(want[i], got[i]); m != "" {
			cc.Viol("", fmt.Sprintf("CSV reader (%s, header=%v) row %d: %s", typ, hasHeader, i, m), detail)
			return false
		}
	}
	if lk := census.End(); lk != nil && !lk.Unsettled {
		detail["leak"] = lk
		cc.Viol("", fmt.Sprintf("CSV reader (%s) left %d goroutine(s) behind after its stream was closed: %s", typ, lk.Count, mon.LeakSite(lk.Stacks[0])), detail)
		return false
	}
	cc.Count("rows_delivered", int64(len(got)))
	if len(want) > 0 && len(doc) > 0 {
		cc.Distinct(fmt.Sprintf("csv/%s/%v/%x", typ, hasHeader, gen.Hash64(string(doc))))
	}
	return true
}

// failingReader delivers the first n bytes of a document and then an I/O
// error that is not a syntax error (a broken connection, a disk error).
type failingReader struct {
	doc []byte
	n   int
	off int
}

func (f *failingReader) Read(p []byte) (int, error) {
	if f.off >= f.n {
		return 0, fmt.Errorf("verif: injected read error after %d bytes", f.n)
	}
	k := copy(p, f.doc[f.off:f.n])
	f.off += k
	return k, nil
}

// csvFaultCase: the input fails with a read error after `cut` bytes. The
// reader must not panic, must close its stream, and whatever it delivered
// must be records of the document's well-formed prefix, in order.
func csvFaultCase[T any](cc *run.Case, census *mon.Census, typ string, doc []byte, cut int, hasHeader bool) bool {
	cc.Desc(map[string]any{"reader": "csv", "type": typ, "hasHeader": hasHeader, "doc": string(doc), "read_error_after": cut})
	logCount.Store(0)
	census.Begin()
	c, _ := helper.NewCsv[T](hasHeader)
	c.Logger = discardLogger
	got := helper.ChanToSlice(c.ReadFromReader(&failingReader{doc: doc, n: cut}))
	cc.Count("read_fault_cases", 1)
	want := refCsv[T](doc, hasHeader) // records of the whole document: the delivered ones must be a prefix
	if len(got) > len(want) {
		cc.Viol("", fmt.Sprintf("CSV reader (%s) delivered %d rows from an input that failed after %d bytes; the whole document has only %d well-formed records", typ, len(got), cut, len(want)), nil)
		return false
	}
	for i := range got {
		if m := sameRow(want[i], got[i]); m != "" {
			cc.Viol("", fmt.Sprintf("CSV reader (%s), input failing after %d bytes: row %d: %s", typ, cut, i, m), nil)
			return false
		}
	}
	if lk := census.End(); lk != nil && !lk.Unsettled {
		cc.Viol("", fmt.Sprintf("CSV reader (%s) left %d goroutine(s) behind after a read error: %s", typ, lk.Count, mon.LeakSite(lk.Stacks[0])), nil)
		return false
	}
	return true
}

// ---- document generators ----

func validDoc(r *gen.Rand, cols []string, gens []func(*gen.Rand) string, nrows int, header bool) []byte {
	var buf bytes.Buffer
	w := csv.NewWriter(&buf)
	if header {
		w.Write(cols)
	}
	for i := 0; i < nrows; i++ {
		rec := make([]string, len(gens))
		for k, g := range gens {
			rec[k] = g(r)
		}
		w.Write(rec)
	}
	w.Flush()
	return buf.Bytes()
}

func gInt(r *gen.Rand) string { return strconv.Itoa(r.Range(-99, 99)) }
func gFloat(r *gen.Rand) string {
	return strconv.FormatFloat(gen.Round2(r.FRange(-50, 500)), 'g', -1, 64)
}
func gBool(r *gen.Rand) string { return []string{"true", "false", "1", "0", "T"}[r.Intn(5)] }
func gU8(r *gen.Rand) string   { return strconv.Itoa(r.Range(0, 255)) }
func gStr(r *gen.Rand) string {
	return []string{"x", "a b", "q,r", `he said "no"`, "", "é", "line\nbreak"}[r.Intn(7)]
}
func gDate(r *gen.Rand) string {
	return time.Date(2020, 1, 1+r.Intn(300), 0, 0, 0, 0, time.UTC).Format("2006-01-02")
}
func gStamp(r *gen.Rand) string {
	return time.Date(2021, 3, 1+r.Intn(20), r.Intn(24), r.Intn(60), 0, 0, time.UTC).Format(helper.DefaultDateTimeFormat)
}
func gU16(r *gen.Rand) string { return strconv.Itoa(r.Range(0, 65535)) }
func gI8(r *gen.Rand) string  { return strconv.Itoa(r.Range(-128, 127)) }
func gF32(r *gen.Rand) string {
	return strconv.FormatFloat(float64(float32(r.FRange(-9, 9))), 'g', -1, 32)
}
func gInt64(r *gen.Rand) string { return strconv.FormatInt(int64(r.U64()>>1), 10) }

var dateShaped = regexp.MustCompile(`\b\d{4}-\d{2}-\d{2}\b`)

// corrupt applies one grammar-aware corruption to a valid document.
func corrupt(r *gen.Rand, doc []byte) []byte {
	s := string(doc)
	lines := strings.SplitAfter(s, "\n")
	pickLine := func() int {
		if len(lines) <= 1 {
			return 0
		}
		return r.Intn(len(lines))
	}
	switch r.Intn(15) {
	case 14: // a well-shaped date that is not in the calendar
		var at []int
		for i, l := range lines {
			if dateShaped.MatchString(l) {
				at = append(at, i)
			}
		}
		if len(at) > 0 {
			i := at[r.Intn(len(at))]
			loc := dateShaped.FindStringIndex(lines[i])
			bad := []string{"2023-02-30", "2023-13-01", "2021-04-31", "2020-00-10", "2021-02-29", "2022-06-00", "2022-11-31"}[r.Intn(7)]
			lines[i] = lines[i][:loc[0]] + bad + lines[i][loc[1]:]
		}
	case 0: // truncate anywhere
		return doc[:r.Intn(len(doc)+1)]
	case 1: // delete a field from a row
		i := pickLine()
		if k := strings.Index(lines[i], ","); k >= 0 {
			lines[i] = lines[i][k+1:]
		}
	case 2: // add a field to a row
		i := pickLine()
		lines[i] = "extra," + lines[i]
	case 3: // type error in some field
		i := pickLine()
		f := strings.Split(lines[i], ",")
		f[r.Intn(len(f))] = []string{"abc", "1.5.2", "--3", "NaN?", "2020-13-45", "0x1G", "999999999999999999999999", "300", "-1", "70000", "1e3"}[r.Intn(11)]
		lines[i] = strings.Join(f, ",")
		if !strings.HasSuffix(lines[i], "\n") {
			lines[i] += "\n"
		}
	case 4: // unbalanced quote
		i := pickLine()
		lines[i] = `"` + lines[i]
	case 5: // bare quote inside a field
		i := pickLine()
		lines[i] = strings.Replace(lines[i], ",", `,a"b`, 1)
	case 6: // bare carriage returns
		return []byte(strings.ReplaceAll(s, "\n", "\r"))
	case 7: // CRLF line ends (still valid CSV)
		return []byte(strings.ReplaceAll(s, "\n", "\r\n"))
	case 8: // empty lines
		i := pickLine()
		lines[i] = "\n\n" + lines[i]
	case 9: // byte order mark
		return append([]byte("\ufeff"), doc...)
	case 10: // random byte mutation
		b := append([]byte(nil), doc...)
		for k := r.Range(1, 4); k > 0 && len(b) > 0; k-- {
			b[r.Intn(len(b))] = byte(r.Intn(256))
		}
		return b
	case 11: // a row consisting of separators only
		i := pickLine()
		lines[i] = ",,,,,,,,\n" + lines[i]
	case 12: // no trailing newline
		return bytes.TrimRight(doc, "\n")
	default: // garbage appended
		return append(append([]byte(nil), doc...), []byte("\x00\x01garbage\"")...)
	}
	return []byte(strings.Join(lines, ""))
}

type csvShape struct {
	name  string
	cols  []string
	gens  []func(*gen.Rand) string
	run   func(cc *run.Case, census *mon.Census, doc []byte, header bool, file string) bool
	fault func(cc *run.Case, census *mon.Census, doc []byte, cut int, header bool) bool
}

func csvShapes() []csvShape {
	return []csvShape{
		{"shape1", []string{"A"}, []func(*gen.Rand) string{gStr},
			func(cc *run.Case, cs *mon.Census, d []byte, h bool, f string) bool {
				return csvCase[shape1](cc, cs, "shape1", d, h, f)
			},
			func(cc *run.Case, cs *mon.Census, d []byte, cut int, h bool) bool {
				return csvFaultCase[shape1](cc, cs, "shape1", d, cut, h)
			}},
		{"shape2", []string{"I", "F"}, []func(*gen.Rand) string{gInt, gFloat},
			func(cc *run.Case, cs *mon.Census, d []byte, h bool, f string) bool {
				return csvCase[shape2](cc, cs, "shape2", d, h, f)
			},
			func(cc *run.Case, cs *mon.Census, d []byte, cut int, h bool) bool {
				return csvFaultCase[shape2](cc, cs, "shape2", d, cut, h)
			}},
		{"shape3", []string{"B", "U", "S"}, []func(*gen.Rand) string{gBool, gU8, gStr},
			func(cc *run.Case, cs *mon.Census, d []byte, h bool, f string) bool {
				return csvCase[shape3](cc, cs, "shape3", d, h, f)
			},
			func(cc *run.Case, cs *mon.Census, d []byte, cut int, h bool) bool {
				return csvFaultCase[shape3](cc, cs, "shape3", d, cut, h)
			}},
		{"shape6", []string{"Date", "Open", "High", "Low", "Close", "Volume"}, []func(*gen.Rand) string{gDate, gFloat, gFloat, gFloat, gFloat, gFloat},
			func(cc *run.Case, cs *mon.Census, d []byte, h bool, f string) bool {
				return csvCase[shape6](cc, cs, "shape6", d, h, f)
			},
			func(cc *run.Case, cs *mon.Census, d []byte, cut int, h bool) bool {
				return csvFaultCase[shape6](cc, cs, "shape6", d, cut, h)
			}},
		{"shape8", []string{"Id", "Name", "X", "Ok", "N", "When", "tag name", "Z"}, []func(*gen.Rand) string{gInt64, gStr, gF32, gBool, gU16, gStamp, gStr, gI8},
			func(cc *run.Case, cs *mon.Census, d []byte, h bool, f string) bool {
				return csvCase[shape8](cc, cs, "shape8", d, h, f)
			},
			func(cc *run.Case, cs *mon.Census, d []byte, cut int, h bool) bool {
				return csvFaultCase[shape8](cc, cs, "shape8", d, cut, h)
			}},
	}
}

// ---- JSON stream reader ----

func refJSON[T any](doc []byte) []T {
	dec := json.NewDecoder(bytes.NewReader(doc))
	tok, err := dec.Token()
	if err != nil || tok != json.Delim('[') {
		return nil
	}
	var out []T
	for dec.More() {
		var v T
		if err := dec.Decode(&v); err != nil {
			return out
		}
		out = append(out, v)
	}
	return out
}

func jsonCase[T any](cc *run.Case, census *mon.Census, typ string, doc []byte, eq func(a, b T) bool) bool {
	cc.Desc(map[string]any{"reader": "json", "type": typ, "doc": string(doc)})
	logCount.Store(0)
	census.Begin()
	got := helper.ChanToSlice(helper.JSONToChanWithLogger[T](docReader(doc), discardLogger))
	cc.Count("json_documents", 1)
	want := refJSON[T](doc)
	detail := map[string]any{"type": typ, "doc": string(doc), "got": fmt.Sprint(got), "want": fmt.Sprint(want)}
	if len(got) != len(want) {
		cc.Viol("", fmt.Sprintf("JSON stream reader (%s) delivered %d values, the well-formed prefix has %d", typ, len(got), len(want)), detail)
		return false
	}
	for i := range got {
		if !eq(got[i], want[i]) {
			cc.Viol("", fmt.Sprintf("JSON stream reader (%s) value %d differs from the document's", typ, i), detail)
			return false
		}
	}
	if lk := census.End(); lk != nil && !lk.Unsettled {
		cc.Viol("", fmt.Sprintf("JSON stream reader left %d goroutine(s) behind: %s", lk.Count, mon.LeakSite(lk.Stacks[0])), detail)
		return false
	}
	if len(want) > 0 {
		cc.Distinct(fmt.Sprintf("json/%s/%x", typ, gen.Hash64(string(doc))))
	}
	return true
}

var jsonSeeds = []string{
	`[1, 2.5, -3e2, 0]`, `[]`, `[1,2,`, `[1 2]`, `{"a":1}`, `"str"`, `42`, `null`, ``, `[`, `]`, `[1,"x",3]`, `[[1],[2]]`, `[1,2,3]garbage`, `[1,2,3]]`,
	`[1,,2]`, `[1e400]`, `[NaN]`, `[true]`, ` [ 7 ] `, `[1.0, 2.00, 3]  [4]`, "[1,\n2,\n3\n]", `[{"x":1}]`, `[1,2,3`, "\ufeff[1]",
}

// ---- Tiingo over a fake transport (no network) ----

type recBody struct {
	io.Reader
	mu     *sync.Mutex
	closed *int
	ctx    context.Context
}

// Read behaves as a net/http response body does: once the context of its
// request is done, the body cannot be read any further.
func (b recBody) Read(p []byte) (int, error) {
	if b.ctx != nil {
		if err := b.ctx.Err(); err != nil {
			return 0, err
		}
	}
	return b.Reader.Read(p)
}

func (b recBody) Close() error {
	b.mu.Lock()
	*b.closed++
	b.mu.Unlock()
	return nil
}

// endlessReader delivers prefix and then garbage for ever: a response that
// never terminates. Whoever is still reading it 20000 reads after the prefix
// has been consumed is not going to stop (logical livelock monitor).
type endlessReader struct {
	prefix []byte
	off    int
	extra  int
}

func (e *endlessReader) Read(p []byte) (int, error) {
	if e.off < len(e.prefix) {
		n := copy(p, e.prefix[e.off:])
		e.off += n
		return n, nil
	}
	e.extra++
	if e.extra > 20000 {
		panic("livelock: a response body that is malformed after its first bytes and never ends is still being read after 20000 further reads")
	}
	for i := range p {
		p[i] = '#'
	}
	return len(p), nil
}

type fakeTransport struct {
	status  int
	body    []byte
	endless bool
	mu      sync.Mutex
	opened  int
	closed  int
}

func (t *fakeTransport) RoundTrip(req *http.Request) (*http.Response, error) {
	t.mu.Lock()
	t.opened++
	t.mu.Unlock()
	if t.endless {
		return &http.Response{
			StatusCode: t.status, Status: fmt.Sprintf("%d %s", t.status, http.StatusText(t.status)),
			Proto: "HTTP/1.1", ProtoMajor: 1, ProtoMinor: 1, Header: http.Header{"Content-Type": {"application/json"}},
			Body: recBody{Reader: &endlessReader{prefix: t.body}, mu: &t.mu, closed: &t.closed, ctx: req.Context()}, ContentLength: -1, Request: req,
		}, nil
	}
	return &http.Response{
		StatusCode: t.status, Status: fmt.Sprintf("%d %s", t.status, http.StatusText(t.status)),
		Proto: "HTTP/1.1", ProtoMajor: 1, ProtoMinor: 1, Header: http.Header{"Content-Type": {"application/json"}},
		Body: recBody{Reader: &eofGuard{r: bytes.NewReader(t.body)}, mu: &t.mu, closed: &t.closed, ctx: req.Context()}, ContentLength: int64(len(t.body)), Request: req,
	}, nil
}

func refTiingo(doc []byte) []asset.Snapshot {
	dec := json.NewDecoder(bytes.NewReader(doc))
	if _, err := dec.Token(); err != nil {
		return nil
	}
	var out []asset.Snapshot
	for dec.More() {
		var d asset.TiingoEndOfDay
		if err := dec.Decode(&d); err != nil {
			return out
		}
		out = append(out, *d.ToSnapshot())
	}
	return out
}

// c19Day is convertible to time.Time but is not time.Time.
type c19Day time.Time

// unsupportedRead reads doc with and without a header row into T and returns
// the number of rows delivered (whatever they hold).
func unsupportedRead[T any](doc string) int {
	n := 0
	for _, hdr := range []bool{true, false} {
		c, err := helper.NewCsv[T](hdr)
		if err != nil {
			continue
		}
		c.Logger = discardLogger
		n += len(helper.ChanToSlice(c.ReadFromReader(strings.NewReader(doc))))
	}
	return n
}

// tiingoEndless: a response whose body starts like a document and then never
// ends. The repository must give up where the text stops being well formed (or,
// for an error status, without reading it at all), close the body and close the
// stream; it must not try to read the body to its end.
func tiingoEndless(cc *run.Case, census *mon.Census, status int) bool {
	prefix := tiingoDoc(cc.R, 2)
	prefix = prefix[:len(prefix)-1] // drop the closing bracket: the array goes on ... with garbage
	cc.Desc(map[string]any{"reader": "tiingo", "status": status, "body": string(prefix) + " followed by '#' for ever"})
	census.Begin()
	ft := &fakeTransport{status: status, body: prefix, endless: true}
	old := http.DefaultTransport
	http.DefaultTransport = ft
	defer func() { http.DefaultTransport = old }()
	repo := asset.NewTiingoRepository("key")
	repo.Logger = discardLogger
	repo.BaseURL = "http://tiingo.invalid"
	c, err := repo.GetSince("aapl", day0)
	if status != 200 {
		if err == nil {
			helper.Drain(c)
			cc.Viol("", fmt.Sprintf("Tiingo GetSince: HTTP status %d with an endless body surfaced as a successful stream", status), nil)
			return false
		}
	} else {
		if err != nil {
			cc.Viol("", "Tiingo GetSince: status 200 returned an error: "+err.Error(), nil)
			return false
		}
		got := helper.ChanToSlice(c)
		want := refTiingo(append(append([]byte(nil), prefix...), []byte("####")...))
		if len(got) != len(want) {
			cc.Viol("", fmt.Sprintf("Tiingo GetSince delivered %d snapshots from a body that is well formed for %d records and garbage after that", len(got), len(want)), nil)
			return false
		}
		cc.Count("rows_delivered", int64(len(got)))
	}
	if lk := census.End(); lk != nil && !lk.Unsettled {
		cc.Viol("", fmt.Sprintf("Tiingo GetSince on an endless body left %d goroutine(s) behind: %s", lk.Count, mon.LeakSite(lk.Stacks[0])), nil)
		return false
	}
	ft.mu.Lock()
	defer ft.mu.Unlock()
	if ft.closed < ft.opened {
		cc.Viol("", fmt.Sprintf("Tiingo GetSince (status %d): the endless response body was never closed", status), nil)
		return false
	}
	cc.Count("endless_bodies", 1)
	return true
}

var logCountSeq atomic.Int64

func tiingoCase(cc *run.Case, census *mon.Census, status int, body []byte) bool {
	cc.Desc(map[string]any{"reader": "tiingo", "status": status, "body": string(body)})
	logCount.Store(0)
	census.Begin()
	ft := &fakeTransport{status: status, body: body}
	old := http.DefaultTransport
	http.DefaultTransport = ft
	defer func() { http.DefaultTransport = old }()
	repo := asset.NewTiingoRepository("key")
	repo.Logger = discardLogger
	viaFactory := logCountSeq.Add(1)%3 == 0
	if viaFactory {
		// as the command line tools obtain it; its own (default) logger is kept
		fr, ferr := asset.NewRepository(asset.TiingoRepositoryBuilderName, "key")
		tr, ok := fr.(*asset.TiingoRepository)
		if ferr != nil || !ok {
			cc.Viol("", fmt.Sprintf("asset.NewRepository(%q) did not return a Tiingo repository: %T, %v", asset.TiingoRepositoryBuilderName, fr, ferr), nil)
			return false
		}
		repo = tr
	}
	repo.BaseURL = "http://tiingo.invalid"
	detail := map[string]any{"status": status, "body": string(body), "repository_from_factory": viaFactory}
	if _, aerr := repo.Assets(); aerr == nil {
		cc.Viol("", "Tiingo Assets() (unsupported) returned no error", detail)
		return false
	}
	if aerr := repo.Append("aapl", helper.SliceToChan([]*asset.Snapshot{})); aerr == nil {
		cc.Viol("", "Tiingo Append() (unsupported) returned no error", detail)
		return false
	}
	var c <-chan *asset.Snapshot
	var err error
	if logCountSeq.Load()%2 == 0 {
		c, err = repo.GetSince("aapl", day0)
	} else {
		c, err = repo.Get("aapl") // = GetSince(2000-01-01)
	}
	cc.Count("http_responses", 1)
	if status != 200 {
		if err == nil {
			helper.Drain(c)
			cc.Viol("", fmt.Sprintf("Tiingo GetSince: HTTP status %d surfaced as a successful (empty) stream instead of an error", status), detail)
			return false
		}
	} else {
		if err != nil {
			cc.Viol("", fmt.Sprintf("Tiingo GetSince: status 200 returned an error: %v", err), detail)
			return false
		}
		got := helper.ChanToSlice(c)
		want := refTiingo(body)
		if len(got) != len(want) {
			cc.Viol("", fmt.Sprintf("Tiingo GetSince delivered %d snapshots, the well-formed prefix of the body has %d", len(got), len(want)), detail)
			return false
		}
		for i := range got {
			if !sameSnap(got[i], want[i]) {
				cc.Viol("", fmt.Sprintf("Tiingo GetSince snapshot %d is %+v, the body says %+v", i, got[i], want[i]), detail)
				return false
			}
		}
		cc.Count("rows_delivered", int64(len(got)))
		if len(want) > 0 {
			cc.Distinct(fmt.Sprintf("tiingo/%x", gen.Hash64(string(body))))
		}
	}
	lk := census.End()
	ft.mu.Lock()
	opened, closed := ft.opened, ft.closed
	ft.mu.Unlock()
	if lk != nil && !lk.Unsettled {
		cc.Viol("", fmt.Sprintf("Tiingo GetSince left %d goroutine(s) behind: %s", lk.Count, mon.LeakSite(lk.Stacks[0])), detail)
		return false
	}
	if closed < opened {
		key := ""
		cc.Viol(key, fmt.Sprintf("Tiingo GetSince (status %d): the HTTP response body was never closed once the stream had ended (%d opened, %d closed): the connection leaks", status, opened, closed), detail)
		return false
	}
	// LastDate on the same kind of response
	ft2 := &fakeTransport{status: status, body: body}
	http.DefaultTransport = ft2
	_, err = repo.LastDate("aapl")
	if status != 200 && err == nil {
		cc.Viol("", fmt.Sprintf("Tiingo LastDate: HTTP status %d surfaced as success", status), detail)
		return false
	}
	if ft2.closed < ft2.opened {
		cc.Viol("", fmt.Sprintf("Tiingo LastDate (status %d): the HTTP response body was not closed", status), detail)
		return false
	}
	return true
}

func tiingoDoc(r *gen.Rand, n int) []byte {
	var rows []asset.TiingoEndOfDay
	for i := 0; i < n; i++ {
		p := gen.Round2(r.FRange(5, 500))
		rows = append(rows, asset.TiingoEndOfDay{Date: day0.AddDate(0, 0, i), Open: p, High: p + 1, Low: p - 1, Close: p + 0.5, Volume: int64(r.Range(0, 1e6)),
			AdjOpen: p, AdjHigh: p + 1, AdjLow: p - 1, AdjClose: p + 0.5, AdjVolume: int64(r.Range(0, 1e6)), Dividend: 0, Split: 1})
	}
	b, _ := json.Marshal(rows)
	if n >= 2 && r.Intn(3) == 0 {
		// a provider that leaves members out of some rows (they are zero then, not
		// the previous row's values) and sends a null for a missing day
		var generic []map[string]any
		json.Unmarshal(b, &generic)
		k := r.Range(1, n-1)
		for _, member := range []string{"close", "adjClose", "high", "volume", "open"} {
			if r.Bool() {
				delete(generic[k], member)
			}
		}
		var out []any
		for i, g := range generic {
			if i == k && r.Bool() {
				out = append(out, nil)
			}
			out = append(out, g)
		}
		b, _ = json.Marshal(out)
	}
	return b
}

func c19(ctx *run.Ctx) {
	census := mon.NewCensus()
	dir, err := os.MkdirTemp("", "verif-c19-")
	if err != nil {
		return
	}
	defer os.RemoveAll(dir)
	file := filepath.Join(dir, fmt.Sprintf("doc-%d.csv", ctx.Shard))
	nMut := ctx.Pick(400, 200000)
	for _, sh := range csvShapes() {
		sh := sh
		ctx.Count("cmp:csv/"+sh.name, 0)
		for _, header := range []bool{true, false} {
			header := header
			// every truncation offset of a small valid document
			ctx.Case(fmt.Sprintf("csv/%s/header=%v/truncations", sh.name, header), func(cc *run.Case) {
				doc := validDoc(cc.R, sh.cols, sh.gens, 3, header)
				for cut := 0; cut <= len(doc); cut++ {
					via := ""
					if cut%5 == 0 {
						via = file
					}
					if !sh.run(cc, census, doc[:cut], header, via) {
						return
					}
				}
				cc.Count("cmp:csv/"+sh.name, 1)
				cc.Count("truncation_offsets", int64(len(doc)+1))
				// the same document behind an input that fails with an I/O error at every offset
				for cut := 0; cut <= len(doc); cut++ {
					if !sh.fault(cc, census, doc, cut, header) {
						return
					}
				}
			})
			// grammar-aware corruptions and byte mutations
			for b := 0; b < nMut/40; b++ {
				ctx.Case(fmt.Sprintf("csv/%s/header=%v/mutations/%d", sh.name, header, b), func(cc *run.Case) {
					for i := 0; i < 40; i++ {
						doc := validDoc(cc.R, sh.cols, sh.gens, cc.R.Range(0, 5), header)
						for k := cc.R.Range(0, 2); k >= 0; k-- {
							doc = corrupt(cc.R, doc)
						}
						if !sh.run(cc, census, doc, header, "") {
							return
						}
					}
					if cc.WantSample() {
						doc := corrupt(cc.R, validDoc(cc.R, sh.cols, sh.gens, 2, header))
						cc.Sample(map[string]any{"reader": "csv", "shape": sh.name, "header": header, "document": string(doc)})
					}
				})
			}
			// header permutations and missing columns (valid for a header-bearing reader)
			if header {
				ctx.Case(fmt.Sprintf("csv/%s/header-variants", sh.name), func(cc *run.Case) {
					for i := 0; i < 30; i++ {
						perm := cc.R.Perm(len(sh.cols))
						keep := cc.R.Range(1, len(sh.cols))
						cols := make([]string, 0, keep)
						gens := make([]func(*gen.Rand) string, 0, keep)
						for _, p := range perm[:keep] {
							cols = append(cols, sh.cols[p])
							gens = append(gens, sh.gens[p])
						}
						if !sh.run(cc, census, validDoc(cc.R, cols, gens, cc.R.Range(0, 4), true), true, "") {
							return
						}
					}
				})
			}
		}
	}
	// Row types with a field the codec does not support (a named type built on
	// time.Time, a nested struct, a pointer, a slice): reading well-formed text
	// into them may fail or deliver nothing, it must not panic, hang or leak.
	ctx.Case("csv/unsupported-fields", func(cc *run.Case) {
		doc := "A,D,N\nx,2024-03-05,7\ny,2024-03-06,8\n"
		census.Begin()
		n := unsupportedRead[struct {
			A string
			D c19Day `format:"2006-01-02"`
			N int
		}](doc) + unsupportedRead[struct {
			A string
			D struct{ Y, M int }
			N int
		}](doc) + unsupportedRead[struct {
			A string
			D *string
			N int
		}](doc) + unsupportedRead[struct {
			A string
			D []string
			N int
		}](doc)
		cc.Count("unsupported_field_reads", 8)
		cc.Count("rows_delivered", int64(n))
		if lk := census.End(); lk != nil && !lk.Unsettled {
			cc.Viol("", fmt.Sprintf("reading into a row type with an unsupported field left %d goroutine(s) behind: %s", lk.Count, mon.LeakSite(lk.Stacks[0])), nil)
			return
		}
		cc.Distinct("csv/unsupported-fields")
	})
	// file-level faults
	ctx.Case("files", func(cc *run.Case) {
		if _, err := helper.ReadFromCsvFile[shape2](filepath.Join(dir, "does-not-exist.csv"), true); err == nil {
			cc.Viol("", "ReadFromCsvFile of a non-existent path returned no error", nil)
			return
		}
		repo := asset.NewFileSystemRepository(dir)
		if _, err := repo.Get("no-such-asset"); err == nil {
			cc.Viol("", "FileSystemRepository.Get of a non-existent asset returned no error", nil)
			return
		}
		if _, err := repo.LastDate("no-such-asset"); err == nil {
			cc.Viol("", "FileSystemRepository.LastDate of a non-existent asset returned no error", nil)
			return
		}
		if _, err := asset.NewFileSystemRepository(filepath.Join(dir, "missing-dir")).Assets(); err == nil {
			cc.Viol("", "FileSystemRepository.Assets on a missing directory returned no error", nil)
			return
		}
		// a directory where a file is expected: reading must neither panic nor hang
		os.Mkdir(filepath.Join(dir, "adir.csv"), 0o700)
		if rows, err := helper.ReadFromCsvFile[shape2](filepath.Join(dir, "adir.csv"), true); err == nil {
			helper.Drain(rows)
		}
		if c, err := repo.Get("adir"); err == nil {
			helper.Drain(c)
		}
		if _, err := repo.LastDate("adir"); err == nil {
			cc.Viol("", "FileSystemRepository.LastDate of an asset whose file is a directory returned no error", nil)
			return
		}
		// asset files that open but hold no well-formed snapshot: LastDate must not be an empty success
		for name, content := range map[string]string{"zero": "", "hdronly": "Date,Open,High,Low,Close,Volume\n", "html": "<html><body>502 Bad Gateway</body></html>\n", "badrow": "Date,Open,High,Low,Close,Volume\nnot-a-date,1,2,3,4,5\n"} {
			os.WriteFile(filepath.Join(dir, name+".csv"), []byte(content), 0o600)
			if d, err := repo.LastDate(name); err == nil {
				cc.Viol("", fmt.Sprintf("FileSystemRepository.LastDate(%q) of a file without a single well-formed snapshot (%q) returned %s and no error", name, content, d.Format("2006-01-02")), nil)
				return
			}
			if c, err := repo.Get(name); err == nil {
				if got := helper.ChanToSlice(c); len(got) != 0 {
					cc.Viol("", fmt.Sprintf("FileSystemRepository.Get(%q) delivered %d snapshots from %q", name, len(got), content), nil)
					return
				}
			}
		}
		cc.Count("file_fault_cases", 11)
		cc.Distinct("files/missing")
		cc.Distinct("files/missing-dir")
	})
	// JSON documents: seeds, every truncation of a valid one, mutations
	ctx.Count("cmp:json", 0)
	ctx.Case("json/seeds-and-truncations", func(cc *run.Case) {
		eqF := func(a, b float64) bool { return a == b }
		for _, s := range jsonSeeds {
			if !jsonCase[float64](cc, census, "float64", []byte(s), eqF) {
				return
			}
		}
		doc := []byte(`[1.5, 2, {"x": 3}, 4]`)
		for cut := 0; cut <= len(doc); cut++ {
			if !jsonCase[float64](cc, census, "float64", doc[:cut], eqF) {
				return
			}
		}
		rows := tiingoDoc(cc.R, 2)
		for cut := 0; cut <= len(rows); cut++ {
			if !jsonCase[asset.TiingoEndOfDay](cc, census, "TiingoEndOfDay", rows[:cut], func(a, b asset.TiingoEndOfDay) bool { return a == b }) {
				return
			}
		}
		for cut := 0; cut <= len(rows); cut++ {
			cc.Desc(map[string]any{"reader": "json", "doc": string(rows), "read_error_after": cut})
			logCount.Store(0)
			census.Begin()
			got := helper.ChanToSlice(helper.JSONToChanWithLogger[asset.TiingoEndOfDay](&failingReader{doc: rows, n: cut}, discardLogger))
			want := refJSON[asset.TiingoEndOfDay](rows)
			if len(got) > len(want) {
				cc.Viol("", fmt.Sprintf("JSON stream reader delivered %d values from an input that failed after %d bytes (document has %d)", len(got), cut, len(want)), nil)
				return
			}
			for i := range got {
				if got[i] != want[i] {
					cc.Viol("", fmt.Sprintf("JSON stream reader, input failing after %d bytes: value %d differs from the document's", cut, i), nil)
					return
				}
			}
			if lk := census.End(); lk != nil && !lk.Unsettled {
				cc.Viol("", fmt.Sprintf("JSON stream reader left %d goroutine(s) behind after a read error", lk.Count), nil)
				return
			}
			cc.Count("read_fault_cases", 1)
		}
		cc.Count("cmp:json", 1)
	})
	for b := 0; b < nMut/40; b++ {
		ctx.Case(fmt.Sprintf("json/mutations/%d", b), func(cc *run.Case) {
			for i := 0; i < 40; i++ {
				doc := tiingoDoc(cc.R, cc.R.Range(0, 4))
				for k := cc.R.Range(0, 2); k >= 0; k-- {
					doc = corrupt(cc.R, doc)
				}
				if !jsonCase[asset.TiingoEndOfDay](cc, census, "TiingoEndOfDay", doc, func(a, b asset.TiingoEndOfDay) bool { return a == b }) {
					return
				}
			}
		})
	}
	// Tiingo responses: statuses x body kinds
	ctx.Count("cmp:tiingo", 0)
	statuses := []int{200, 201, 204, 301, 400, 401, 403, 404, 429, 500, 502, 503, 599}
	for _, status := range statuses {
		status := status
		ctx.Case(fmt.Sprintf("tiingo/status%d", status), func(cc *run.Case) {
			bodies := [][]byte{tiingoDoc(cc.R, 3), []byte(`[]`), []byte(``), []byte(`{"detail":"Not found."}`), []byte(`[{"date":"bad"}]`), []byte(`<html>error</html>`), []byte(`null`)}
			// explicit sparse documents: a null element, rows that omit members
			{
				var generic []map[string]any
				json.Unmarshal(tiingoDoc(gen.New(7, "sparse"), 3), &generic)
				if len(generic) == 3 {
					withNull, _ := json.Marshal([]any{generic[0], nil, generic[1], generic[2]})
					delete(generic[1], "close")
					delete(generic[1], "adjClose")
					delete(generic[2], "volume")
					delete(generic[2], "high")
					omitted, _ := json.Marshal(generic)
					bodies = append(bodies, withNull, omitted)
				}
			}
			// a long history: far more than any buffer between the body and the
			// stream holds, whole and cut in the middle of a record
			long := tiingoDoc(gen.New(11, "long"), 160)
			bodies = append(bodies, long, long[:len(long)*2/3])
			valid := tiingoDoc(cc.R, 2)
			for cut := 0; cut <= len(valid); cut += 7 {
				bodies = append(bodies, valid[:cut])
			}
			for i := 0; i < 10; i++ {
				bodies = append(bodies, corrupt(cc.R, tiingoDoc(cc.R, cc.R.Range(1, 3))))
			}
			for _, body := range bodies {
				if !tiingoCase(cc, census, status, body) {
					return
				}
			}
			if !tiingoEndless(cc, census, status) {
				return
			}
			cc.Count("cmp:tiingo", 1)
		})
	}
}
