package props

import (
	"fmt"
	"math"

	"verif/harness/internal/gen"
	"verif/harness/internal/reg"
	"verif/harness/internal/run"
)

func init() { All["C02"] = c02 }

// frontExtra is the documented exception to "the k-th value refers to input
// position k+w": Ichimoku's lagging span shows the close of LaggingPeriod
// bars earlier by definition.
func frontExtra(ind *reg.Indicator, cfg reg.Cfg, out int) int {
	if ind.Name == "momentum.IchimokuCloud" && out == 4 && len(cfg.I) >= 4 {
		return cfg.I[3]
	}
	return 0
}

// perturb returns bars equal to src before position p and different from p
// on. kind 0: everything x2; 1: everything x1/2; otherwise independent random
// factors per bar (prices) and per bar (volume).
func perturb(src []gen.Bar, p int, kind int, r *gen.Rand) []gen.Bar {
	out := append([]gen.Bar(nil), src...)
	for i := p; i < len(out); i++ {
		fp, fv := 1024.0, 1024.0
		switch kind {
		case 0:
		case 1:
			fp, fv = 1.0/1024, 1.0/1024
		case 2:
			fp, fv = 2, 2
		case 3:
			fp, fv = 0.5, 0.5
		default:
			fp = r.FRange(0.55, 1.9)
			fv = r.FRange(0.55, 1.9)
			if math.Abs(fp-1) < 0.03 {
				fp = 1.25
			}
			if math.Abs(fv-1) < 0.03 {
				fv = 0.8
			}
		}
		b := out[i]
		if kind >= 4 {
			// independent variation inside the bar as well (ratios of one bar's
			// own fields, such as BoP or MFM, are blind to a common factor)
			lo := b.L * fp
			hi := lo + (b.H-b.L)*fp*r.FRange(0.3, 2.5) + 1e-3*lo
			out[i] = gen.Bar{O: lo + (hi-lo)*r.F(), H: hi, L: lo, C: lo + (hi-lo)*r.F(), V: b.V*fv + 1}
			continue
		}
		out[i] = gen.Bar{O: b.O * fp, H: b.H * fp, L: b.L * fp, C: b.C * fp, V: b.V*fv + 1}
	}
	return out
}

// firstDiff returns the first index at which two outputs differ (bitwise,
// NaN == NaN), or -1.
func firstDiff(a, b []float64) int {
	n := min(len(a), len(b))
	for i := 0; i < n; i++ {
		if a[i] != b[i] && !(math.IsNaN(a[i]) && math.IsNaN(b[i])) {
			return i
		}
	}
	if len(a) != len(b) {
		return n
	}
	return -1
}

// frontProbe runs the dependence-front probe (E2) for one indicator
// configuration: perturbing the inputs from position p on must first change
// output index p-w (never earlier: look-ahead; and, over all probes, not
// consistently later: the output would be presented for the wrong position).
func frontProbe(cc *run.Case, ind *reg.Indicator, cfg reg.Cfg, class string) {
	inst := ind.New(cfg)
	w := inst.Idle
	n := 2*w + 14
	bars := gen.Bars(cc.R, class, n)
	base := runInd(inst, indInputs(ind, bars, nil))
	positions := []int{w, w + 3, n - 2}
	nOut := len(base)
	// lateBy[j] = minimal lag over all probes and positions (-1 = no probe changed the output)
	minLag := make([]int, nOut)
	for j := range minLag {
		minLag[j] = math.MaxInt
	}
	probe := func(p, kind int) bool {
		pb := perturb(bars, p, kind, cc.R)
		got := runInd(ind.New(cfg), indInputs(ind, pb, nil))
		cc.Count("front_probes", 1)
		for j := 0; j < nOut && j < len(got); j++ {
			d := firstDiff(base[j], got[j])
			if d < 0 {
				continue
			}
			expect := max(0, p-w+frontExtra(ind, cfg, j))
			if d < expect {
				cc.Viol("", fmt.Sprintf("%s %v output %d (%s): changing the inputs from position %d on changes output index %d, which refers to input position %d < %d: look-ahead / misaligned output",
					ind.Name, cfg, j, ind.Out[j], p, d, d+w, p), map[string]any{"indicator": ind.Name, "cfg": cfg, "class": class, "n": n, "w": w, "p": p, "probe": kind})
				return false
			}
			if lag := d - expect; lag < minLag[j] {
				minLag[j] = lag
			}
		}
		return true
	}
	for _, p := range positions {
		for kind := 0; kind < 12; kind++ {
			if !probe(p, kind) {
				return
			}
		}
	}
	// Saturating outputs (moving extremes, Aroon, cumulative sums gated by a
	// comparison) may ignore a single perturbation. Before an output is called
	// late, every position is probed: it is late only if NO probe at ANY
	// position makes it react on time.
	late := false
	for j := range minLag {
		if minLag[j] > 0 {
			late = true
		}
	}
	if late {
		cc.Count("front_escalations", 1)
		for p := max(1, w); p < n; p++ {
			for kind := 0; kind < 6; kind++ {
				if !probe(p, kind) {
					return
				}
			}
		}
	}
	for j := range minLag {
		if minLag[j] == math.MaxInt {
			cc.Count("front_no_reaction", 1) // e.g. an output that does not depend on the perturbed fields
			continue
		}
		cc.Count("front_outputs_checked", 1)
		if minLag[j] > 0 {
			cc.Viol(ind.Name+":front-late", fmt.Sprintf("%s %v output %d (%s): over all probes at every position the output never reacts before index p-w+%d: the k-th value does not refer to input position k+w (w=%d)",
				ind.Name, cfg, j, ind.Out[j], minLag[j], w), map[string]any{"indicator": ind.Name, "cfg": cfg, "class": class, "n": n, "w": w, "lag": minLag[j]})
		}
	}
}

func c02(ctx *run.Ctx) {
	nrand := ctx.Pick(10, 100)
	for _, ind := range reg.Sorted() {
		ind := ind
		ctx.Count("cmp:"+ind.Name, 0)
		for ci, cfg := range indCfgs(ctx, ind, nrand) {
			ci, cfg := ci, cfg
			w := ind.New(cfg).Idle
			// every n in [0, 2w+3] plus a few longer ones
			lengths := []int{}
			for n := 0; n <= 2*w+3; n++ {
				lengths = append(lengths, n)
			}
			lengths = append(lengths, 3*w+7, 97)
			if ci == 0 {
				lengths = append(lengths, 4500) // ~18 years of daily bars: maintenance paths that run every few thousand values
			}
			for _, cclass := range []string{gen.Walk, gen.Degen, gen.Ties, gen.Flat} {
				cclass := cclass
				if cclass != gen.Walk && ci > ctx.Pick(3, 12) {
					continue
				}
				ctx.Case(fmt.Sprintf("%s/cfg%d/counts/%s", ind.Name, ci, cclass), func(cc *run.Case) {
					bars := gen.Bars(cc.R, cclass, max(3*w+100, lengths[len(lengths)-1]))
					full := indInputs(ind, bars, nil)
					for _, n := range lengths {
						cc.Desc(map[string]any{"indicator": ind.Name, "cfg": cfg, "class": cclass, "n": n, "w": w})
						inputs := make([][]float64, len(full))
						for k := range full {
							inputs[k] = full[k][:n]
						}
						inst := ind.New(cfg)
						out := runInd(inst, inputs)
						cc.Count("runs", 1)
						cc.Count("cmp:"+ind.Name, 1)
						want := max(0, n-inst.Idle)
						for j := range out {
							if len(out[j]) == want {
								continue
							}
							key := ""
							if ind.Name == "momentum.IchimokuCloud" && j == 4 && len(out[j]) == max(0, n-inst.Idle+cfg.I[3]) {
								key = "momentum.IchimokuCloud:lagging-span-longer"
							}
							cc.Viol(key, fmt.Sprintf("%s %v: for n=%d inputs output %d (%s) has %d values, warm-up contract says max(0, n-w) = %d (w=%d, declared=%v)",
								ind.Name, cfg, n, j, ind.Out[j], len(out[j]), want, inst.Idle, inst.Declared),
								map[string]any{"indicator": ind.Name, "cfg": cfg, "n": n, "w": inst.Idle, "output": j, "count": len(out[j]), "want": want})
							if key == "" {
								return
							}
						}
						if n > inst.Idle {
							cc.Distinct(fmt.Sprintf("%s/%v/%s/%d", ind.Name, cfg, cclass, n))
						}
					}
					if cc.WantSample() && ci == 1 {
						cc.Sample(map[string]any{"indicator": ind.Name, "cfg": cfg, "class": cclass, "w": w, "lengths_run": fmt.Sprintf("0..%d, %d, 97", 2*w+3, 3*w+7), "expected_counts": "max(0,n-w) on every output"})
					}
				})
			}
			if ci <= ctx.Pick(2, 24) {
				for _, class := range []string{gen.Walk, gen.Dyadic} {
					class := class
					ctx.Case(fmt.Sprintf("%s/cfg%d/front/%s", ind.Name, ci, class), func(cc *run.Case) {
						cc.Desc(map[string]any{"indicator": ind.Name, "cfg": cfg, "class": class, "probe": "dependence front"})
						frontProbe(cc, ind, cfg, class)
					})
				}
			}
		}
	}
}
