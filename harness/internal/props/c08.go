package props

import (
	"fmt"
	"math"
	"sync/atomic"
	"time"

	"github.com/cinar/indicator/v2/asset"
	"github.com/cinar/indicator/v2/helper"
	"github.com/cinar/indicator/v2/strategy"

	"verif/harness/internal/mon"
	"verif/harness/internal/reg"
	"verif/harness/internal/run"
)

func init() { All["C08"] = c08 }

// simulate is the independent all-in/all-out portfolio simulator.
func simulate(values []float64, actions []strategy.Action) []float64 {
	n := min(len(values), len(actions))
	out := make([]float64, n)
	cash, shares := 1.0, 0.0
	for i := 0; i < n; i++ {
		switch {
		case actions[i] == strategy.Buy && cash > 0:
			shares, cash = cash/values[i], 0
		case actions[i] == strategy.Sell && shares > 0:
			cash, shares = shares*values[i], 0
		}
		out[i] = cash + shares*values[i] - 1
	}
	return out
}

func normalizeModel(a []strategy.Action) []strategy.Action {
	out := make([]strategy.Action, len(a))
	last := strategy.Sell
	for i, x := range a {
		if x != strategy.Hold && x != last {
			last = x
			out[i] = x
		}
	}
	return out
}

func denormalizeModel(a []strategy.Action) []strategy.Action {
	out := make([]strategy.Action, len(a))
	last := strategy.Hold
	for i, x := range a {
		if x != strategy.Hold {
			last = x
		}
		out[i] = last
	}
	return out
}

func runOutcome(values []float64, actions []strategy.Action, s mon.Sched) []float64 {
	// two differently typed inputs: drive by hand (same discipline as mon.Run).
	vc := make(chan float64, s.Cap)
	ac := make(chan strategy.Action, s.Cap)
	done := make(chan struct{}, 2)
	go func() {
		for _, v := range values {
			vc <- v
		}
		close(vc)
		done <- struct{}{}
	}()
	go func() {
		for _, a := range actions {
			ac <- a
		}
		close(ac)
		done <- struct{}{}
	}()
	out := helper.ChanToSlice(strategy.Outcome[float64](vc, ac))
	<-done // both producers must reach close: the longer stream is consumed to the end
	<-done
	return out
}

func actionsVia(f func(<-chan strategy.Action) <-chan strategy.Action, a []strategy.Action) []strategy.Action {
	return helper.ChanToSlice(f(helper.SliceToChan(a)))
}

func c08Word(cc *run.Case, values []float64, word []strategy.Action, sched mon.Sched) bool {
	detail := func() map[string]any {
		return map[string]any{"values": values, "actions": fmt.Sprint(word)}
	}
	got := runOutcome(values, word, sched)
	cc.Count("outcome_runs", 1)
	n := min(len(values), len(word))
	if len(got) != n {
		cc.Viol("", fmt.Sprintf("Outcome has %d entries for %d values and %d actions (want one per pair: %d)", len(got), len(values), len(word), n), detail())
		return false
	}
	want := simulate(values, word)
	firstBuy := n
	for i := 0; i < n; i++ {
		if word[i] == strategy.Buy {
			firstBuy = i
			break
		}
	}
	for i := range got {
		if !(math.Abs(got[i]-want[i]) <= 1e-12*math.Max(1, math.Abs(want[i]))) && !(math.IsNaN(got[i]) && math.IsNaN(want[i])) {
			cc.Viol("", fmt.Sprintf("Outcome[%d] = %.17g, an all-in/all-out portfolio gives %.17g", i, got[i], want[i]), detail())
			return false
		}
		if got[i] < -1-1e-12 {
			cc.Viol("", fmt.Sprintf("Outcome[%d] = %.17g is below -100%%", i, got[i]), detail())
			return false
		}
		if i < firstBuy && got[i] != 0 {
			cc.Viol("", fmt.Sprintf("Outcome[%d] = %.17g before the first Buy (position %d): must be 0", i, got[i], firstBuy), detail())
			return false
		}
	}
	cc.Count("outcome_values_compared", int64(len(got)))
	// Redundant repeated actions removed: bit-identical outcome.
	norm := actionsVia(strategy.NormalizeActions, word)
	if !eqActions(norm, normalizeModel(word)) {
		cc.Viol("", fmt.Sprintf("NormalizeActions(%v) = %v, model gives %v", word, norm, normalizeModel(word)), detail())
		return false
	}
	got2 := runOutcome(values, norm, sched)
	if !bitsEq(got, got2) {
		cc.Viol("", fmt.Sprintf("Outcome changes when redundant repeated actions are removed: %v vs %v", got, got2), detail())
		return false
	}
	// Normalised streams strictly alternate Buy and Sell starting with Buy.
	expect := strategy.Buy
	for i, a := range norm {
		if a == strategy.Hold {
			continue
		}
		if a != expect {
			cc.Viol("", fmt.Sprintf("NormalizeActions output does not alternate Buy/Sell starting with Buy: %v (position %d)", norm, i), detail())
			return false
		}
		expect = -expect
	}
	den := actionsVia(strategy.DenormalizeActions, norm)
	if !eqActions(den, denormalizeModel(norm)) {
		cc.Viol("", fmt.Sprintf("DenormalizeActions(%v) = %v, model gives %v", norm, den, denormalizeModel(norm)), detail())
		return false
	}
	if back := actionsVia(strategy.NormalizeActions, den); !eqActions(back, norm) {
		cc.Viol("", fmt.Sprintf("Normalize(Denormalize(x)) != x for normalised x = %v: got %v", norm, back), detail())
		return false
	}
	// CountTransactions = running count of non-Hold actions.
	ct := helper.ChanToSlice(strategy.CountTransactions(helper.SliceToChan(word)))
	cnt := 0
	for i, a := range word {
		if a != strategy.Hold {
			cnt++
		}
		if i >= len(ct) || ct[i] != cnt {
			cc.Viol("", fmt.Sprintf("CountTransactions(%v) = %v, running count of non-Hold at %d is %d", word, ct, i, cnt), detail())
			return false
		}
	}
	return true
}

var c08Series = [][]float64{
	{10, 11, 12, 13, 14, 15, 16, 17, 18},
	{100, 50, 25, 12.5, 6.25, 3.125, 1.5625, 0.78125, 0.390625},
	{1e-3, 2.5e-3, 1e-3, 4e-3, 9e-4, 1.1e-3, 3e-3, 2e-3, 1e-3},
	{1e6, 9.5e5, 1.2e6, 8e5, 1.6e6, 7e5, 1.1e6, 1.3e6, 9e5},
	{7, 7, 7, 7, 7, 7, 7, 7, 7},
	{3.17, 2.91, 3.33, 3.05, 1.04, 5.5, 5.49, 0.37, 8.88},
}

func c08(ctx *run.Ctx) {
	maxLen := ctx.Pick(7, 9)
	alphabet := []strategy.Action{strategy.Sell, strategy.Hold, strategy.Buy}
	// Exhaustive: every action word up to maxLen over every value series.
	for L := 0; L <= maxLen; L++ {
		total := 1
		for i := 0; i < L; i++ {
			total *= 3
		}
		chunk := 729
		for start := 0; start < total; start += chunk {
			L, start := L, start
			ctx.Case(fmt.Sprintf("words/L%d/from%d", L, start), func(cc *run.Case) {
				for code := start; code < min(total, start+chunk); code++ {
					word := make([]strategy.Action, L)
					c := code
					nonHold := 0
					for i := range word {
						word[i] = alphabet[c%3]
						if word[i] != strategy.Hold {
							nonHold++
						}
						c /= 3
					}
					for si, vs := range c08Series {
						if !c08Word(cc, vs[:L], word, mon.Sched{Cap: si % 3}) {
							return
						}
					}
					if nonHold >= 2 {
						cc.Distinct(fmt.Sprintf("w/%d/%d", L, code))
					}
					if cc.WantSample() && L == 6 && nonHold == 4 {
						cc.Sample(map[string]any{"values": c08Series[5][:L], "actions": fmt.Sprint(word), "outcome": simulate(c08Series[5][:L], word)})
					}
				}
			})
		}
	}
	// Random long words, positive random values, unequal lengths both ways.
	batches := ctx.Pick(32, 2000)
	for b := 0; b < batches; b++ {
		b := b
		ctx.Case(fmt.Sprintf("random/%d", b), func(cc *run.Case) {
			for rep := 0; rep < 20; rep++ {
				nv, na := cc.R.Range(0, 300), cc.R.Range(0, 300)
				if rep%3 == 0 {
					na = nv
				}
				values := make([]float64, nv)
				v := cc.R.FRange(1e-2, 1e4)
				for i := range values {
					v *= math.Exp(0.2 * cc.R.Norm())
					values[i] = v
				}
				word := make([]strategy.Action, na)
				for i := range word {
					word[i] = alphabet[cc.R.Intn(3)]
					if cc.R.Intn(3) == 0 {
						word[i] = strategy.Hold
					}
				}
				if !c08Word(cc, values, word, mon.Sched{Cap: cc.R.Pick(0, 1, 64)}) {
					return
				}
				if nv != na {
					cc.Count("unequal_length_cases", 1)
				}
				cc.Distinct(fmt.Sprintf("r/%d/%d", b, rep))
			}
		})
	}
	// Values of other element types: the simulation itself is carried out in
	// float64 whatever the values are (whole-number prices in minor units, 32-bit
	// floats), i.e. it equals the simulation over float64(value).
	ctx.Case("typed-values", func(cc *run.Case) {
		for rep := 0; rep < ctx.Pick(60, 600); rep++ {
			n := cc.R.Range(1, 60)
			word := make([]strategy.Action, n)
			for i := range word {
				word[i] = strategy.Action(cc.R.Pick(-1, 0, 0, 1, 1))
			}
			ints := make([]int, n)
			i64s := make([]int64, n)
			f32s := make([]float32, n)
			asF := [3][]float64{make([]float64, n), make([]float64, n), make([]float64, n)}
			for i := 0; i < n; i++ {
				ints[i] = cc.R.Range(2, 900)
				i64s[i] = int64(cc.R.Range(1, 5)) * 1_000_000_007
				f32s[i] = float32(cc.R.FRange(0.01, 300))
				asF[0][i], asF[1][i], asF[2][i] = float64(ints[i]), float64(i64s[i]), float64(f32s[i])
			}
			got := [3][]float64{
				helper.ChanToSlice(strategy.Outcome(helper.SliceToChan(ints), helper.SliceToChan(word))),
				helper.ChanToSlice(strategy.Outcome(helper.SliceToChan(i64s), helper.SliceToChan(word))),
				helper.ChanToSlice(strategy.Outcome(helper.SliceToChan(f32s), helper.SliceToChan(word))),
			}
			for t, typ := range []string{"int", "int64", "float32"} {
				want := simulate(asF[t], word)
				if len(got[t]) != len(want) {
					cc.Viol("", fmt.Sprintf("Outcome[%s]: %d outcomes for %d values", typ, len(got[t]), len(want)), nil)
					return
				}
				for i := range want {
					if !(math.Abs(got[t][i]-want[i]) <= 1e-12*math.Max(1, math.Abs(want[i]))) {
						cc.Viol("", fmt.Sprintf("Outcome[%s] step %d = %.17g, the all-in/all-out simulation over the same values gives %.17g", typ, i, got[t][i], want[i]),
							map[string]any{"type": typ, "values": asF[t], "actions": fmt.Sprint(word)})
						return
					}
				}
			}
			cc.Count("typed_outcome_runs", 3)
		}
		cc.Distinct("typed-values")
	})
	// The outcomes ComputeWithOutcome returns are those of the actions it
	// returns: a strategy is asked once (one that answers differently the
	// second time - a random benchmark, a replay - shows whether it was).
	ctx.Case("one-evaluation", func(cc *run.Case) {
		for rep := 0; rep < ctx.Pick(40, 400); rep++ {
			n := cc.R.Range(1, 80)
			closes := make([]float64, n)
			snaps := make([]*asset.Snapshot, n)
			v := cc.R.FRange(1, 500)
			for i := range closes {
				v *= math.Exp(0.1 * cc.R.Norm())
				closes[i] = v
				snaps[i] = &asset.Snapshot{Date: reg.Day(i), Open: v, High: v, Low: v, Close: v, Volume: 100}
			}
			st := &moodyStrategy{seed: cc.R.U64()}
			actions, outcomes := strategy.ComputeWithOutcome(st, helper.SliceToChan(snaps))
			res := make(chan []strategy.Action, 1)
			go func() { res <- helper.ChanToSlice(actions) }()
			outs := helper.ChanToSlice(outcomes)
			acts := <-res
			want := simulate(closes, acts)
			if len(outs) != len(want) {
				cc.Viol("", fmt.Sprintf("ComputeWithOutcome: %d outcomes for %d actions", len(outs), len(acts)), nil)
				return
			}
			for i := range want {
				if !(math.Abs(outs[i]-want[i]) <= 1e-12*math.Max(1, math.Abs(want[i]))) {
					cc.Viol("", fmt.Sprintf("ComputeWithOutcome: outcome[%d] = %.17g, simulating the actions it returned gives %.17g (the strategy's Compute was called %d times)", i, outs[i], want[i], st.calls.Load()),
						map[string]any{"closes": closes, "actions": fmt.Sprint(acts)})
					return
				}
			}
			cc.Count("one_evaluation_runs", 1)
		}
		cc.Distinct("one-evaluation")
	})
	// Buy-and-hold through ComputeWithOutcome: outcome_i = v_i/v_0 - 1.
	ctx.Case("buy-and-hold", func(cc *run.Case) {
		bah := strategy.NewBuyAndHoldStrategy() // one instance for all runs, as a backtest over several assets uses it
		for rep := 0; rep < ctx.Pick(50, 500); rep++ {
			n := cc.R.Range(0, 200)
			closes := make([]float64, n)
			v := cc.R.FRange(1e-2, 1e4)
			for i := range closes {
				v *= math.Exp(0.1 * cc.R.Norm())
				closes[i] = v
			}
			snaps := make([]*asset.Snapshot, n)
			for i := range snaps {
				// open/high/low vary independently of the close: the outcome is defined on closings
				snaps[i] = &asset.Snapshot{Date: reg.Day(i), Close: closes[i], Open: closes[i] * cc.R.FRange(0.9, 1.1), High: closes[i] * cc.R.FRange(1.1, 1.3), Low: closes[i] * cc.R.FRange(0.7, 0.9), Volume: float64(cc.R.Range(1, 1000))}
			}
			if n > 3 && rep%4 == 1 {
				// an asset that is worthless for a day (close 0): the portfolio is worth nothing
				// that day, -100 %, and what the next close says the day after
				closes[cc.R.Range(1, n-1)] = 0
				for i := range snaps {
					snaps[i].Close = closes[i]
				}
			}
			if n > 3 && rep%4 == 2 {
				// two (or three) snapshots stamped with the same date are still separate snapshots
				k := cc.R.Range(1, n-2)
				snaps[k].Date = snaps[k-1].Date
				if cc.R.Bool() {
					snaps[k+1].Date = snaps[k-1].Date
				}
			}
			if n > 2 && rep%3 == 0 {
				// dirty data: a close outside its own bar's [low, high]; the outcome is defined on closings all the same
				k := cc.R.Range(0, n-1)
				snaps[k].Low, snaps[k].High = closes[k]*1.2, closes[k]*1.5
				k2 := cc.R.Range(0, n-1)
				snaps[k2].Low, snaps[k2].High = closes[k2]*0.2, closes[k2]*0.6
			}
			if n > 2 && rep%5 == 3 {
				// a feed whose first sessions (or all of them) carry no volume: buying
				// and holding starts with the first snapshot all the same
				for i, k := 0, cc.R.Pick(1, 2, n/2, n); i < k; i++ {
					snaps[i].Volume = 0
				}
			}
			actions, outcomes := strategy.ComputeWithOutcome(bah, helper.SliceToChan(snaps))
			res := make(chan []strategy.Action, 1)
			go func() { res <- helper.ChanToSlice(actions) }()
			outs := helper.ChanToSlice(outcomes)
			acts := <-res
			if len(outs) != n || len(acts) != n {
				cc.Viol("", fmt.Sprintf("ComputeWithOutcome(BuyAndHold) over %d snapshots: %d actions, %d outcomes", n, len(acts), len(outs)), nil)
				return
			}
			for i := range outs {
				want := closes[i]/closes[0] - 1
				if !(math.Abs(outs[i]-want) <= 1e-12*math.Max(1, math.Abs(want))) { // (NaN-safe)
					cc.Viol("", fmt.Sprintf("buy-and-hold outcome[%d] = %.17g, value_i/value_0 - 1 = %.17g", i, outs[i], want), map[string]any{"closes": closes})
					return
				}
			}
			cc.Count("buy_and_hold_runs", 1)
		}
		cc.Distinct("buy-and-hold")
	})
}

// moodyStrategy recommends a pseudo-random word that is different on every
// call of Compute (a random benchmark; a one-shot replay of recorded signals).
type moodyStrategy struct {
	seed  uint64
	calls atomic.Int64
}

func (m *moodyStrategy) Name() string { return "moody" }

func (m *moodyStrategy) Compute(c <-chan *asset.Snapshot) <-chan strategy.Action {
	x := m.seed + uint64(m.calls.Add(1))*0x9e3779b97f4a7c15
	return helper.Map(c, func(*asset.Snapshot) strategy.Action {
		x ^= x << 13
		x ^= x >> 7
		x ^= x << 17
		return strategy.Action(int(x%3) - 1)
	})
}

func (m *moodyStrategy) Report(c <-chan *asset.Snapshot) *helper.Report {
	go helper.Drain(c)
	return helper.NewReport("moody", helper.SliceToChan([]time.Time{}))
}
