package props

import (
	"fmt"
	"math"
	"runtime"
	"sort"
	"sync"
	"sync/atomic"
	"time"

	"github.com/cinar/indicator/v2/asset"
	"github.com/cinar/indicator/v2/helper"

	"verif/harness/internal/gen"
	"verif/harness/internal/run"
)

func init() {
	All["C10R"] = func(ctx *run.Ctx) { c10Concurrent(ctx, ctx.Pick(12, 200)) }
}

// Concurrent histories. Every asset has ONE writer that appends a planned,
// strictly dated list of snapshots batch by batch (so each asset's state is
// always a prefix of its plan: unique values make every read identify the
// state it observed), while several readers issue Get / GetSince / LastDate /
// Assets on any asset. Calls and returns are stamped from one atomic logical
// clock at the client boundary. A read of asset a that returned the prefix of
// length m is legal iff
//
//	lo <= m <= hi,  lo = snapshots of the batches whose Append RETURNED before the read was called
//	                hi = snapshots of the batches whose Append was CALLED before the read returned
//
// which is linearizability of an append-only list with a single writer, decided
// exactly and in linear time. The in-memory repository is documented as shared
// between workers, so its readers overlap its writers freely; the file-system
// and SQL repositories stream lazily from a file / a cursor, so the harness
// keeps a reader of asset a from overlapping the writer of the SAME asset (a
// per-asset RWMutex held until the stream is drained) while operations on
// different assets and Assets() overlap freely.

type concBatch struct {
	from, to  int // plan[from:to]
	call, ret int64
}

type concRead struct {
	op        string
	a         int // asset index, -1 = unknown name
	bound     int
	call, ret int64
	err       error
	days      []int // day indices returned (get / since), or [day] for lastDate
	bad       string
	names     []string
}

func concSnap(salt float64, a, d int) *asset.Snapshot {
	v := salt + float64(a*1000+d)
	return &asset.Snapshot{Date: day0.AddDate(0, 0, d), Open: v, High: v + 0.5, Low: v - 0.25, Close: v + 0.125, Volume: float64(d*7 + a)}
}

func c10ConcCase(cc *run.Case, kind string, h int) {
	r := cc.R
	repo, cleanup, err := newRepo(kind)
	if err != nil {
		cc.Inconclusive("cannot create repository: " + err.Error())
		return
	}
	defer cleanup()
	nAssets := r.Range(2, 4)
	names := []string{"aa", "b.v", "cvs", "dd-d"}[:nAssets]
	T := r.Range(6, 18)
	salt := gen.Round2(r.FRange(1, 900))
	nReaders := r.Range(3, 8)
	readsEach := r.Range(8, 30)
	exclusive := kind != "memory"
	desc := map[string]any{"repository": kind, "assets": names, "snapshots_per_asset": T, "readers": nReaders, "reads_per_reader": readsEach,
		"same_asset_reader_writer_overlap": !exclusive}
	cc.Desc(desc)

	var clk atomic.Int64
	locks := make([]sync.RWMutex, nAssets)
	batches := make([][]concBatch, nAssets)
	for a := range batches {
		for from := 0; from < T; {
			to := min(T, from+r.Range(0, 3))
			batches[a] = append(batches[a], concBatch{from: from, to: to})
			from = to
		}
	}
	type plan struct {
		op    string
		a     int
		bound int
	}
	plans := make([][]plan, nReaders)
	for i := range plans {
		for k := 0; k < readsEach; k++ {
			p := plan{op: []string{"get", "get", "since", "since", "last", "assets"}[r.Intn(6)], a: r.Intn(nAssets), bound: r.Range(0, T)}
			if r.Intn(15) == 0 {
				p.a = -1
			}
			plans[i] = append(plans[i], p)
		}
	}
	reads := make([][]concRead, nReaders)
	var appendErr atomic.Value
	start := make(chan struct{})
	var wg sync.WaitGroup
	for a := 0; a < nAssets; a++ {
		wg.Add(1)
		go func(a int) {
			defer wg.Done()
			<-start
			for bi := range batches[a] {
				b := &batches[a][bi]
				var snaps []*asset.Snapshot
				for d := b.from; d < b.to; d++ {
					snaps = append(snaps, concSnap(salt, a, d))
				}
				if exclusive {
					locks[a].Lock()
				}
				b.call = clk.Add(1)
				err := repo.Append(names[a], helper.SliceToChan(snaps))
				b.ret = clk.Add(1)
				if exclusive {
					locks[a].Unlock()
				}
				if err != nil {
					appendErr.Store(fmt.Sprintf("Append(%s, days %d..%d) returned an error: %v", names[a], b.from, b.to-1, err))
					return
				}
				runtime.Gosched()
			}
		}(a)
	}
	decode := func(a int, c <-chan *asset.Snapshot, rd *concRead) {
		for s := range c {
			d := int(math.Round(s.Date.Sub(day0).Hours() / 24))
			rd.days = append(rd.days, d)
			if rd.bad == "" && a >= 0 {
				if w := concSnap(salt, a, d); !s.Date.Equal(w.Date) || s.Open != w.Open || s.High != w.High || s.Low != w.Low || s.Close != w.Close || s.Volume != w.Volume {
					rd.bad = fmt.Sprintf("snapshot dated %s carries values %v/%v/%v/%v/%v, appended were %v/%v/%v/%v/%v", s.Date.Format("2006-01-02"), s.Open, s.High, s.Low, s.Close, s.Volume, w.Open, w.High, w.Low, w.Close, w.Volume)
				}
			}
		}
	}
	for i := 0; i < nReaders; i++ {
		wg.Add(1)
		go func(i int) {
			defer wg.Done()
			<-start
			for _, p := range plans[i] {
				rd := concRead{op: p.op, a: p.a, bound: p.bound}
				name := "never-appended"
				if p.a >= 0 {
					name = names[p.a]
				}
				lock := exclusive && p.a >= 0 && p.op != "assets"
				if lock {
					locks[p.a].RLock()
				}
				rd.call = clk.Add(1)
				switch p.op {
				case "get":
					c, err := repo.Get(name)
					rd.err = err
					if err == nil {
						decode(p.a, c, &rd)
					}
				case "since":
					c, err := repo.GetSince(name, day0.AddDate(0, 0, p.bound))
					rd.err = err
					if err == nil {
						decode(p.a, c, &rd)
					}
				case "last":
					var d time.Time
					d, rd.err = repo.LastDate(name)
					if rd.err == nil {
						rd.days = []int{int(math.Round(d.Sub(day0).Hours() / 24))}
					}
				case "assets":
					rd.names, rd.err = repo.Assets()
				}
				rd.ret = clk.Add(1)
				if lock {
					locks[p.a].RUnlock()
				}
				reads[i] = append(reads[i], rd)
			}
		}(i)
	}
	// The in-memory repository is shared between workers: several writers may
	// append to the SAME asset at once. Nothing may be lost and each writer's
	// snapshots must keep their order (conservation, checked after the run).
	const sharedWriters, sharedEach = 3, 8
	// (file-system and SQL repositories: the asset exists before the writers
	// start and every batch is a single small write / a few inserts, which the
	// append mode of the file and the driver keep whole)
	if err := repo.Append("shared", helper.SliceToChan([]*asset.Snapshot{concSnap(salt, 99, 0)})); err != nil {
		cc.Viol("", fmt.Sprintf("%s repository: Append(shared) returned an error: %v", kind, err), desc)
		return
	}
	{
		for w := 0; w < sharedWriters; w++ {
			wg.Add(1)
			go func(w int) {
				defer wg.Done()
				<-start
				for d := 0; d < sharedEach; d += 2 {
					c := make(chan *asset.Snapshot) // unbuffered: the Append stays open while the producer is slow
					go func() {
						c <- concSnap(salt, 100+w, d)
						runtime.Gosched()
						c <- concSnap(salt, 100+w, d+1)
						close(c)
					}()
					if err := repo.Append("shared", c); err != nil {
						appendErr.Store(fmt.Sprintf("Append(shared) returned an error: %v", err))
						return
					}
				}
			}(w)
		}
	}
	close(start)
	wg.Wait()

	{
		c, err := repo.Get("shared")
		if err != nil {
			cc.Viol("", kind+" repository, concurrent writers of one asset: Get failed: "+err.Error(), desc)
			return
		}
		next := make([]int, sharedWriters)
		total := 0
		first := true
		for s := range c {
			if first { // the snapshot that created the asset
				first = false
				continue
			}
			w := int(math.Round(s.Open-salt))/1000 - 100
			d := int(math.Round(s.Date.Sub(day0).Hours() / 24))
			if w < 0 || w >= sharedWriters || d != next[w] {
				cc.Viol("", fmt.Sprintf(kind+" repository, %d concurrent writers of one asset: snapshot %d of the asset is writer %d's day %d, that writer's next one is day %d (a snapshot was lost, duplicated or reordered)", sharedWriters, total, w, d, next[max(0, min(w, sharedWriters-1))]), desc)
				return
			}
			next[w]++
			total++
		}
		if total != sharedWriters*sharedEach {
			cc.Viol("", fmt.Sprintf(kind+" repository, %d concurrent writers of one asset: %d of the %d appended snapshots are stored (appends that had returned were lost)", sharedWriters, total, sharedWriters*sharedEach), desc)
			return
		}
		cc.Count("conc_shared_asset_snapshots", int64(total))
	}

	if m := appendErr.Load(); m != nil {
		cc.Viol("", fmt.Sprintf("%s repository, concurrent clients: %s", kind, m), desc)
		return
	}
	bounds := func(a int, rd *concRead) (lo, hi int, called bool) {
		for _, b := range batches[a] {
			if b.ret != 0 && b.ret < rd.call {
				lo = b.to
			}
			if b.call != 0 && b.call < rd.ret {
				hi = b.to
				called = true
			}
		}
		return
	}
	fail := func(rd *concRead, msg string) {
		d := map[string]any{"read": map[string]any{"op": rd.op, "asset": rd.a, "bound_day": rd.bound, "call": rd.call, "return": rd.ret, "days": rd.days, "names": rd.names, "error": fmt.Sprint(rd.err)}}
		for k, v := range desc {
			d[k] = v
		}
		var bl []string
		if rd.a >= 0 {
			for _, b := range batches[rd.a] {
				bl = append(bl, fmt.Sprintf("days[%d:%d] call=%d ret=%d", b.from, b.to, b.call, b.ret))
			}
		}
		d["appends_of_that_asset"] = bl
		cc.Viol("", fmt.Sprintf("%s repository, concurrent clients: %s", kind, msg), d)
	}
	prefix := func(days []int, from int) (int, bool) { // days must be from, from+1, ...
		for k, d := range days {
			if d != from+k {
				return 0, false
			}
		}
		return from + len(days), true
	}
	var overlapping, intermediate, total int64
	for i := range reads {
		for k := range reads[i] {
			rd := &reads[i][k]
			total++
			if rd.op == "assets" {
				if rd.err != nil {
					fail(rd, fmt.Sprintf("Assets() returned an error: %v", rd.err))
					return
				}
				have := map[string]bool{}
				for _, n := range rd.names {
					have[n] = true
				}
				for a, n := range names {
					lo, _, called := bounds(a, rd)
					if lo > 0 && !have[n] {
						sort.Strings(rd.names)
						fail(rd, fmt.Sprintf("Assets() = %v does not list %q although an Append of %d snapshots to it had returned before the call", rd.names, n, lo))
						return
					}
					if have[n] && !called {
						fail(rd, fmt.Sprintf("Assets() lists %q before any Append to it was called", n))
						return
					}
					delete(have, n)
				}
				delete(have, "shared") // the multi-writer asset below
				for n := range have {
					fail(rd, fmt.Sprintf("Assets() lists %q, which nobody appended", n))
					return
				}
				continue
			}
			if rd.a < 0 {
				if rd.err == nil {
					fail(rd, fmt.Sprintf("%s of a name that was never appended returned no error", rd.op))
					return
				}
				continue
			}
			if rd.bad != "" {
				fail(rd, rd.op+": "+rd.bad)
				return
			}
			lo, hi, _ := bounds(rd.a, rd)
			if hi > lo {
				overlapping++
			}
			if rd.err != nil {
				if lo > 0 {
					fail(rd, fmt.Sprintf("%s(%q) returned an error (%v) although Appends of %d snapshots had returned before the call", rd.op, names[rd.a], rd.err, lo))
					return
				}
				continue
			}
			var m int
			ok := true
			switch rd.op {
			case "get":
				m, ok = prefix(rd.days, 0)
			case "last":
				m = rd.days[0] + 1
			case "since":
				if len(rd.days) == 0 {
					// legal iff some admissible state holds nothing dated on/after the bound
					if lo > rd.bound {
						fail(rd, fmt.Sprintf("GetSince(%q, day %d) returned nothing although %d snapshots (days 0..%d) had been appended before the call", names[rd.a], rd.bound, lo, lo-1))
						return
					}
					continue
				}
				m, ok = prefix(rd.days, rd.bound)
			}
			if !ok {
				fail(rd, fmt.Sprintf("%s(%q) returned days %v: not a contiguous run of the appended snapshots in order", rd.op, names[rd.a], rd.days))
				return
			}
			if m < lo || m > hi {
				fail(rd, fmt.Sprintf("%s(%q) observed the first %d snapshots; Appends that had returned before the call hold %d, Appends called before it returned hold %d (a returned Append is invisible, or a snapshot was seen before it was appended)", rd.op, names[rd.a], m, lo, hi))
				return
			}
			if m > 0 && m < T {
				intermediate++
			}
		}
	}
	// final state, after every client has finished
	for a, n := range names {
		c, err := repo.Get(n)
		if err != nil {
			cc.Viol("", fmt.Sprintf("%s repository, concurrent clients: final Get(%q) failed: %v", kind, n, err), desc)
			return
		}
		rd := concRead{}
		decode(a, c, &rd)
		if m, ok := prefix(rd.days, 0); !ok || m != T || rd.bad != "" {
			cc.Viol("", fmt.Sprintf("%s repository, concurrent clients: after all writers finished %q holds days %v %s, appended were days 0..%d", kind, n, rd.days, rd.bad, T-1), desc)
			return
		}
	}
	cc.Count("conc_reads:"+kind, total)
	cc.Count("conc_reads_overlapping_an_append", overlapping)
	cc.Count("conc_reads_of_intermediate_states", intermediate)
	cc.Count("conc_histories", 1)
	cc.Count("ops:"+kind, total)
	if intermediate > 0 {
		cc.Distinct(fmt.Sprintf("conc/%s/%s/%d", kind, cc.Label, h))
	}
}

func c10Concurrent(ctx *run.Ctx, n int) {
	runtime.GOMAXPROCS(16)
	for b := 0; b < n; b++ {
		for _, kind := range repoKinds {
			kind := kind
			ctx.Case(fmt.Sprintf("conc/%s/%d", kind, b), func(cc *run.Case) {
				for h := 0; h < 5; h++ {
					c10ConcCase(cc, kind, h)
				}
			})
		}
	}
}
