package props

import (
	"fmt"

	"github.com/cinar/indicator/v2/strategy"

	"verif/harness/internal/gen"
	"verif/harness/internal/reg"
	"verif/harness/internal/run"
)

func init() { All["C04"] = c04 }

// cutPoints returns the cut positions explored for a series of length n.
func cutPoints(ctx *run.Ctx, r *gen.Rand, n, w int, all bool) []int {
	if all {
		out := make([]int, 0, n+1)
		for m := 0; m <= n; m++ {
			out = append(out, m)
		}
		return out
	}
	set := map[int]bool{}
	var out []int
	for _, m := range []int{0, w, w + 1, n - 1, r.Range(0, n), r.Range(w, n), r.Range(w, n)} {
		if m >= 0 && m <= n && !set[m] {
			set[m] = true
			out = append(out, m)
		}
	}
	return out
}

func prefixEqF(full, pre []float64) int {
	for i := range pre {
		if i >= len(full) {
			return i
		}
		if !bitsEq(full[i:i+1], pre[i:i+1]) {
			return i
		}
	}
	return -1
}

func c04Indicator(cc *run.Case, ctx *run.Ctx, ind *reg.Indicator, cfg reg.Cfg, class string, n int, all bool) {
	bars := gen.Bars(cc.R, class, n)
	w := ind.New(cfg).Idle
	full := runInd(ind.New(cfg), indInputs(ind, bars, nil))
	cc.Count("full_runs", 1)
	for _, m := range cutPoints(ctx, cc.R, n, w, all) {
		cc.Desc(map[string]any{"pipeline": ind.Name, "cfg": cfg, "class": class, "n": n, "cut": m})
		// (i) prefix law: Compute(s[0:m]) is a prefix of Compute(s), bit for bit.
		pre := runInd(ind.New(cfg), indInputs(ind, bars[:m], nil))
		cc.Count("prefix_runs", 1)
		for j := range pre {
			if bad := prefixEqF(full[j], pre[j]); bad >= 0 {
				cc.Viol("", fmt.Sprintf("%s %v output %d (%s): running on the first %d of %d inputs gives a value at index %d that the run on the whole series does not have there (prefix law broken: the output for position %d depends on later inputs or on the length of the series)",
					ind.Name, cfg, j, ind.Out[j], m, n, bad, bad+w),
					map[string]any{"indicator": ind.Name, "cfg": cfg, "class": class, "n": n, "cut": m, "index": bad, "prefix_tail": jsonSafe(clip([][]float64{pre[j]}, 12)), "full_head": jsonSafe(clip([][]float64{full[j]}, 12)), "inputs": jsonSafe(clip(indInputs(ind, bars, nil), 60))})
				return
			}
			cc.Count("positions_compared", int64(len(pre[j])))
		}
		// (ii) suffix law: replacing s[m:] never changes an output for a position < m.
		if m < n {
			for rep := 0; rep < 2; rep++ {
				alt := runInd(ind.New(cfg), indInputs(ind, perturb(bars, m, cc.R.Intn(8), cc.R), nil))
				cc.Count("suffix_runs", 1)
				for j := range alt {
					limit := max(0, m-w+frontExtra(ind, cfg, j))
					for k := 0; k < limit && k < len(full[j]) && k < len(alt[j]); k++ {
						if !bitsEq(full[j][k:k+1], alt[j][k:k+1]) {
							cc.Viol("", fmt.Sprintf("%s %v output %d (%s): changing the inputs from position %d on changes the value for position %d (< %d): look-ahead",
								ind.Name, cfg, j, ind.Out[j], m, k+w, m),
								map[string]any{"indicator": ind.Name, "cfg": cfg, "class": class, "n": n, "cut": m, "index": k})
							return
						}
					}
				}
			}
		}
	}
	cc.Distinct(fmt.Sprintf("%s/%v/%s/%d", ind.Name, cfg, class, n))
}

func c04Strategy(cc *run.Case, ctx *run.Ctx, ns namedStrat, class string, n int, all bool) {
	bars := gen.Bars(cc.R, class, n)
	full := runStrat(ns.New(), reg.Snaps(bars))
	cc.Count("full_runs", 1)
	for _, m := range cutPoints(ctx, cc.R, n, ns.Warm, all) {
		cc.Desc(map[string]any{"pipeline": ns.Name, "class": class, "n": n, "cut": m})
		pre := runStrat(ns.New(), reg.Snaps(bars[:m]))
		cc.Count("prefix_runs", 1)
		// A strategy owes one action per snapshot: the first m actions are
		// the recommendations for the m snapshots of the prefix.
		for i := 0; i < m && i < len(pre) && i < len(full); i++ {
			if pre[i] != full[i] {
				cc.Viol("", fmt.Sprintf("%s: on the first %d of %d snapshots action %d is %d, on the whole series it is %d (prefix law broken: the recommendation for snapshot %d depends on later snapshots)",
					ns.Name, m, n, i, pre[i], full[i], i),
					map[string]any{"strategy": ns.Name, "class": class, "n": n, "cut": m, "index": i, "prefix": fmt.Sprint(pre), "full_head": fmt.Sprint(full[:min(len(full), m+3)]), "closes": gen.Field(bars, 'c')})
				return
			}
		}
		cc.Count("positions_compared", int64(min(m, len(pre))))
		if m < n {
			for rep := 0; rep < 2; rep++ {
				alt := runStrat(ns.New(), reg.Snaps(perturb(bars, m, cc.R.Intn(8), cc.R)))
				cc.Count("suffix_runs", 1)
				for i := 0; i < m && i < len(alt) && i < len(full); i++ {
					if alt[i] != full[i] {
						cc.Viol("", fmt.Sprintf("%s: changing the snapshots from position %d on changes the action for snapshot %d: look-ahead", ns.Name, m, i),
							map[string]any{"strategy": ns.Name, "class": class, "n": n, "cut": m, "index": i})
						return
					}
				}
			}
		}
	}
	nonHold := 0
	for _, a := range full {
		if a != strategy.Hold {
			nonHold++
		}
	}
	if nonHold > 0 {
		cc.Distinct(fmt.Sprintf("%s/%s/%d", ns.Name, class, n))
	}
}

func c04(ctx *run.Ctx) {
	nrand := ctx.Pick(5, 10)
	classes := []string{gen.Walk, gen.Ties}
	if !ctx.Quick() {
		classes = []string{gen.Walk, gen.Walk2, gen.Ties, gen.Plateau, gen.Degen}
	}
	for _, ind := range reg.Sorted() {
		ind := ind
		ctx.Count("cmp:"+ind.Name, 0)
		for ci, cfg := range indCfgs(ctx, ind, nrand) {
			ci, cfg := ci, cfg
			w := ind.New(cfg).Idle
			for _, class := range classes {
				class := class
				ctx.Case(fmt.Sprintf("ind/%s/cfg%d/%s/sampled", ind.Name, ci, class), func(cc *run.Case) {
					c04Indicator(cc, ctx, ind, cfg, class, 2*w+8, false)
					cc.Count("cmp:"+ind.Name, 1)
				})
				if !ctx.Quick() || ci <= 1 {
					// all cuts 0 <= m <= n on a short series
					n := min(48, 2*w+8)
					if ci > 0 {
						n = 48
					}
					ctx.Case(fmt.Sprintf("ind/%s/cfg%d/%s/allcuts", ind.Name, ci, class), func(cc *run.Case) {
						c04Indicator(cc, ctx, ind, cfg, class, n, true)
					})
				}
			}
		}
	}
	base := baseStrats(ctx, ctx.Pick(2, 6))
	var small []namedStrat
	for _, b := range base {
		if b.Warm <= 40 {
			small = append(small, b)
		}
	}
	all := append(append([]namedStrat(nil), base...), compoundStrats(ctx, small, ctx.Pick(8, 30))...)
	// Legal but unusual orderings that the registry's random configurations
	// avoid (they are outside what C05/C06 can judge, but causality must hold
	// there too): a DEMA strategy whose first DEMA is the slower one.
	if row := reg.StratByName("trend.DemaStrategy"); row != nil {
		for i := 0; i < ctx.Pick(3, 10); i++ {
			c := row.Rand(gen.New(ctx.Seed, fmt.Sprintf("c04-dema-swapped/%d", i)))
			if len(c.I) == 4 {
				c.I[0], c.I[1], c.I[2], c.I[3] = c.I[2], c.I[3], c.I[0], c.I[1]
			}
			all = append(all, namedStrat{Name: fmt.Sprintf("trend.DemaStrategy swapped=%v", c), New: func() strategy.Strategy { return row.New(c) }, Warm: 30, Quiet: 0})
		}
	}
	for si, ns := range all {
		ns := ns
		for _, class := range classes {
			class := class
			ctx.Case(fmt.Sprintf("strat/%d/%s/sampled", si, class), func(cc *run.Case) {
				c04Strategy(cc, ctx, ns, class, 2*ns.Warm+30, false)
				cc.Count("strategy_cases", 1)
				if cc.WantSample() && si%5 == 2 {
					cc.Sample(map[string]any{"pipeline": ns.Name, "class": class, "n": 2*ns.Warm + 30, "checks": "prefix law at sampled cuts (bit-exact) + 2 suffix replacements per cut"})
				}
			})
			if ns.Warm <= 30 && (!ctx.Quick() || si%4 == 0) {
				ctx.Case(fmt.Sprintf("strat/%d/%s/allcuts", si, class), func(cc *run.Case) {
					c04Strategy(cc, ctx, ns, class, 48, true)
				})
			}
		}
	}
}
