package props

import (
	"fmt"

	"github.com/cinar/indicator/v2/helper"
	"github.com/cinar/indicator/v2/trend"
	"github.com/cinar/indicator/v2/volatility"

	"verif/harness/internal/mon"
	"verif/harness/internal/run"
)

// Other instantiations of the generic indicator types: the purely additive /
// ordering ones are exact for integer element types (no tolerance at all),
// and float32 exercises a second float width. Only types whose formula stays
// inside the element type are used.

type c01Elem interface {
	~int | ~int32 | ~int64 | ~float32
}

func typedWindow[T c01Elem](xs []T, p int, f func(w []T) T) []T {
	if len(xs) < p {
		return nil
	}
	out := make([]T, 0, len(xs)-p+1)
	for k := 0; k+p <= len(xs); k++ {
		out = append(out, f(xs[k:k+p]))
	}
	return out
}

func c01Typed[T interface {
	c01Elem
	helper.Number
}](cc *run.Case, typ string, exact bool) {
	r := cc.R
	for rep := 0; rep < 40; rep++ {
		n := r.Range(0, 60)
		p := r.Range(1, 9)
		xs := make([]T, n)
		for i := range xs {
			xs[i] = T(r.Range(-40, 40)) // zeros, negatives and ties included
			if !exact {
				xs[i] = T(float64(r.Range(-4000, 4000)) / 8) // dyadic: float32 sums stay exact
			}
		}
		runT := func(f func(<-chan T) <-chan T) []T {
			return mon.RunSimple([][]T{xs}, func(in []<-chan T) []<-chan T { return []<-chan T{f(in[0])} })[0]
		}
		type tc struct {
			name string
			got  []T
			want []T
		}
		sum := func(w []T) T {
			var s T
			for _, x := range w {
				s += x
			}
			return s
		}
		cases := []tc{
			{"MovingSum", runT(trend.NewMovingSumWithPeriod[T](p).Compute), typedWindow(xs, p, sum)},
			{"MovingMax", runT(trend.NewMovingMaxWithPeriod[T](p).Compute), typedWindow(xs, p, func(w []T) T {
				m := w[0]
				for _, x := range w {
					if x > m {
						m = x
					}
				}
				return m
			})},
			{"MovingMin", runT(trend.NewMovingMinWithPeriod[T](p).Compute), typedWindow(xs, p, func(w []T) T {
				m := w[0]
				for _, x := range w {
					if x < m {
						m = x
					}
				}
				return m
			})},
			{"Sma", runT(trend.NewSmaWithPeriod[T](p).Compute), typedWindow(xs, p, func(w []T) T { return sum(w) / T(p) })},
		}
		dc := volatility.NewDonchianChannelWithPeriod[T](p)
		outs := mon.RunSimple([][]T{xs}, func(in []<-chan T) []<-chan T {
			u, m, l := dc.Compute(in[0])
			return []<-chan T{u, m, l}
		})
		mid := make([]T, len(cases[1].want))
		for i := range mid {
			mid[i] = (cases[1].want[i] + cases[2].want[i]) / 2 // documented: (upper + lower) / 2 in the element type
		}
		// Wma in the element type: integer division truncates every term, so the
		// result may differ from the real-valued formula by less than one per
		// term (plus the final halving); float32 by its rounding.
		wma := runT(trend.NewWmaWith[T](p).Compute)
		if len(wma) != max(0, n-p+1) {
			cc.Viol("", fmt.Sprintf("trend.Wma[%s] period %d over %d values emitted %d values", typ, p, n, len(wma)), nil)
			return
		}
		for k, got := range wma {
			real, mag := 0.0, 0.0
			for i := 0; i < p; i++ {
				term := float64(xs[k+i]) * float64(i+1) / float64(p)
				real += term
				if term < 0 {
					term = -term
				}
				mag += term
			}
			real /= 2
			tol := float64(p)/2 + 1
			if !exact {
				tol = 1e-5*mag + 1e-6
			}
			if d := float64(got) - real; d > tol || d < -tol {
				cc.Viol("", fmt.Sprintf("trend.Wma[%s] period %d: window %v yields %v, the weighted average sum(x_i*(i+1)/P)/2 is %v (allowed rounding in the element type: %v)", typ, p, xs[k:k+p], got, real, tol), nil)
				return
			}
		}
		cc.Count("positions_compared", int64(len(wma)))
		cases = append(cases, tc{"DonchianChannel.upper", outs[0], cases[1].want}, tc{"DonchianChannel.lower", outs[2], cases[2].want}, tc{"DonchianChannel.middle", outs[1], mid})
		for _, c := range cases {
			if !eqSlice(c.got, c.want) {
				cc.Viol("", fmt.Sprintf("trend.%s[%s] period %d on %v: got %v, documented window formula gives %v", c.name, typ, p, xs, c.got, c.want), nil)
				return
			}
			cc.Count("positions_compared", int64(len(c.want)))
		}
		cc.Count("typed_runs:"+typ, int64(len(cases)))
	}
	cc.Distinct("typed/" + typ)
}

// c01TypedBig: 64-bit integers beyond 2^53 (not representable in float64):
// window sums and averages in the element type are exact.
func c01TypedBig(cc *run.Case) {
	r := cc.R
	for rep := 0; rep < 40; rep++ {
		n, p := r.Range(0, 40), r.Range(1, 8)
		xs := make([]int64, n)
		for i := range xs {
			xs[i] = (int64(1) << r.Pick(53, 54, 58)) + int64(r.Range(-99, 99))
			if r.Intn(4) == 0 {
				xs[i] = -xs[i]
			}
		}
		runT := func(f func(<-chan int64) <-chan int64) []int64 {
			return mon.RunSimple([][]int64{xs}, func(in []<-chan int64) []<-chan int64 { return []<-chan int64{f(in[0])} })[0]
		}
		sum := func(w []int64) int64 {
			var s int64
			for _, x := range w {
				s += x
			}
			return s
		}
		for _, c := range []struct {
			name      string
			got, want []int64
		}{
			{"MovingSum", runT(trend.NewMovingSumWithPeriod[int64](p).Compute), typedWindow(xs, p, sum)},
			{"Sma", runT(trend.NewSmaWithPeriod[int64](p).Compute), typedWindow(xs, p, func(w []int64) int64 { return sum(w) / int64(p) })},
		} {
			if !eqSlice(c.got, c.want) {
				cc.Viol("", fmt.Sprintf("trend.%s[int64] period %d on %v: got %v, documented window formula gives %v", c.name, p, xs, c.got, c.want), nil)
				return
			}
			cc.Count("positions_compared", int64(len(c.want)))
		}
		cc.Count("typed_runs:int64big", 2)
	}
	cc.Distinct("typed/int64big")
}

func c01TypedCases(ctx *run.Ctx) {
	for b := 0; b < ctx.Pick(2, 20); b++ {
		ctx.Case(fmt.Sprintf("typed/int/%d", b), func(cc *run.Case) { c01Typed[int](cc, "int", true) })
		ctx.Case(fmt.Sprintf("typed/int64/%d", b), func(cc *run.Case) { c01Typed[int64](cc, "int64", true) })
		ctx.Case(fmt.Sprintf("typed/int32/%d", b), func(cc *run.Case) { c01Typed[int32](cc, "int32", true) })
		ctx.Case(fmt.Sprintf("typed/float32/%d", b), func(cc *run.Case) { c01Typed[float32](cc, "float32", false) })
		ctx.Case(fmt.Sprintf("typed/int64big/%d", b), c01TypedBig)
	}
}
