package props

import (
	"fmt"
	"math"

	"github.com/cinar/indicator/v2/momentum"
	"github.com/cinar/indicator/v2/trend"
	"github.com/cinar/indicator/v2/volume"

	"verif/harness/internal/mon"
	"verif/harness/internal/run"
)

// The float32 instantiation of the bounded ratio indicators on bars whose
// price level is large compared with their range (ulp(price) matters against
// high-low) and whose close sits at the high or the low: the ratios of a part
// to its whole must still stay inside their ranges up to float32 rounding.
func c15Float32(cc *run.Case) {
	r := cc.R
	for rep := 0; rep < 30; rep++ {
		n := r.Range(20, 120)
		level := float32(r.PickF(40, 900, 2500, 3800))
		rng := float32(r.PickF(0.01, 0.05, 0.5, 3))
		o, h, l, c, v := make([]float32, n), make([]float32, n), make([]float32, n), make([]float32, n), make([]float32, n)
		for i := 0; i < n; i++ {
			level += float32(r.Norm()) * rng
			if level < 10 {
				level = 10
			}
			l[i] = level
			h[i] = level + rng*float32(r.F())
			switch r.Intn(4) {
			case 0:
				c[i] = h[i]
			case 1:
				c[i] = l[i]
			default:
				c[i] = l[i] + (h[i]-l[i])*float32(r.F())
			}
			o[i] = l[i] + (h[i]-l[i])*float32(r.F())
			v[i] = float32(r.Range(1, 5000))
		}
		p := r.Range(1, 12)
		type out struct {
			name   string
			vals   []float32
			lo, hi float32
		}
		run1 := func(ins [][]float32, f func(in []<-chan float32) []<-chan float32) [][]float32 {
			return mon.RunSimple(ins, f)
		}
		cmf := volume.NewCmf[float32]()
		cmf.Sum = trend.NewMovingSumWithPeriod[float32](p)
		cmfIn := func(in []<-chan float32) []<-chan float32 {
			return []<-chan float32{cmf.Compute(in[0], in[1], in[2], in[3])}
		}
		so := momentum.NewStochasticOscillator[float32]()
		outs := []out{
			{"volume.Mfm[float32]", run1([][]float32{h, l, c}, func(in []<-chan float32) []<-chan float32 {
				return []<-chan float32{volume.NewMfm[float32]().Compute(in[0], in[1], in[2])}
			})[0], -1, 1},
			{"volume.Cmf[float32]", run1([][]float32{h, l, c, v}, cmfIn)[0], -1, 1},
			{"trend.Bop[float32]", run1([][]float32{o, h, l, c}, func(in []<-chan float32) []<-chan float32 {
				return []<-chan float32{trend.NewBop[float32]().Compute(in[0], in[1], in[2], in[3])}
			})[0], -1, 1},
			{"momentum.WilliamsR[float32]", run1([][]float32{h, l, c}, func(in []<-chan float32) []<-chan float32 {
				return []<-chan float32{momentum.NewWilliamsR[float32]().Compute(in[0], in[1], in[2])}
			})[0], -100, 0},
			{"momentum.StochasticOscillator[float32].k", run1([][]float32{h, l, c}, func(in []<-chan float32) []<-chan float32 {
				k, d := so.Compute(in[0], in[1], in[2])
				return []<-chan float32{k, d}
			})[0], 0, 100},
		}
		for _, o := range outs {
			span := float64(o.hi - o.lo)
			for k, x := range o.vals {
				fx := float64(x)
				if math.IsNaN(fx) || math.IsInf(fx, 0) {
					cc.Count("exempt_nonfinite", 1)
					continue // zero range bar: defining denominator is zero
				}
				// float32 rounding of a ratio of part to whole: a few ulps of the range
				if fx < float64(o.lo)-1e-4*span || fx > float64(o.hi)+1e-4*span {
					cc.Viol("", fmt.Sprintf("%s at index %d: value %v outside [%v, %v] on valid bars at price level %v with range %v (period %d)", o.name, k, x, o.lo, o.hi, level, rng, p),
						map[string]any{"highs": h[:min(n, 30)], "lows": l[:min(n, 30)], "closes": c[:min(n, 30)]})
					return
				}
				cc.Count("values_checked", 1)
			}
		}
	}
	cc.Distinct("float32/" + cc.Label)
}
