package props

import (
	"fmt"
	"math"

	"github.com/cinar/indicator/v2/momentum"
	"github.com/cinar/indicator/v2/trend"
	"github.com/cinar/indicator/v2/volume"

	"verif/harness/internal/mon"
	"verif/harness/internal/run"
)

// The float32 instantiation of the bounded ratio indicators on bars whose
// price level is large compared with their range (ulp(price) matters against
// high-low) and whose close sits at the high or the low: the ratios of a part
// to its whole must still stay inside their ranges up to float32 rounding.
func c15Float32(cc *run.Case) {
	r := cc.R
	for rep := 0; rep < 30; rep++ {
		n := r.Range(20, 120)
		level := float32(r.PickF(40, 900, 2500, 3800))
		rng := float32(r.PickF(0.01, 0.05, 0.5, 3))
		o, h, l, c, v := make([]float32, n), make([]float32, n), make([]float32, n), make([]float32, n), make([]float32, n)
		for i := 0; i < n; i++ {
			level += float32(r.Norm()) * rng
			if level < 10 {
				level = 10
			}
			l[i] = level
			h[i] = level + rng*float32(r.F())
			switch r.Intn(4) {
			case 0:
				c[i] = h[i]
			case 1:
				c[i] = l[i]
			default:
				c[i] = l[i] + (h[i]-l[i])*float32(r.F())
			}
			o[i] = l[i] + (h[i]-l[i])*float32(r.F())
			v[i] = float32(r.Range(500, 5000)) // one order of magnitude: the float32 running sums of Cmf keep a residue of the largest term
		}
		p := r.Range(1, 12)
		type out struct {
			name   string
			vals   []float32
			lo, hi float32
		}
		run1 := func(ins [][]float32, f func(in []<-chan float32) []<-chan float32) [][]float32 {
			return mon.RunSimple(ins, f)
		}
		cmf := volume.NewCmf[float32]()
		cmf.Sum = trend.NewMovingSumWithPeriod[float32](p)
		cmfIn := func(in []<-chan float32) []<-chan float32 {
			return []<-chan float32{cmf.Compute(in[0], in[1], in[2], in[3])}
		}
		so := momentum.NewStochasticOscillator[float32]()
		outs := []out{
			{"volume.Mfm[float32]", run1([][]float32{h, l, c}, func(in []<-chan float32) []<-chan float32 {
				return []<-chan float32{volume.NewMfm[float32]().Compute(in[0], in[1], in[2])}
			})[0], -1, 1},
			{"volume.Cmf[float32]", run1([][]float32{h, l, c, v}, cmfIn)[0], -1, 1},
			{"trend.Bop[float32]", run1([][]float32{o, h, l, c}, func(in []<-chan float32) []<-chan float32 {
				return []<-chan float32{trend.NewBop[float32]().Compute(in[0], in[1], in[2], in[3])}
			})[0], -1, 1},
			{"momentum.WilliamsR[float32]", run1([][]float32{h, l, c}, func(in []<-chan float32) []<-chan float32 {
				return []<-chan float32{momentum.NewWilliamsR[float32]().Compute(in[0], in[1], in[2])}
			})[0], -100, 0},
			{"momentum.StochasticOscillator[float32].k", run1([][]float32{h, l, c}, func(in []<-chan float32) []<-chan float32 {
				k, d := so.Compute(in[0], in[1], in[2])
				return []<-chan float32{k, d}
			})[0], 0, 100},
		}
		for _, o := range outs {
			span := float64(o.hi - o.lo)
			for k, x := range o.vals {
				fx := float64(x)
				if math.IsNaN(fx) || math.IsInf(fx, 0) {
					cc.Count("exempt_nonfinite", 1)
					continue // zero range bar: defining denominator is zero
				}
				// float32 rounding of a ratio of part to whole: a few ulps of the range
				if fx < float64(o.lo)-1e-4*span || fx > float64(o.hi)+1e-4*span {
					cc.Viol("", fmt.Sprintf("%s at index %d: value %v outside [%v, %v] on valid bars at price level %v with range %v (period %d)", o.name, k, x, o.lo, o.hi, level, rng, p),
						map[string]any{"highs": h[:min(n, 30)], "lows": l[:min(n, 30)], "closes": c[:min(n, 30)]})
					return
				}
				cc.Count("values_checked", 1)
			}
		}
	}
	cc.Distinct("float32/" + cc.Label)
}

// c15Float32Huge: the same ratios on float32 bars near the top of the type's
// range (prices up to 3e37, ranges of 5-40% of the price). The documented
// formulas divide before they scale, so nothing overflows: wherever the
// float64 instantiation yields a finite value on the same bars, the float32
// one must be finite too and inside the range.
func c15Float32Huge(cc *run.Case) {
	r := cc.R
	for rep := 0; rep < 20; rep++ {
		n := r.Range(20, 80)
		level := r.PickF(1e30, 1e36, 1e37, 3e37)
		rel := r.PickF(0.05, 0.2, 0.4)
		h32, l32, c32 := make([]float32, n), make([]float32, n), make([]float32, n)
		h64, l64, c64 := make([]float64, n), make([]float64, n), make([]float64, n)
		for i := 0; i < n; i++ {
			lo := level * (1 + 0.1*r.Norm()*rel)
			if lo < level/4 {
				lo = level / 4
			}
			if lo > 3e37 {
				lo = 3e37
			}
			hi := lo * (1 + rel*r.F())
			l32[i], h32[i] = float32(lo), float32(hi)
			if h32[i] < l32[i] {
				h32[i] = l32[i]
			}
			c32[i] = l32[i] + (h32[i]-l32[i])*float32(r.F())
			if c32[i] > h32[i] {
				c32[i] = h32[i]
			}
			h64[i], l64[i], c64[i] = float64(h32[i]), float64(l32[i]), float64(c32[i])
		}
		type pair struct {
			name   string
			a      []float32
			b      []float64
			lo, hi float64
		}
		so32, so64 := momentum.NewStochasticOscillator[float32](), momentum.NewStochasticOscillator[float64]()
		k32 := mon.RunSimple([][]float32{h32, l32, c32}, func(in []<-chan float32) []<-chan float32 {
			k, d := so32.Compute(in[0], in[1], in[2])
			return []<-chan float32{k, d}
		})
		k64 := mon.RunSimple([][]float64{h64, l64, c64}, func(in []<-chan float64) []<-chan float64 {
			k, d := so64.Compute(in[0], in[1], in[2])
			return []<-chan float64{k, d}
		})
		w32 := mon.RunSimple([][]float32{h32, l32, c32}, func(in []<-chan float32) []<-chan float32 {
			return []<-chan float32{momentum.NewWilliamsR[float32]().Compute(in[0], in[1], in[2])}
		})
		w64 := mon.RunSimple([][]float64{h64, l64, c64}, func(in []<-chan float64) []<-chan float64 {
			return []<-chan float64{momentum.NewWilliamsR[float64]().Compute(in[0], in[1], in[2])}
		})
		m32 := mon.RunSimple([][]float32{h32, l32, c32}, func(in []<-chan float32) []<-chan float32 {
			return []<-chan float32{volume.NewMfm[float32]().Compute(in[0], in[1], in[2])}
		})
		m64 := mon.RunSimple([][]float64{h64, l64, c64}, func(in []<-chan float64) []<-chan float64 {
			return []<-chan float64{volume.NewMfm[float64]().Compute(in[0], in[1], in[2])}
		})
		for _, p := range []pair{
			{"momentum.StochasticOscillator[float32].k", k32[0], k64[0], 0, 100},
			{"momentum.StochasticOscillator[float32].d", k32[1], k64[1], 0, 100},
			{"momentum.WilliamsR[float32]", w32[0], w64[0], -100, 0},
			{"volume.Mfm[float32]", m32[0], m64[0], -1, 1},
		} {
			if len(p.a) != len(p.b) {
				cc.Viol("", fmt.Sprintf("%s emits %d values, the float64 instantiation %d on the same bars", p.name, len(p.a), len(p.b)), nil)
				return
			}
			span := p.hi - p.lo
			for k := range p.a {
				x, y := float64(p.a[k]), p.b[k]
				if math.IsNaN(y) || math.IsInf(y, 0) {
					cc.Count("exempt_nonfinite", 1)
					continue
				}
				if math.IsNaN(x) || math.IsInf(x, 0) || x < p.lo-1e-3*span || x > p.hi+1e-3*span {
					cc.Viol("", fmt.Sprintf("%s at index %d: value %v on valid bars at price level %.3g (ranges of %.0f%%): the float64 instantiation gives %v on the same bars, the documented formula does not overflow there", p.name, k, p.a[k], level, rel*100, y),
						map[string]any{"highs": h32[:min(n, 30)], "lows": l32[:min(n, 30)], "closes": c32[:min(n, 30)]})
					return
				}
				cc.Count("values_checked", 1)
			}
		}
	}
	cc.Distinct("float32huge/" + cc.Label)
}
