package props

import (
	"fmt"
	"reflect"
	"sync"
	"time"

	"github.com/cinar/indicator/v2/asset"
	"github.com/cinar/indicator/v2/helper"
	"github.com/cinar/indicator/v2/momentum"
	"github.com/cinar/indicator/v2/strategy"
	"github.com/cinar/indicator/v2/trend"

	"verif/harness/internal/gen"
	"verif/harness/internal/reg"
	"verif/harness/internal/run"
)

// Stalled parties. The schedules of the other cases pace producers and
// consumers by yielding, never by the clock; here ONE reader (or the producer)
// really stops for longer than a second in the middle of the stream while
// everything else keeps going. The clock is a stimulus only: the verdict is
// that every output is what the eager run delivered, complete and in order.
// All pipelines of the case stall at the same time, so the case costs one
// stall, not one per pipeline.

const stallFor = 1250 * time.Millisecond

func collectStalled[O any](outs []<-chan O, stallIdx int) [][]O {
	res := make([][]O, len(outs))
	var wg sync.WaitGroup
	for j := range outs {
		wg.Add(1)
		go func(j int) {
			defer wg.Done()
			k := 0
			for v := range outs[j] {
				res[j] = append(res[j], v)
				k++
				if j == stallIdx && k == 3 {
					time.Sleep(stallFor)
				}
			}
		}(j)
	}
	wg.Wait()
	return res
}

func feedStalled[I any](xs []I, stall bool) <-chan I {
	c := make(chan I)
	go func() {
		defer close(c)
		for i, x := range xs {
			if stall && i == 5 {
				time.Sleep(stallFor)
			}
			c <- x
		}
	}()
	return c
}

type stallPipe struct {
	name string
	nOut int
	// run builds the pipeline over fresh inputs and collects it; stallIdx < 0:
	// nobody stalls; stallIdx == nOut: the producer stalls.
	run func(stallIdx int) [][]string
}

func strs[O any](outs [][]O) [][]string {
	res := make([][]string, len(outs))
	for j := range outs {
		for _, v := range outs[j] {
			res[j] = append(res[j], fmt.Sprint(v))
		}
	}
	return res
}

func c03Stalled(cc *run.Case) {
	n := 60
	bars := gen.Bars(cc.R, gen.Walk, n)
	snaps := reg.Snaps(bars)
	closes := reg.Col(snaps, 'c')
	highs, lows := reg.Col(snaps, 'h'), reg.Col(snaps, 'l')
	pipes := []stallPipe{
		{"helper.Duplicate(c, 3)", 3, func(s int) [][]string {
			return strs(collectStalled(helper.Duplicate(feedStalled(closes, s == 3), 3), s))
		}},
		{"strategy.ComputeWithOutcome(BuyAndHold)", 2, func(s int) [][]string {
			a, o := strategy.ComputeWithOutcome(strategy.NewBuyAndHoldStrategy(), feedStalled(snaps, s == 2))
			var wg sync.WaitGroup
			var as [][]strategy.Action
			var os [][]float64
			wg.Add(2)
			go func() { defer wg.Done(); as = collectStalled([]<-chan strategy.Action{a}, map[bool]int{true: 0, false: -1}[s == 0]) }()
			go func() { defer wg.Done(); os = collectStalled([]<-chan float64{o}, map[bool]int{true: 0, false: -1}[s == 1]) }()
			wg.Wait()
			return append(strs(as), strs(os)...)
		}},
		{"trend.Macd (5,9,4)", 2, func(s int) [][]string {
			m := trend.NewMacdWithPeriod[float64](5, 9, 4)
			a, b := m.Compute(feedStalled(closes, s == 2))
			return strs(collectStalled([]<-chan float64{a, b}, s))
		}},
		{"momentum.IchimokuCloud (default)", 5, func(s int) [][]string {
			i := momentum.NewIchimokuCloud[float64]()
			a, b, c, d, e := i.Compute(feedStalled(highs, s == 5), feedStalled(lows, false), feedStalled(closes, false))
			return strs(collectStalled([]<-chan float64{a, b, c, d, e}, s))
		}},
		{"strategy.AndStrategy(MacdStrategy, BuyAndHold) with outcome", 2, func(s int) [][]string {
			st := strategy.NewAndStrategy("and", strategy.NewBuyAndHoldStrategy(), strategy.NewBuyAndHoldStrategy())
			a, o := strategy.ComputeWithOutcome(st, feedStalled(snaps, s == 2))
			var wg sync.WaitGroup
			var as [][]strategy.Action
			var os [][]float64
			wg.Add(2)
			go func() { defer wg.Done(); as = collectStalled([]<-chan strategy.Action{a}, map[bool]int{true: 0, false: -1}[s == 0]) }()
			go func() { defer wg.Done(); os = collectStalled([]<-chan float64{o}, map[bool]int{true: 0, false: -1}[s == 1]) }()
			wg.Wait()
			return append(strs(as), strs(os)...)
		}},
		{"asset.SnapshotsAsClosings + helper.Sma chain", 1, func(s int) [][]string {
			c := asset.SnapshotsAsClosings(feedStalled(snaps, s == 1))
			out := trend.NewSmaWithPeriod[float64](4).Compute(helper.Buffered(c, 2))
			return strs(collectStalled([]<-chan float64{out}, s))
		}},
	}
	type job struct {
		p    stallPipe
		s    int
		want [][]string
		got  [][]string
	}
	var jobs []*job
	for _, p := range pipes {
		want := p.run(-1)
		for s := 0; s <= p.nOut; s++ {
			jobs = append(jobs, &job{p: p, s: s, want: want})
		}
	}
	var wg sync.WaitGroup
	for _, j := range jobs {
		wg.Add(1)
		go func(j *job) { defer wg.Done(); j.got = j.p.run(j.s) }(j)
	}
	wg.Wait()
	for _, j := range jobs {
		who := fmt.Sprintf("the reader of output %d", j.s)
		if j.s == j.p.nOut {
			who = "the producer"
		}
		cc.Count("stalled_party_runs", 1)
		if !reflect.DeepEqual(j.got, j.want) {
			lens := func(x [][]string) []int {
				l := make([]int, len(x))
				for i := range x {
					l[i] = len(x[i])
				}
				return l
			}
			cc.Viol("", fmt.Sprintf("%s: when %s stops for %v in mid-stream the outputs differ from the eager run (lengths %v, eager %v)", j.p.name, who, stallFor, lens(j.got), lens(j.want)),
				map[string]any{"pipeline": j.p.name, "stalled": who, "n": n, "eager": j.want, "stalled_run": j.got})
			return
		}
	}
	cc.Distinct("stalled/" + cc.Label)
}
