package props

import (
	"fmt"
	strend "github.com/cinar/indicator/v2/strategy/trend"
	"reflect"
	"strings"

	"github.com/cinar/indicator/v2/strategy"

	"verif/harness/internal/gen"
	"verif/harness/internal/reg"
	"verif/harness/internal/run"
)

func init() { All["C06"] = c06 }

// codeReading lists deviation models that are NOT findings: the doc comment
// is too loose to decide, so the coded rule is the reference (a regression
// guard). See DESIGN.md Appendix B.
var codeReading = map[string]string{
	// "A MACD value crossing above the signal line suggests a bullish trend":
	// the code additionally requires MACD < 0 for Buy and > 0 for Sell.
	"trend.MacdStrategy": "macd-strategy-zero-side-filter",
}

func c06Check(cc *run.Case, ns namedStrat, class string, n int) {
	row := ns.Row
	snaps := reg.Snaps(c01Bars(cc.R, class, n))
	cc.Desc(map[string]any{"strategy": ns.Name, "class": class, "n": n, "w_s": ns.Warm})
	inst := ns.New()
	if n == 251 {
		// The instance under test has already served another series (as a
		// backtest over several assets does): the rule must still hold.
		runStrat(inst, reg.Snaps(gen.Bars(cc.R, gen.Walk, ns.Warm+25)))
		cc.Count("reused_instance_runs", 1)
	}
	actual := runStrat(inst, snaps)
	cc.Count("runs", 1)
	cc.Count("cmp:"+row.Name, 1)
	want := row.Rule(ns.New(), snaps)
	rc := compareRule(actual, want)
	detail := func() map[string]any {
		bars := make([][5]float64, 0, min(len(snaps), 60))
		for _, s := range snaps[:min(len(snaps), 60)] {
			bars = append(bars, [5]float64{s.Open, s.High, s.Low, s.Close, s.Volume})
		}
		wa := make([]int, len(want))
		for i, w := range want {
			wa[i] = int(w.A)
			if w.Exempt {
				wa[i] = 9
			}
		}
		return map[string]any{"strategy": ns.Name, "class": class, "n": n, "w_s": ns.Warm, "ohlcv_head": bars, "actual": fmt.Sprint(actual), "documented_rule(9=exempt)": fmt.Sprint(wa), "first_mismatch": rc.FirstBad}
	}
	record := func(ok ruleCmp) {
		cc.Count("positions_compared", int64(ok.Compared))
		cc.Count("positions_exempt", int64(ok.Exempt))
		cc.Count("buys:"+row.Name, int64(ok.Buys))
		cc.Count("sells:"+row.Name, int64(ok.Sells))
		if ok.Buys+ok.Sells > 0 && ok.Compared > 0 {
			cc.Distinct(fmt.Sprintf("%s/%s/%d", ns.Name, class, n))
		}
	}
	if code, ok := codeReading[row.Name]; ok {
		for _, d := range row.Devs {
			if d.Key == code {
				want = d.Rule(ns.New(), snaps)
				rc = compareRule(actual, want)
			}
		}
	}
	if rc.Bad == 0 && rc.LenDiff == 0 {
		record(rc)
		return
	}
	if rc.Bad == 0 && rc.LenDiff != 0 {
		// The number of actions is C05's business; here only the rule on the
		// common positions counts.
		record(rc)
		return
	}
	for _, d := range row.Devs {
		if _, isCode := codeReading[row.Name]; isCode {
			continue
		}
		dc := compareRule(actual, d.Rule(ns.New(), snaps))
		if dc.Bad == 0 && dc.LenDiff == 0 {
			record(dc)
			cc.Viol(row.Name+":"+d.Key, fmt.Sprintf("%s does not apply its documented rule; the actions equal deviation model %q: %s", ns.Name, d.Key, d.What), detail())
			return
		}
	}
	a, w := strategy.Hold, strategy.Hold
	if rc.FirstBad >= 0 {
		a, w = actual[rc.FirstBad], want[rc.FirstBad].A
	}
	cc.Viol("", fmt.Sprintf("%s on %s series (n=%d): action at snapshot %d is %d, the documented rule applied to the strategy's own indicator on the documented fields gives %d; %d of %d compared positions differ",
		ns.Name, class, n, rc.FirstBad, a, w, rc.Bad, rc.Compared), detail())
}

// c06Ctors: the parameterless constructors that the registry rows do not use
// must give what the documented defaults give.
func c06Ctors(ctx *run.Ctx) {
	ctx.Case("ctor/trend.EnvelopeStrategy", func(cc *run.Case) {
		row := reg.StratByName("trend.EnvelopeStrategy")
		snaps := reg.Snaps(gen.Bars(cc.R, gen.Spike, 251)) // outliers: the default 20 % envelope is left now and then
		got, want := runStrat(strend.NewEnvelopeStrategy(), snaps), runStrat(row.New(row.Default), snaps)
		if !eqActions(got, want) {
			cc.Viol("", "trend.NewEnvelopeStrategy(): its actions differ from an EnvelopeStrategy configured with the documented defaults (SMA, DefaultEnvelopePeriod, DefaultEnvelopePercentage)", nil)
			return
		}
		if a, b := strend.NewEnvelopeStrategy().Name(), row.New(row.Default).Name(); a != b {
			cc.Viol("", fmt.Sprintf("trend.NewEnvelopeStrategy() is named %q, the documented defaults give %q", a, b), nil)
		}
		cc.Count("default_constructors_checked", 1)
	})
	ctx.Case("ctor/strategy.MajorityStrategy", func(cc *run.Case) {
		snaps := reg.Snaps(gen.Bars(cc.R, gen.Walk2, 120))
		subs := func() []strategy.Strategy {
			return []strategy.Strategy{strend.NewMacdStrategy(), strategy.NewBuyAndHoldStrategy(), strend.NewBopStrategy()}
		}
		m := strategy.NewMajorityStrategy("m")
		m.Strategies = subs()
		got, want := runStrat(m, snaps), runStrat(strategy.NewMajorityStrategyWith("m", subs()), snaps)
		if !eqActions(got, want) {
			cc.Viol("", "strategy.NewMajorityStrategy(name) with its Strategies field filled gives other actions than NewMajorityStrategyWith(name, the same strategies)", nil)
			return
		}
		cc.Count("default_constructors_checked", 1)
	})
}

// c06Smoothing: the smoothing constants of the moving averages inside a
// strategy are public configuration. A strategy that rebuilds its averages
// from the periods alone loses them; the reference-free consequence checked
// here is that changing one changes the recommendations on at least one of
// four long, volatile series (an EMA with smoothing 3.25 instead of 2 weighs
// the newest value 1.6 times as much: its crossings move).
func c06Smoothing(ctx *run.Ctx) {
	for _, row := range reg.SortedStrats() {
		row := row
		ctx.Case("smoothing/"+row.Name, func(cc *run.Case) {
			// short periods (a fixed random configuration of the row, periods <= 12):
			// the averages are warm after a few bars and cross often
			cfg := row.Rand(gen.New(11, "smoothing-cfg/"+row.Name))
			var fields []floatField
			collectFloatFields(reflect.ValueOf(row.New(cfg)), "", 0, &fields)
			n := 0
			for fi := range fields {
				if !strings.HasSuffix(fields[fi].path, "Smoothing") {
					continue
				}
				differing := 0
				for k := 0; k < 8; k++ {
					snaps := reg.Snaps(gen.Bars(gen.New(ctx.Seed, fmt.Sprintf("smoothing/%d", k)), gen.Walk, 600))
					base := runStrat(row.New(cfg), snaps)
					for _, f := range []func(float64) float64{func(x float64) float64 { return x*1.5 + 0.25 }, func(x float64) float64 { return x * 0.4 }} {
						inst := row.New(cfg)
						var fs []floatField
						collectFloatFields(reflect.ValueOf(inst), "", 0, &fs)
						if fi >= len(fs) || fs[fi].path != fields[fi].path {
							differing = 1 << 20
							continue
						}
						fs[fi].v.SetFloat(f(fs[fi].v.Float()))
						alt := runStrat(inst, snaps)
						for i := range base {
							if i >= len(alt) || alt[i] != base[i] {
								differing++
							}
						}
					}
				}
				n++
				cc.Count("public_smoothing_fields_probed", 1)
				cc.Count("smoothing_differing:"+row.Name+"."+fields[fi].path, int64(differing))
				if differing == 0 {
					cc.Viol("", fmt.Sprintf("%s %v: changing the public field %s (x1.5+0.25, x0.4) changes not one recommendation on eight 600-bar series: the strategy ignores that part of its configuration", row.Name, cfg, fields[fi].path), map[string]any{"strategy": row.Name, "field": fields[fi].path})
					return
				}
			}
			if n > 0 {
				cc.Distinct("smoothing/" + row.Name)
			}
		})
	}
}

func c06(ctx *run.Ctx) {
	c06Ctors(ctx)
	c06Smoothing(ctx)
	base := baseStrats(ctx, ctx.Pick(8, 60))
	classes := []string{gen.Walk, gen.Walk2, gen.Dyadic, gen.Ties, gen.Degen, gen.Halt, "tiny"}
	if !ctx.Quick() {
		classes = append(append([]string(nil), gen.OHLCVClasses...), gen.Halt, "tiny", "huge")
	}
	for _, row := range reg.SortedStrats() {
		ctx.Count("cmp:"+row.Name, 0)
	}
	reps := ctx.Pick(1, 5)
	for si, ns := range base {
		ns := ns
		for _, class := range classes {
			class := class
			for rep := 0; rep < reps; rep++ {
				for _, n := range []int{ns.Warm + 40, 251} {
					n := n
					ctx.Case(fmt.Sprintf("strat/%d/%s/n%d/r%d", si, class, n, rep), func(cc *run.Case) {
						c06Check(cc, ns, class, n)
						if cc.WantSample() && si%11 == 5 && class == gen.Walk2 {
							cc.Sample(map[string]any{"strategy": ns.Name, "class": class, "n": n, "oracle": "documented rule on the strategy's own indicator instance over the documented fields, aligned by IdlePeriod()"})
						}
					})
				}
			}
		}
	}
}
