package props

import (
	"bytes"
	"encoding/csv"
	"fmt"
	"io"
	"math"
	"os"
	"path/filepath"
	"reflect"
	"strconv"
	"strings"
	"sync"
	"time"

	"github.com/cinar/indicator/v2/asset"
	"github.com/cinar/indicator/v2/helper"

	"verif/harness/internal/gen"
	"verif/harness/internal/run"
)

func init() { All["C11"] = c11 }

// Row structs covering every supported field kind.
type rowAll struct {
	S   string
	B   bool
	I   int
	I8  int8
	I16 int16
	I32 int32
	I64 int64
	U   uint
	U8  uint8
	U16 uint16
	U32 uint32
	U64 uint64
	F32 float32
	F64 float64
	T   time.Time
	D   time.Time `format:"2006-01-02"`
	H   string    `header:"Custom Header"`
}

type rowTwo struct {
	A string `header:"first"`
	B string `header:"second,with comma"`
}

type rowNum struct {
	Id  int64
	Val float64
	Ok  bool
}

type rowTimes struct {
	Stamp time.Time `format:"2006-01-02T15:04:05.000000000Z07:00"`
	Day   time.Time `format:"02/01/2006"`
	Note  string
}

type rowOne struct {
	Only string
}

// a tagged time field BEFORE an untagged one (each field has its own format)
type rowTimes2 struct {
	Day   time.Time `format:"2006-01-02"`
	Stamp time.Time
	N     int
	Again time.Time `format:"02 Jan 06 15:04"`
	Last  time.Time
}

// two date columns whose formats read the same text differently (month first,
// day first): each column goes by its own format, whatever text another one
// has just read
type rowTrade struct {
	Trade  time.Time `format:"01/02/2006"`
	Settle time.Time `format:"02/01/2006"`
	Qty    int
}

// Named types of the supported kinds, all of which print differently from
// their underlying value (fmt.Stringer): the codec goes by kind.
type (
	enumI8  int8
	flagB   bool
	codeU16 uint16
	label   string
	pctF    float64
)

func (e enumI8) String() string  { return "enum#" + strconv.Itoa(int(e)) }
func (f flagB) String() string   { return map[flagB]string{true: "on", false: "off"}[f] }
func (c codeU16) String() string { return fmt.Sprintf("0x%04x", uint16(c)) }
func (l label) String() string   { return "<" + string(l) + ">" }
func (p pctF) String() string    { return strconv.FormatFloat(float64(p)*100, 'f', 1, 64) + "%" }

type rowNamed struct {
	Dur  time.Duration
	Mon  time.Month
	Day  time.Weekday
	E    enumI8
	F    flagB
	C    codeU16
	L    label
	P    pctF
	When time.Time `format:"2006-01-02"`
}

var hostileStrings = []string{"'=A1'", "'-3 on the day' said the desk", "'+x", "'@y", "=1+1", "-5", "+a", "@b", "''", "'", `C:\u0026\data`, `a\u003cb\u003e`, `<b>&amp;</b>`, `back\nslash`, `\\`, `#N/A`, `#comment,with comma`, "", " ", "a,b", `say "hi"`, "  padded  ", "line\nbreak", "tab\there", "ünïcödé ✓", "\"", ",", "\n", "lone\rcr", "trailing,", "'single'", "0", "true", "#comment", "x\x00y", "\ufeffbom"}

var stringAlphabet = []rune("abcXYZ019 ,\"\n;:-_/\\é")

func randString(r *gen.Rand) string {
	if r.Intn(3) == 0 {
		return hostileStrings[r.Intn(len(hostileStrings))]
	}
	n := r.Range(0, 12)
	var sb strings.Builder
	for i := 0; i < n; i++ {
		sb.WriteRune(stringAlphabet[r.Intn(len(stringAlphabet))])
	}
	return sb.String()
}

func randInt(r *gen.Rand, bits int) int64 {
	lim := int64(1)<<(bits-1) - 1
	switch r.Intn(5) {
	case 0:
		return lim
	case 1:
		return -lim - 1
	case 2:
		return 0
	}
	v := int64(r.U64())
	if bits < 64 {
		v %= lim + 1
	}
	return v
}

func randUint(r *gen.Rand, bits int) uint64 {
	max := ^uint64(0)
	if bits < 64 {
		max = uint64(1)<<bits - 1
	}
	switch r.Intn(4) {
	case 0:
		return max
	case 1:
		return 0
	}
	return r.U64() & max
}

func randFloat(r *gen.Rand) float64 {
	switch r.Intn(6) {
	case 0:
		return []float64{math.MaxFloat64, -math.MaxFloat64, math.SmallestNonzeroFloat64, math.Inf(1), math.Inf(-1), 0, math.Copysign(0, -1), 0.1, 1e21, 1e-7}[r.Intn(10)]
	case 1:
		return math.Float64frombits(r.U64()&^(0x7ff<<52) | uint64(r.Range(0, 2046))<<52)
	}
	return r.FRange(-1e6, 1e6)
}

func randTime(r *gen.Rand, whole bool) time.Time {
	y := r.Pick(1, 1970, 1999, 2000, 2024, 9999, r.Range(1900, 2100))
	// every third time is kept in a zone other than UTC: a format without a zone
	// writes the wall clock of THAT zone (and reads it back as UTC), a format
	// with an offset preserves the instant
	loc := time.UTC
	if r.Intn(3) == 0 {
		loc = time.FixedZone("", r.Pick(-5, 1, 9, -9)*3600+r.Pick(0, 0, 1800))
	}
	t := time.Date(y, time.Month(r.Range(1, 12)), r.Range(1, 28), 0, 0, 0, 0, loc)
	if !whole {
		t = t.Add(time.Duration(r.Range(0, 86399)) * time.Second)
	}
	return t
}

func genRowAll(r *gen.Rand) *rowAll {
	return &rowAll{
		S: randString(r), B: r.Bool(), I: int(randInt(r, 64)), I8: int8(randInt(r, 8)), I16: int16(randInt(r, 16)), I32: int32(randInt(r, 32)), I64: randInt(r, 64),
		U: uint(randUint(r, 64)), U8: uint8(randUint(r, 8)), U16: uint16(randUint(r, 16)), U32: uint32(randUint(r, 32)), U64: randUint(r, 64),
		F32: float32(randFloat(r)), F64: randFloat(r), T: randTime(r, false), D: randTime(r, true), H: randString(r),
	}
}

func genRowNamed(r *gen.Rand) *rowNamed {
	return &rowNamed{Dur: time.Duration(randInt(r, 64)), Mon: time.Month(randInt(r, 64)), Day: time.Weekday(r.Range(-3, 9)), E: enumI8(randInt(r, 8)), F: flagB(r.Bool()),
		C: codeU16(randUint(r, 16)), L: label(randString(r)), P: pctF(randFloat(r)), When: randTime(r, true)}
}

// sameRow compares two rows field by field: ints exact, floats by bits
// (NaN == NaN), strings byte-wise, times by Equal and by formatted text.
func sameRow(a, b any) string {
	va, vb := reflect.ValueOf(a).Elem(), reflect.ValueOf(b).Elem()
	for i := 0; i < va.NumField(); i++ {
		fa, fb := va.Field(i), vb.Field(i)
		name := va.Type().Field(i).Name
		switch fa.Kind() {
		case reflect.Float32, reflect.Float64:
			x, y := fa.Float(), fb.Float()
			if math.Float64bits(x) != math.Float64bits(y) && !(math.IsNaN(x) && math.IsNaN(y)) {
				return fmt.Sprintf("field %s: wrote %x (%v), read %x (%v)", name, math.Float64bits(x), x, math.Float64bits(y), y)
			}
		case reflect.Struct:
			ta, tb := fa.Interface().(time.Time), fb.Interface().(time.Time)
			format := va.Type().Field(i).Tag.Get("format")
			if format == "" {
				format = helper.DefaultDateTimeFormat
			}
			if strings.Contains(format, "Z07") || strings.Contains(format, "-07") {
				if !ta.Equal(tb) {
					return fmt.Sprintf("field %s: wrote %v, read %v", name, ta, tb)
				}
			} else if ta.Format(format) != tb.Format(format) { // the declared format keeps the wall clock only
				return fmt.Sprintf("field %s: wrote %v (%s in the declared format), read %v (%s)", name, ta, ta.Format(format), tb, tb.Format(format))
			}
		default:
			if !reflect.DeepEqual(fa.Interface(), fb.Interface()) {
				return fmt.Sprintf("field %s: wrote %#v, read %#v", name, fa.Interface(), fb.Interface())
			}
		}
	}
	return ""
}

func sameRows[T any](got []*T, want []*T) string {
	if len(got) != len(want) {
		return fmt.Sprintf("%d rows read, %d expected", len(got), len(want))
	}
	for i := range got {
		if m := sameRow(want[i], got[i]); m != "" {
			return fmt.Sprintf("row %d: %s", i, m)
		}
	}
	return ""
}

func describeRows[T any](rows []*T) []string {
	out := make([]string, 0, len(rows))
	for _, r := range rows {
		out = append(out, fmt.Sprintf("%+q", fmt.Sprintf("%v", *r)))
	}
	return out
}

// csvFileHistory applies a random sequence of write / append /
// append-or-write calls to one file and compares the file's contents, read
// back through the codec, with a list model after every step.
func csvFileHistory[T any](cc *run.Case, typ string, genRow func(*gen.Rand) *T, hasHeader bool) bool {
	r := cc.R
	dir, err := os.MkdirTemp("", "verif-c11-")
	if err != nil {
		cc.Inconclusive(err.Error())
		return false
	}
	defer os.RemoveAll(dir)
	file := filepath.Join(dir, "rows.csv")
	var model []*T
	exists := false
	var hist []string
	// Sometimes the file exists with a length of zero before the first call (a
	// placeholder someone created): WriteToFile and AppendOrWriteToCsvFile must
	// treat it like a missing file. AppendToFile is not used on it while it is
	// empty (with a header codec it is documented to add rows only).
	emptyExisting := false
	if r.Intn(4) == 0 {
		if err := os.WriteFile(file, nil, 0o600); err == nil {
			emptyExisting = true
			hist = append(hist, "pre-existing zero-length file")
		}
	}
	fail := func(msg string) bool {
		cc.Viol("", fmt.Sprintf("Csv[%s] hasHeader=%v: %s", typ, hasHeader, msg), map[string]any{"type": typ, "hasHeader": hasHeader, "history": hist, "model_rows": describeRows(model)})
		return false
	}
	c, err := helper.NewCsv[T](hasHeader)
	if err != nil {
		return fail("NewCsv: " + err.Error())
	}
	steps := r.Range(2, 6)
	prevLen := 0
	for step := 0; step < steps; step++ {
		n := r.Range(0, 6)
		op := r.Intn(3)
		if step == 1 && prevLen > 1 {
			op, n = 0, r.Range(0, prevLen-1) // a longer file overwritten by a shorter one
		}
		if emptyExisting && op == 1 {
			op = 2
		}
		emptyExisting = false
		rows := make([]*T, n)
		for i := range rows {
			rows[i] = genRow(r)
		}
		switch op {
		case 0:
			hist = append(hist, fmt.Sprintf("WriteToFile(%d rows)", n))
			if err := c.WriteToFile(file, helper.SliceToChan(rows)); err != nil {
				return fail("WriteToFile: " + err.Error())
			}
			model, exists = rows, true
		case 1:
			hist = append(hist, fmt.Sprintf("AppendToFile(%d rows)", n))
			err := c.AppendToFile(file, helper.SliceToChan(rows))
			if !exists {
				if err == nil {
					return fail("AppendToFile on a missing file returned no error")
				}
				continue
			}
			if err != nil {
				return fail("AppendToFile: " + err.Error())
			}
			model = append(append([]*T(nil), model...), rows...)
		default:
			hist = append(hist, fmt.Sprintf("AppendOrWriteToCsvFile(%d rows)", n))
			if err := helper.AppendOrWriteToCsvFile(file, hasHeader, helper.SliceToChan(rows)); err != nil {
				return fail("AppendOrWriteToCsvFile: " + err.Error())
			}
			// an existing non-empty file is appended to; a missing or empty one is
			// written, which for the list model is the same as appending to nothing
			if exists {
				model = append(append([]*T(nil), model...), rows...)
			} else {
				model = rows
			}
			exists = true
		}
		prevLen = len(model)
		in, err := c.ReadFromFile(file)
		if err != nil {
			return fail("ReadFromFile: " + err.Error())
		}
		got := helper.ChanToSlice(in)
		if msg := sameRows(got, model); msg != "" {
			// Signature of the known finding: the row type has a single string
			// column and exactly the rows whose only field is "" are missing.
			if st := reflect.TypeOf((*T)(nil)).Elem(); st.NumField() == 1 && st.Field(0).Type.Kind() == reflect.String {
				var kept []*T
				for _, row := range model {
					if reflect.ValueOf(row).Elem().Field(0).String() != "" {
						kept = append(kept, row)
					}
				}
				if len(kept) < len(model) && sameRows(got, kept) == "" {
					cc.Viol("csv:lone-empty-field", fmt.Sprintf("Csv[%s]: a row whose only field is the empty string is written as an empty line and skipped on read (%d of %d rows lost)", typ, len(model)-len(kept), len(model)),
						map[string]any{"type": typ, "history": hist, "model_rows": describeRows(model)})
					return true
				}
			}
			raw, _ := os.ReadFile(file)
			hist = append(hist, fmt.Sprintf("file now: %q", clipStr(string(raw), 400)))
			return fail("after " + hist[len(hist)-2] + ": " + msg)
		}
		cc.Count("file_steps", 1)
		cc.Count("rows_compared", int64(len(got)))
	}
	return true
}

func clipStr(s string, n int) string {
	if len(s) > n {
		return s[:n] + "…"
	}
	return s
}

// csvPermuted writes a file with encoding/csv directly, with a permuted
// header and extra columns; the codec must map columns by header name.
func csvPermuted(cc *run.Case) bool {
	r := cc.R
	n := r.Range(0, 6)
	rows := make([]*rowAll, n)
	for i := range rows {
		rows[i] = genRowAll(r)
	}
	headers := []string{"S", "B", "I", "I8", "I16", "I32", "I64", "U", "U8", "U16", "U32", "U64", "F32", "F64", "T", "D", "Custom Header"}
	cols := append([]string(nil), headers...)
	extra := r.Range(0, 3)
	for i := 0; i < extra; i++ {
		cols = append(cols, fmt.Sprintf("extra%d", i))
	}
	// extra columns whose names differ from a real header only in case or in
	// surrounding blanks are other columns (headers are matched by name)
	for _, look := range []string{"s", "f64", " F64", "B ", "custom header", "CUSTOM HEADER", "d", "i64"} {
		if r.Intn(3) == 0 {
			cols = append(cols, look)
		}
	}
	perm := r.Perm(len(cols))
	var buf bytes.Buffer
	w := csv.NewWriter(&buf)
	hdr := make([]string, len(cols))
	for i, p := range perm {
		hdr[i] = cols[p]
	}
	w.Write(hdr)
	for _, row := range rows {
		v := reflect.ValueOf(row).Elem()
		vals := map[string]string{}
		for i, h := range headers {
			f := v.Field(i)
			switch f.Kind() {
			case reflect.Struct:
				format := helper.DefaultDateTimeFormat
				if h == "D" {
					format = "2006-01-02"
				}
				vals[h] = f.Interface().(time.Time).Format(format)
			case reflect.Float32:
				vals[h] = fmtFloat(f.Float(), 32)
			case reflect.Float64:
				vals[h] = fmtFloat(f.Float(), 64)
			default:
				vals[h] = fmt.Sprint(f.Interface())
			}
		}
		rec := make([]string, len(cols))
		for i, p := range perm {
			if val, ok := vals[cols[p]]; ok {
				rec[i] = val
			} else {
				rec[i] = "junk," + randString(r)
			}
		}
		w.Write(rec)
	}
	w.Flush()
	c, _ := helper.NewCsv[rowAll](true)
	got := helper.ChanToSlice(c.ReadFromReader(bytes.NewReader(buf.Bytes())))
	if msg := sameRows(got, rows); msg != "" {
		cc.Viol("", "Csv[rowAll]: reading a file whose header is permuted (and has extra columns): "+msg, map[string]any{"header": hdr, "file": clipStr(buf.String(), 600)})
		return false
	}
	// Sequential reuse of ONE codec across files with different header orders.
	perm2 := r.Perm(len(headers))
	var buf2 bytes.Buffer
	w2 := csv.NewWriter(&buf2)
	hdr2 := make([]string, len(headers))
	for i, p := range perm2 {
		hdr2[i] = headers[p]
	}
	w2.Write(hdr2)
	for _, row := range rows {
		v := reflect.ValueOf(row).Elem()
		rec := make([]string, len(headers))
		for i, p := range perm2 {
			f := v.Field(p)
			switch f.Kind() {
			case reflect.Struct:
				format := helper.DefaultDateTimeFormat
				if headers[p] == "D" {
					format = "2006-01-02"
				}
				rec[i] = f.Interface().(time.Time).Format(format)
			case reflect.Float32:
				rec[i] = fmtFloat(f.Float(), 32)
			case reflect.Float64:
				rec[i] = fmtFloat(f.Float(), 64)
			default:
				rec[i] = fmt.Sprint(f.Interface())
			}
		}
		w2.Write(rec)
	}
	w2.Flush()
	got2 := helper.ChanToSlice(c.ReadFromReader(bytes.NewReader(buf2.Bytes())))
	if msg := sameRows(got2, rows); msg != "" {
		cc.Viol("", "Csv[rowAll]: the same codec value reading a second file with another column order: "+msg, map[string]any{"header1": hdr, "header2": hdr2})
		return false
	}
	// ... a third file that LACKS some of the columns (their fields stay zero):
	// the codec that has read the files above must read it exactly as a fresh
	// codec does - nothing learnt from an earlier header may survive.
	keep := []string{}
	for _, h := range headers {
		if r.Intn(3) > 0 {
			keep = append(keep, h)
		}
	}
	if pk := r.Perm(len(keep)); len(pk) > 0 {
		shuffled := make([]string, len(keep))
		for i, j := range pk {
			shuffled[i] = keep[j]
		}
		keep = shuffled
	}
	var buf3 bytes.Buffer
	w3 := csv.NewWriter(&buf3)
	w3.Write(keep)
	for _, row := range rows {
		v := reflect.ValueOf(row).Elem()
		rec := make([]string, len(keep))
		for i, h := range keep {
			f := v.Field(indexOf(headers, h))
			switch f.Kind() {
			case reflect.Struct:
				format := helper.DefaultDateTimeFormat
				if h == "D" {
					format = "2006-01-02"
				}
				rec[i] = f.Interface().(time.Time).Format(format)
			case reflect.Float32:
				rec[i] = fmtFloat(f.Float(), 32)
			case reflect.Float64:
				rec[i] = fmtFloat(f.Float(), 64)
			default:
				rec[i] = fmt.Sprint(f.Interface())
			}
		}
		w3.Write(rec)
	}
	w3.Flush()
	fresh, _ := helper.NewCsv[rowAll](true)
	want3 := helper.ChanToSlice(fresh.ReadFromReader(bytes.NewReader(buf3.Bytes())))
	got3 := helper.ChanToSlice(c.ReadFromReader(bytes.NewReader(buf3.Bytes())))
	if msg := sameRows(got3, want3); msg != "" {
		cc.Viol("", "Csv[rowAll]: a codec value that has read other files reads a file with fewer columns differently from a fresh codec: "+msg, map[string]any{"header1": hdr, "header2": hdr2, "header3": keep, "file3": clipStr(buf3.String(), 500)})
		return false
	}
	// ... and the same codec value, after having read files in other column
	// orders, must still WRITE rows that a fresh codec reads back identically.
	dir, err := os.MkdirTemp("", "verif-c11p-")
	if err != nil {
		cc.Inconclusive(err.Error())
		return false
	}
	defer os.RemoveAll(dir)
	file := filepath.Join(dir, "rewritten.csv")
	if err := c.WriteToFile(file, helper.SliceToChan(rows)); err != nil {
		cc.Viol("", "Csv[rowAll]: WriteToFile through a codec that has read a permuted file failed: "+err.Error(), nil)
		return false
	}
	if err := c.AppendToFile(file, helper.SliceToChan(rows)); err != nil {
		cc.Viol("", "Csv[rowAll]: AppendToFile through a codec that has read a permuted file failed: "+err.Error(), nil)
		return false
	}
	back, err := helper.ReadFromCsvFile[rowAll](file, true)
	if err != nil {
		cc.Viol("", "Csv[rowAll]: reading back the rewritten file failed: "+err.Error(), nil)
		return false
	}
	if msg := sameRows(helper.ChanToSlice(back), append(append([]*rowAll(nil), rows...), rows...)); msg != "" {
		raw, _ := os.ReadFile(file)
		cc.Viol("", "Csv[rowAll]: a codec value that has read files with permuted headers writes rows that do not read back identically: "+msg, map[string]any{"header1": hdr, "header2": hdr2, "file": clipStr(string(raw), 500)})
		return false
	}
	cc.Count("permuted_files", 2)
	cc.Count("rows_compared", int64(2*len(rows)))
	return true
}

func fmtFloat(v float64, bits int) string { return strconv.FormatFloat(v, 'g', -1, bits) }

func c11(ctx *run.Ctx) {
	cases := ctx.Pick(300, 30000)
	per := 25
	type variant struct {
		name string
		run  func(cc *run.Case) bool
	}
	variants := []variant{
		{"rowAll/header", func(cc *run.Case) bool { return csvFileHistory(cc, "rowAll", genRowAll, true) }},
		{"rowTwo/header", func(cc *run.Case) bool {
			return csvFileHistory(cc, "rowTwo", func(r *gen.Rand) *rowTwo { return &rowTwo{randString(r), randString(r)} }, true)
		}},
		{"rowNum/header", func(cc *run.Case) bool {
			return csvFileHistory(cc, "rowNum", func(r *gen.Rand) *rowNum { return &rowNum{randInt(r, 64), randFloat(r), r.Bool()} }, true)
		}},
		{"rowTimes/header", func(cc *run.Case) bool {
			return csvFileHistory(cc, "rowTimes", func(r *gen.Rand) *rowTimes {
				return &rowTimes{randTime(r, false).Add(time.Duration(r.Range(0, 999999999))), randTime(r, true), randString(r)}
			}, true)
		}},
		{"snapshot/header", func(cc *run.Case) bool {
			return csvFileHistory(cc, "asset.Snapshot", func(r *gen.Rand) *asset.Snapshot {
				return &asset.Snapshot{Date: randTime(r, true), Open: randFloat(r), High: randFloat(r), Low: randFloat(r), Close: randFloat(r), Volume: randFloat(r)}
			}, true)
		}},
		{"rowOne/header", func(cc *run.Case) bool {
			return csvFileHistory(cc, "rowOne", func(r *gen.Rand) *rowOne { return &rowOne{randString(r)} }, true)
		}},
		{"rowNamed/header", func(cc *run.Case) bool { return csvFileHistory(cc, "rowNamed", genRowNamed, true) }},
		{"rowTimes2/header", func(cc *run.Case) bool {
			return csvFileHistory(cc, "rowTimes2", func(r *gen.Rand) *rowTimes2 {
				return &rowTimes2{Day: randTime(r, true), Stamp: randTime(r, false), N: r.Range(-9, 9), Again: randTime(r, false).Truncate(time.Minute), Last: randTime(r, false)}
			}, true)
		}},
		{"rowTrade/header", func(cc *run.Case) bool {
			return csvFileHistory(cc, "rowTrade", func(r *gen.Rand) *rowTrade {
				// month and day are both at most 12 and swapped between the columns:
				// the two cells of a row hold the SAME text and mean different days
				y, m, d := r.Pick(1999, 2024, 2031), r.Range(1, 12), r.Range(1, 12)
				return &rowTrade{Trade: time.Date(y, time.Month(m), d, 0, 0, 0, 0, time.UTC), Settle: time.Date(y, time.Month(d), m, 0, 0, 0, 0, time.UTC), Qty: r.Range(1, 500)}
			}, true)
		}},
		{"rowNamed/noheader", func(cc *run.Case) bool { return csvFileHistory(cc, "rowNamed", genRowNamed, false) }},
		{"rowNum/noheader", func(cc *run.Case) bool {
			return csvFileHistory(cc, "rowNum", func(r *gen.Rand) *rowNum { return &rowNum{randInt(r, 64), randFloat(r), r.Bool()} }, false)
		}},
		{"rowTwo/noheader", func(cc *run.Case) bool {
			return csvFileHistory(cc, "rowTwo", func(r *gen.Rand) *rowTwo { return &rowTwo{randString(r), randString(r)} }, false)
		}},
		{"permuted-header", csvPermuted},
	}
	for _, v := range variants {
		v := v
		ctx.Count("cmp:"+v.name, 0)
		for b := 0; b < cases/per; b++ {
			ctx.Case(fmt.Sprintf("csv/%s/%d", v.name, b), func(cc *run.Case) {
				for i := 0; i < per; i++ {
					if !v.run(cc) {
						return
					}
					cc.Count("cmp:"+v.name, 1)
					cc.Distinct(fmt.Sprintf("%s/%s/%d", v.name, cc.Label, i))
				}
			})
		}
	}
	// Fixed witness of the known finding (independent of the seed): a single
	// string column with an empty value in the middle.
	ctx.Case("csv/rowOne/witness", func(cc *run.Case) {
		dir, err := os.MkdirTemp("", "verif-c11w-")
		if err != nil {
			cc.Inconclusive(err.Error())
			return
		}
		defer os.RemoveAll(dir)
		file := filepath.Join(dir, "one.csv")
		rows := []*rowOne{{"a"}, {""}, {"b"}}
		c, _ := helper.NewCsv[rowOne](true)
		if err := c.WriteToFile(file, helper.SliceToChan(rows)); err != nil {
			cc.Viol("", "Csv[rowOne] witness: WriteToFile failed: "+err.Error(), nil)
			return
		}
		in, err := c.ReadFromFile(file)
		if err != nil {
			cc.Viol("", "Csv[rowOne] witness: ReadFromFile failed: "+err.Error(), nil)
			return
		}
		got := helper.ChanToSlice(in)
		switch {
		case sameRows(got, rows) == "":
		case sameRows(got, []*rowOne{{"a"}, {"b"}}) == "":
			cc.Viol("csv:lone-empty-field", "Csv[rowOne]: a row whose only field is the empty string is written as an empty line and skipped on read (1 of 3 rows lost)", map[string]any{"rows": describeRows(rows), "read_back": describeRows(got)})
		default:
			cc.Viol("", "Csv[rowOne] witness: wrote [a, \"\", b], read back "+fmt.Sprint(describeRows(got)), nil)
		}
		cc.Distinct("csv/rowOne/witness")
	})
	// JSON streams.
	for b := 0; b < cases/per; b++ {
		ctx.Case(fmt.Sprintf("json/%d", b), func(cc *run.Case) {
			for i := 0; i < per; i++ {
				if !c11JSON(cc) {
					return
				}
				cc.Distinct(fmt.Sprintf("json/%s/%d", cc.Label, i))
			}
			cc.Count("cmp:json", int64(per))
		})
	}
}

type jsonRow struct {
	Name  string    `json:"name"`
	N     int64     `json:"n"`
	X     float64   `json:"x"`
	When  time.Time `json:"when"`
	Flags []bool    `json:"flags"`
}

// jsonConcurrent runs several ChanToJSON -> io.Pipe -> JSONToChan round trips
// at the same time (writers that block, as a network connection does): the
// streams must not disturb each other.
func jsonConcurrent[T any](cc *run.Case, xs []T, eq func(a, b T) bool) bool {
	const streams = 6
	got := make([][]T, streams)
	errs := make([]error, streams)
	var wg sync.WaitGroup
	for k := 0; k < streams; k++ {
		wg.Add(1)
		go func(k int) {
			defer wg.Done()
			pr, pw := io.Pipe()
			go func() {
				errs[k] = helper.ChanToJSON(helper.SliceToChan(xs[k%3:]), pw)
				pw.Close()
			}()
			got[k] = helper.ChanToSlice(helper.JSONToChan[T](pr))
			io.Copy(io.Discard, pr)
		}(k)
	}
	wg.Wait()
	for k := 0; k < streams; k++ {
		want := xs[k%3:]
		if errs[k] != nil || len(got[k]) != len(want) {
			cc.Viol("", fmt.Sprintf("%d concurrent JSON round trips through pipes: stream %d returned %d of %d values (error: %v)", streams, k, len(got[k]), len(want), errs[k]), nil)
			return false
		}
		for i := range want {
			if !eq(want[i], got[k][i]) {
				cc.Viol("", fmt.Sprintf("%d concurrent JSON round trips through pipes: stream %d value %d was %v, came back as %v", streams, k, i, want[i], got[k][i]), nil)
				return false
			}
		}
	}
	cc.Count("json_concurrent_streams", streams)
	return true
}

func jsonRound[T any](cc *run.Case, what string, xs []T, eq func(a, b T) bool) bool {
	var buf bytes.Buffer
	if err := helper.ChanToJSON(helper.SliceToChan(xs), &buf); err != nil {
		cc.Viol("", fmt.Sprintf("ChanToJSON(%s) failed: %v", what, err), nil)
		return false
	}
	got := helper.ChanToSlice(helper.JSONToChan[T](bytes.NewReader(buf.Bytes())))
	if len(got) != len(xs) {
		cc.Viol("", fmt.Sprintf("JSON round trip of %d %s values returned %d values; document: %s", len(xs), what, len(got), clipStr(buf.String(), 300)), nil)
		return false
	}
	for i := range xs {
		if !eq(xs[i], got[i]) {
			cc.Viol("", fmt.Sprintf("JSON round trip of %s: value %d was %v, came back as %v", what, i, xs[i], got[i]), map[string]any{"document": clipStr(buf.String(), 400)})
			return false
		}
	}
	cc.Count("json_values", int64(len(xs)))
	return true
}

func c11JSON(cc *run.Case) bool {
	r := cc.R
	n := r.Range(0, 8)
	fs := make([]float64, n)
	is := make([]int64, n)
	ss := make([]string, n)
	ts := make([]time.Time, n)
	rs := make([]jsonRow, n)
	for i := 0; i < n; i++ {
		for {
			fs[i] = randFloat(r)
			if !math.IsInf(fs[i], 0) && !math.IsNaN(fs[i]) {
				break
			}
		}
		is[i] = randInt(r, 64)
		ss[i] = strings.ToValidUTF8(randString(r), "?")
		ts[i] = randTime(r, false).Add(time.Duration(r.Range(0, 999999999)))
		rs[i] = jsonRow{Name: ss[i], N: is[i], X: fs[i], When: ts[i], Flags: []bool{r.Bool(), r.Bool()}}
	}
	// interface-typed positions: numbers come back as float64, objects as
	// map[string]any, exactly what encoding/json documents for `any`
	anys := make([]any, n)
	maps := make([]map[string]any, n)
	for i := 0; i < n; i++ {
		anys[i] = []any{fs[i], ss[i], r.Bool(), nil, map[string]any{"x": fs[i]}}[r.Intn(5)]
		maps[i] = map[string]any{"name": ss[i], "v": fs[i], "n": float64(r.Range(-1000, 1000)), "tags": []any{ss[i], float64(i)}}
	}
	// long streams: several buffer sizes' worth of output
	long := make([]int64, r.Pick(700, 1500, 4000))
	for i := range long {
		long[i] = int64(r.Range(100000, 999999))
	}
	longRows := make([]jsonRow, r.Pick(150, 400))
	for i := range longRows {
		longRows[i] = jsonRow{Name: fmt.Sprintf("row-%d", i), N: int64(i), X: float64(i) / 8, When: day0.AddDate(0, 0, i), Flags: []bool{i%2 == 0}}
	}
	rowEq := func(a, b jsonRow) bool {
		return a.Name == b.Name && a.N == b.N && math.Float64bits(a.X) == math.Float64bits(b.X) && a.When.Equal(b.When) && reflect.DeepEqual(a.Flags, b.Flags)
	}
	if !(jsonRound(cc, "any", anys, func(a, b any) bool { return reflect.DeepEqual(a, b) }) &&
		jsonRound(cc, "map[string]any", maps, func(a, b map[string]any) bool { return reflect.DeepEqual(a, b) }) &&
		jsonRound(cc, "int64 (long stream)", long, func(a, b int64) bool { return a == b }) &&
		jsonRound(cc, "struct (long stream)", longRows, rowEq)) {
		return false
	}
	snaps := make([]asset.Snapshot, n)
	for i := range snaps {
		snaps[i] = asset.Snapshot{Date: randTime(r, true).UTC(), Open: fs[i], High: fs[i] + 1.5, Low: fs[i] - 2.25, Close: fs[i] + 0.125, Volume: float64(r.Range(0, 1e6))}
	}
	if !jsonRound(cc, "asset.Snapshot", snaps, func(a, b asset.Snapshot) bool {
		return a.Date.Equal(b.Date) && a.Open == b.Open && a.High == b.High && a.Low == b.Low && a.Close == b.Close && a.Volume == b.Volume
	}) {
		return false
	}
	// sessions dated at local midnight of the exchange's zone: the instant survives
	zoned := make([]asset.Snapshot, n)
	for i := range zoned {
		loc := time.FixedZone([]string{"EST", "JST", "CET", ""}[i%4], []int{-5, 9, 1, -9}[i%4]*3600)
		zoned[i] = asset.Snapshot{Date: time.Date(2024, time.Month(1+i%12), 1+i%28, 0, 0, 0, 0, loc), Open: fs[i], High: fs[i] + 1, Low: fs[i] - 1, Close: fs[i], Volume: 1}
	}
	if !jsonRound(cc, "asset.Snapshot (midnights of other zones)", zoned, func(a, b asset.Snapshot) bool {
		return a.Date.Equal(b.Date) && a.Open == b.Open && a.High == b.High && a.Low == b.Low && a.Close == b.Close && a.Volume == b.Volume
	}) {
		return false
	}
	if !jsonConcurrent(cc, longRows, rowEq) {
		return false
	}
	return jsonRound(cc, "float64", fs, func(a, b float64) bool { return math.Float64bits(a) == math.Float64bits(b) }) &&
		jsonRound(cc, "int64", is, func(a, b int64) bool { return a == b }) &&
		jsonRound(cc, "string", ss, func(a, b string) bool { return a == b }) &&
		jsonRound(cc, "time.Time", ts, func(a, b time.Time) bool { return a.Equal(b) }) &&
		jsonRound(cc, "struct", rs, func(a, b jsonRow) bool {
			return a.Name == b.Name && a.N == b.N && math.Float64bits(a.X) == math.Float64bits(b.X) && a.When.Equal(b.When) && reflect.DeepEqual(a.Flags, b.Flags)
		})
}
