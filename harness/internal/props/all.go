// Package props holds one workload+oracle function per property.
package props

import "verif/harness/internal/run"

// All maps property ids (and "<ID>R" race-phase ids) to their case lists.
var All = map[string]func(*run.Ctx){}
