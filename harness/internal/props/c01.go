package props

import (
	"fmt"

	"verif/harness/internal/gen"
	"verif/harness/internal/reg"
	"verif/harness/internal/run"
)

func init() { All["C01"] = c01 }

// indCfgs returns the configurations explored for one indicator: index 0 is
// the library default, the rest are seeded random admissible ones.
func indCfgs(ctx *run.Ctx, ind *reg.Indicator, nrand int) []reg.Cfg {
	out := []reg.Cfg{ind.Default}
	for i := 1; i <= nrand; i++ {
		cfg := ind.Rand(gen.New(ctx.Seed, fmt.Sprintf("cfg/%s/%d", ind.Name, i)))
		if i == nrand && nrand >= 3 {
			// the last random configuration has LONG periods (x7: up to ~80), where
			// implementations may switch to another code path
			cfg.I = append([]int(nil), cfg.I...)
			for k := range cfg.I {
				cfg.I[k] *= 7
			}
		}
		cfg.Via = i%2 == 1      // every other random configuration is reached through the public fields of a default instance
		cfg.Used = (i/2)%2 == 1 // and half of each kind is handed out after it has served another series
		out = append(out, cfg)
	}
	return out
}

// classify compares one execution with the documented reference, then with
// the deviation models, and reports the verdict through cc.
func classifyRef(cc *run.Case, ind *reg.Indicator, cfg reg.Cfg, w int, inputs, actual [][]float64, class string, witness bool) {
	res := compareRef(ind, w, inputs, actual, ind.Ref(cfg, inputs))
	cc.Count("cmp:"+ind.Name, int64(res.Compared))
	cc.Count("positions_compared", int64(res.Compared))
	cc.Count("positions_exempt", int64(res.Exempt))
	cc.Count("class:"+class, 1)
	cc.CtxMax("max_relerr_e-18", int64(res.MaxRel*1e18))
	if res.Compared > 0 && !witness {
		cc.Distinct(fmt.Sprintf("%s/%v/%s", ind.Name, cfg, class))
	}
	detail := func(r cmpResult) map[string]any {
		return map[string]any{"indicator": ind.Name, "cfg": cfg, "class": class, "w": w, "inputs": jsonSafe(clip(inputs, 80)),
			"mismatch": r.Bad, "mismatching_positions": r.NBad, "compared": r.Compared}
	}
	if res.Bad == nil {
		return
	}
	// 1. an exact match with a listed deviation model
	var devRes []cmpResult
	for _, d := range ind.Devs {
		dres := compareRef(ind, w, inputs, actual, d.Ref(cfg, inputs))
		devRes = append(devRes, dres)
		if dres.Bad == nil {
			cc.Viol(ind.Name+":"+d.Key, fmt.Sprintf("%s %v deviates from its documented formula exactly as deviation model %q: %s", ind.Name, cfg, d.Key, d.What), detail(res))
			return
		}
	}
	// 2. the "non-finite for good" signature, against the documented formula ...
	if res.poisoned() {
		cc.Viol(ind.Name+":nan-poisoning", fmt.Sprintf("%s %v: output %d is non-finite from k=%d on although the documented formula is well-defined there (first ill-conditioned position k=%d)", ind.Name, cfg, res.Bad.Output, res.FirstBadK, res.FirstIllK), detail(res))
		return
	}
	// ... or against a deviation model (both findings at once)
	for i, d := range ind.Devs {
		if dres := devRes[i]; dres.poisoned() {
			cc.Viol(ind.Name+":"+d.Key, fmt.Sprintf("%s %v deviates from its documented formula as deviation model %q: %s", ind.Name, cfg, d.Key, d.What), detail(res))
			cc.Viol(ind.Name+":nan-poisoning", fmt.Sprintf("%s %v: output is non-finite from k=%d on although the formula is well-defined there (first ill-conditioned position k=%d)", ind.Name, cfg, dres.FirstBadK, dres.FirstIllK), detail(dres))
			return
		}
	}
	cc.Viol("", fmt.Sprintf("%s %v on %s series: output %d position k=%d (input position %d) is %s, documented formula gives %s (tolerance %.3g); %d of %d compared positions differ",
		ind.Name, cfg, class, res.Bad.Output, res.Bad.K, res.Bad.K+w, res.Bad.ActualS, res.Bad.ExpectS, res.Bad.Tol, res.NBad, res.Compared), detail(res))
}

func c01Classes(ctx *run.Ctx, ind *reg.Indicator) []string {
	cl := append([]string(nil), gen.OHLCVClasses...)
	if ind.AnySign {
		cl = append(cl, gen.ZeroNeg)
	}
	// Magnitudes far from the usual price range (an exact power-of-two unit
	// change of a walk2 series): absolute tolerances and thresholds inside an
	// implementation show up here.
	return append(cl, "tiny", "huge")
}

// c01Bars generates the bars of a class; "tiny" / "huge" are walk2 bars in a
// unit 2^40 times larger / smaller (volumes 2^-10 / 2^30).
func c01Bars(r *gen.Rand, class string, n int) []gen.Bar {
	ps, vs := 1.0, 1.0
	switch class {
	case "tiny":
		class, ps, vs = gen.Walk2, 0x1p-40, 0x1p-10
	case "huge":
		class, ps, vs = gen.Walk2, 0x1p40, 0x1p30
	}
	bars := gen.Bars(r, class, n)
	if ps != 1 {
		for i := range bars {
			bars[i].O *= ps
			bars[i].H *= ps
			bars[i].L *= ps
			bars[i].C *= ps
			bars[i].V *= vs
		}
	}
	return bars
}

func c01(ctx *run.Ctx) {
	nrand := ctx.Pick(16, 40)
	reps := ctx.Pick(1, 3)
	for _, ind := range reg.Sorted() {
		ind := ind
		ctx.Count("cmp:"+ind.Name, 0)
		for ci, cfg := range indCfgs(ctx, ind, nrand) {
			ci, cfg := ci, cfg
			w := ind.New(cfg).Idle
			lengths := []int{2*w + 3, 60, 160}
			if !ctx.Quick() {
				lengths = append(lengths, 400)
			}
			if ci == 0 {
				lengths = append(lengths, 4400) // beyond any block of 4096 values
			}
			if ci <= 1 {
				lengths = append(lengths, 1100+1000*ci) // long series: drift / periodic resynchronisation of running state
			}
			for _, class := range c01Classes(ctx, ind) {
				class := class
				for li := 0; li < len(lengths)*reps; li++ {
					n, rep := lengths[li%len(lengths)], li/len(lengths)
					ctx.Case(fmt.Sprintf("%s/cfg%d/%s/n%d/r%d", ind.Name, ci, class, n, rep), func(cc *run.Case) {
						var bars []gen.Bar
						var numeric []float64
						if class == gen.ZeroNeg {
							bars = gen.Bars(cc.R, gen.Walk, n)
							numeric = gen.Numeric(cc.R, class, n)
						} else {
							bars = c01Bars(cc.R, class, n)
						}
						inputs := indInputs(ind, bars, numeric)
						if class == gen.ZeroNeg {
							// every stream of an AnySign indicator gets its own signed series
							for k := range inputs {
								if ind.In[k] != 't' {
									inputs[k] = gen.Numeric(cc.R, class, n)
								}
							}
						}
						cc.Desc(map[string]any{"indicator": ind.Name, "cfg": cfg, "class": class, "n": n})
						inst := ind.New(cfg)
						actual := runInd(inst, inputs)
						classifyRef(cc, ind, cfg, inst.Idle, inputs, actual, class, false)
						if cc.WantSample() && ci == 1 && n == 60 {
							cc.Sample(map[string]any{"indicator": ind.Name, "cfg": cfg, "class": class, "n": n, "w": inst.Idle,
								"inputs_head": jsonSafe(clip(inputs, 6)), "outputs_head": jsonSafe(clip(actual, 4))})
						}
					})
				}
			}
		}
	}
	// Other element types (int, int32, int64, float32) for the additive / ordering types.
	c01TypedCases(ctx)
	// Parameterless constructors against the documented defaults.
	c01CtorCases(ctx)
	// Public float fields must matter.
	c01FieldCases(ctx)
	// Fixed witness cases of the known findings.
	for wi, wt := range reg.Witnesses {
		wi, wt := wi, wt
		ind := reg.ByName(wt.Name)
		if ind == nil {
			continue
		}
		ctx.Case(fmt.Sprintf("witness/%s/%d", wt.Name, wi), func(cc *run.Case) {
			cc.Desc(map[string]any{"indicator": ind.Name, "cfg": wt.Cfg, "inputs": wt.In, "why": wt.Why})
			inst := ind.New(wt.Cfg)
			actual := runInd(inst, wt.In)
			classifyRef(cc, ind, wt.Cfg, inst.Idle, wt.In, actual, "witness", true)
		})
	}
}
