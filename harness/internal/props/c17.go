package props

import (
	"fmt"
	"math"
	"reflect"
	"sort"
	"sync"
	"sync/atomic"

	"github.com/cinar/indicator/v2/helper"
	"github.com/cinar/indicator/v2/trend"

	"verif/harness/internal/gen"
	"verif/harness/internal/run"
)

func init() { All["C17"] = c17 }

// ---- Ring: bounded FIFO model in lock-step ----

type ringOp struct {
	Op  string `json:"op"`
	Arg any    `json:"arg,omitempty"`
}

func ringHistory[T comparable](cc *run.Case, typ string, capacity int, alphabet []T, nops int) {
	r := cc.R
	ring := helper.NewRing[T](capacity)
	var model []T // oldest first
	var hist []ringOp
	fail := func(msg string) {
		cc.Viol("", fmt.Sprintf("Ring[%s] cap=%d: %s", typ, capacity, msg), map[string]any{"history": hist})
	}
	sawFullPut, sawWrap := false, false
	for i := 0; i < nops; i++ {
		switch k := r.Intn(10); {
		case k < 5:
			v := alphabet[r.Intn(len(alphabet))]
			hist = append(hist, ringOp{"put", v})
			full := len(model) == capacity
			got := ring.Put(v)
			if full {
				sawFullPut = true
				if got != model[0] {
					fail(fmt.Sprintf("Put(%v) on a full ring returned %v, displaced oldest is %v", v, got, model[0]))
					return
				}
				model = model[1:]
			}
			model = append(model, v)
		case k < 7:
			hist = append(hist, ringOp{Op: "get"})
			got, ok := ring.Get()
			if len(model) == 0 {
				if ok {
					fail(fmt.Sprintf("Get on empty ring returned (%v, true)", got))
					return
				}
			} else {
				if !ok || got != model[0] {
					fail(fmt.Sprintf("Get returned (%v,%v), oldest is %v", got, ok, model[0]))
					return
				}
				model = model[1:]
				sawWrap = true
			}
		case k < 9:
			if len(model) == 0 {
				continue
			}
			j := r.Intn(len(model))
			hist = append(hist, ringOp{"at", j})
			if got := ring.At(j); got != model[j] {
				fail(fmt.Sprintf("At(%d) = %v, %d-th oldest is %v", j, got, j, model[j]))
				return
			}
		default:
			hist = append(hist, ringOp{Op: "flags"})
			if ring.IsEmpty() != (len(model) == 0) || ring.IsFull() != (len(model) == capacity) {
				fail(fmt.Sprintf("IsEmpty=%v IsFull=%v with %d of %d elements", ring.IsEmpty(), ring.IsFull(), len(model), capacity))
				return
			}
		}
	}
	// Final sweep: every position and the flags.
	for j := range model {
		if got := ring.At(j); got != model[j] {
			fail(fmt.Sprintf("final At(%d) = %v, want %v", j, got, model[j]))
			return
		}
	}
	if ring.IsEmpty() != (len(model) == 0) || ring.IsFull() != (len(model) == capacity) {
		fail("final flags disagree with the model")
		return
	}
	cc.Count("ring_ops", int64(len(hist)))
	if sawFullPut && sawWrap {
		cc.Distinct(fmt.Sprintf("ring/%s/%d/%s", typ, capacity, cc.Label))
	}
	if cc.WantSample() && len(hist) < 25 && len(hist) > 5 {
		cc.Sample(map[string]any{"kind": "ring", "type": typ, "capacity": capacity, "history": hist})
	}
}

// ---- Bst: multiset model in lock-step + structural walk ----

// bstKey is a tree key read through reflection, kept exact: integer keys as
// int64 (a float64 would merge neighbours above 2^53), float keys as float64.
type bstKey struct {
	I     int64
	F     float64
	IsInt bool
}

func (a bstKey) less(b bstKey) bool {
	if a.IsInt {
		return a.I < b.I
	}
	return a.F < b.F
}

// walkBst does an in-order traversal of the live tree through reflection
// (unexported fields are readable, not settable) and returns the keys.
func walkBst(b any) (keys []bstKey, ok bool) {
	root := reflect.ValueOf(b).Elem().FieldByName("root")
	ok = true
	depth := 0
	var rec func(n reflect.Value)
	rec = func(n reflect.Value) {
		if n.IsNil() || !ok {
			return
		}
		depth++
		if depth > 100000 {
			ok = false
			return
		}
		e := n.Elem()
		rec(e.FieldByName("left"))
		v := e.FieldByName("value")
		if v.CanInt() {
			keys = append(keys, bstKey{I: v.Int(), IsInt: true})
		} else {
			keys = append(keys, bstKey{F: v.Float()})
		}
		rec(e.FieldByName("right"))
		depth--
	}
	rec(root)
	return
}

func keyOf[T helper.Number](v T) bstKey {
	rv := reflect.ValueOf(v)
	if rv.CanInt() {
		return bstKey{I: rv.Int(), IsInt: true}
	}
	return bstKey{F: rv.Float()}
}

type bstStep struct {
	Op  byte // 'i','r','c'
	Val int  // index into alphabet
}

func fmtSteps[T any](steps []bstStep, alphabet []T) []string {
	out := make([]string, len(steps))
	for i, s := range steps {
		out[i] = fmt.Sprintf("%c(%v)", s.Op, alphabet[s.Val])
	}
	return out
}

// bstRun applies steps to a fresh tree and to the multiset model. Returns a
// non-empty message on the first disagreement.
func bstRun[T helper.Number](alphabet []T, steps []bstStep, walkEvery int) string {
	tree := helper.NewBst[T]()
	model := map[T]int{}
	size := 0
	check := func(after string) string {
		var mn, mx T
		first := true
		for k, c := range model {
			if c == 0 {
				continue
			}
			if first || k < mn {
				mn = k
			}
			if first || k > mx {
				mx = k
			}
			first = false
		}
		if gm := tree.Min(); gm != mn {
			return fmt.Sprintf("after %s: Min() = %v, multiset minimum is %v (0 when empty)", after, gm, mn)
		}
		if gm := tree.Max(); gm != mx {
			return fmt.Sprintf("after %s: Max() = %v, multiset maximum is %v (0 when empty)", after, gm, mx)
		}
		return ""
	}
	for i, s := range steps {
		v := alphabet[s.Val]
		desc := fmt.Sprintf("step %d %c(%v)", i, s.Op, v)
		switch s.Op {
		case 'i':
			tree.Insert(v)
			model[v]++
			size++
		case 'r':
			want := model[v] > 0
			got := tree.Remove(v)
			if got != want {
				return fmt.Sprintf("%s: Remove returned %v, multiset holds %d occurrences", desc, got, model[v])
			}
			if want {
				model[v]--
				size--
			}
		case 'c':
			want := model[v] > 0
			if got := tree.Contains(v); got != want {
				return fmt.Sprintf("%s: Contains returned %v, multiset holds %d occurrences", desc, got, model[v])
			}
		}
		if m := check(desc); m != "" {
			return m
		}
		if walkEvery > 0 && (i%walkEvery == walkEvery-1 || i == len(steps)-1) {
			keys, ok := walkBst(tree)
			if !ok {
				return "after " + desc + ": structural walk did not terminate (cycle)"
			}
			if len(keys) != size {
				return fmt.Sprintf("after %s: tree holds %d nodes, multiset holds %d elements", desc, len(keys), size)
			}
			if !sort.SliceIsSorted(keys, func(a, b int) bool { return keys[a].less(keys[b]) }) {
				return fmt.Sprintf("after %s: in-order traversal is not sorted: %v", desc, keys)
			}
			// every model element present with multiplicity
			cnt := map[bstKey]int{}
			for _, k := range keys {
				cnt[k]++
			}
			for k, c := range model {
				if cnt[keyOf(k)] != c {
					return fmt.Sprintf("after %s: tree holds %d copies of %v, multiset holds %d", desc, cnt[keyOf(k)], k, c)
				}
			}
		}
	}
	// Membership sweep over the whole alphabet at the end.
	for _, v := range alphabet {
		if got, want := tree.Contains(v), model[v] > 0; got != want {
			return fmt.Sprintf("final: Contains(%v) = %v, multiset holds %d", v, got, model[v])
		}
	}
	return ""
}

func bstRandom[T helper.Number](cc *run.Case, typ string, values []T, nhist int, maxOps int) {
	r := cc.R
	for h := 0; h < nhist; h++ {
		k := r.Range(2, 7)
		if k > len(values) {
			k = len(values)
		}
		perm := r.Perm(len(values))
		alphabet := make([]T, k)
		for i := range alphabet {
			alphabet[i] = values[perm[i]]
		}
		n := r.Range(1, maxOps)
		steps := make([]bstStep, n)
		removes, dups := 0, false
		seen := map[int]int{}
		for i := range steps {
			var op byte
			switch x := r.Intn(10); {
			case x < 5:
				op = 'i'
			case x < 8:
				op = 'r'
			default:
				op = 'c'
			}
			steps[i] = bstStep{op, r.Intn(k)}
			if op == 'i' {
				seen[steps[i].Val]++
				if seen[steps[i].Val] > 1 {
					dups = true
				}
			}
			if op == 'r' {
				removes++
			}
		}
		if msg := bstRun(alphabet, steps, 16); msg != "" {
			cc.Viol("", fmt.Sprintf("Bst[%s]: %s", typ, msg), map[string]any{"type": typ, "alphabet": fmt.Sprint(alphabet), "steps": fmtSteps(steps, alphabet)})
			return
		}
		cc.Count("bst_ops", int64(n))
		cc.Count("bst_histories", 1)
		if removes > 0 && dups {
			cc.Distinct(fmt.Sprintf("bst/%s/%s/%d", typ, cc.Label, h))
		}
		if cc.WantSample() && n < 14 && n > 6 {
			cc.Sample(map[string]any{"kind": "bst", "type": typ, "alphabet": fmt.Sprint(alphabet), "steps": fmtSteps(steps, alphabet)})
		}
	}
}

// bstParallel runs several trees at the same time, each one owned by its own
// goroutine and checked against its own multiset: trees are independent
// objects, what happens to one must never show in another. The histories are
// fixed by the case's PRNG; how the goroutines interleave is up to the
// scheduler, so every disagreement is a real one but a replay may need
// several attempts to meet it again.
func bstParallel(cc *run.Case, workers, nhist, maxOps int) {
	r := cc.R
	values := make([]float64, 24)
	for i := range values {
		values[i] = float64(i-12) * 0.5
	}
	type job struct {
		alphabet []float64
		steps    []bstStep
	}
	jobs := make([][]job, workers)
	total := 0
	for w := range jobs {
		for h := 0; h < nhist; h++ {
			k := r.Range(6, len(values))
			perm := r.Perm(len(values))
			alphabet := make([]float64, k)
			for i := range alphabet {
				alphabet[i] = values[perm[i]]
			}
			steps := make([]bstStep, r.Range(maxOps/2, maxOps))
			for i := range steps {
				op := byte('i')
				if x := r.Intn(10); x >= 9 {
					op = 'c'
				} else if x >= 5 {
					op = 'r'
				}
				steps[i] = bstStep{op, r.Intn(k)}
			}
			total += len(steps)
			jobs[w] = append(jobs[w], job{alphabet, steps})
		}
	}
	msgs := make([]string, workers)
	at := make([]int, workers)
	var stop atomic.Bool
	var wg sync.WaitGroup
	for w := range jobs {
		wg.Add(1)
		go func(w int) {
			defer wg.Done()
			for h, j := range jobs[w] {
				if stop.Load() {
					return
				}
				if m := bstRun(j.alphabet, j.steps, 16); m != "" {
					msgs[w], at[w] = m, h
					stop.Store(true)
					return
				}
			}
		}(w)
	}
	wg.Wait()
	for w, m := range msgs {
		if m != "" {
			j := jobs[w][at[w]]
			cc.Viol("", fmt.Sprintf("Bst[float64], one of %d trees that are used at the same time, each by its own goroutine: %s", workers, m),
				map[string]any{"type": "float64", "trees": workers, "alphabet": fmt.Sprint(j.alphabet), "steps": fmtSteps(j.steps, j.alphabet)})
			return
		}
	}
	cc.Count("bst_parallel_ops", int64(total))
	cc.Count("bst_parallel_histories", int64(workers*nhist))
	cc.Distinct(fmt.Sprintf("bstpar/%s", cc.Label))
}

// bstExhaustive enumerates every history of exactly L steps over a 3-letter
// alphabet (9 step kinds), restricted to those whose first step index is
// first (so that cases can be split).
func bstExhaustive[T helper.Number](cc *run.Case, typ string, alphabet []T, L int, first int) {
	kinds := []bstStep{}
	for _, op := range []byte{'i', 'r', 'c'} {
		for v := 0; v < 3; v++ {
			kinds = append(kinds, bstStep{op, v})
		}
	}
	steps := make([]bstStep, L)
	idx := make([]int, L)
	idx[0] = first
	count := int64(0)
	for {
		for i := range steps {
			steps[i] = kinds[idx[i]]
		}
		if msg := bstRun(alphabet, steps, L); msg != "" {
			cc.Viol("", fmt.Sprintf("Bst[%s] (exhaustive L=%d): %s", typ, L, msg), map[string]any{"type": typ, "alphabet": fmt.Sprint(alphabet), "steps": fmtSteps(steps, alphabet)})
			return
		}
		count++
		// increment positions 1..L-1
		p := L - 1
		for p >= 1 {
			idx[p]++
			if idx[p] < len(kinds) {
				break
			}
			idx[p] = 0
			p--
		}
		if p < 1 {
			break
		}
	}
	cc.Count("bst_exhaustive_histories", count)
	cc.Distinct(fmt.Sprintf("bstx/%s/%d/%d", typ, L, first))
}

func c17(ctx *run.Ctx) {
	// Value pools at the extremes of each type: the subtraction in a
	// sign-of-difference comparison overflows for these.
	i8 := []int8{-128, -127, -100, -1, 0, 1, 100, 126, 127}
	i16 := []int16{math.MinInt16, -30000, -1, 0, 1, 30000, math.MaxInt16}
	i32 := []int32{math.MinInt32, math.MinInt32 + 1, -2000000000, -1, 0, 1, 16777216, 16777217, 2000000000, math.MaxInt32 - 1, math.MaxInt32}
	// ... including neighbours that collapse when converted to float64 (> 2^53).
	i64 := []int64{math.MinInt64, math.MinInt64 + 1, -9000000000000000000, -(1 << 53) - 1, -(1 << 53), -1, 0, 1, 1 << 53, (1 << 53) + 1, (1 << 53) + 2, 9000000000000000000, math.MaxInt64 - 2, math.MaxInt64 - 1, math.MaxInt64}
	in := []int{math.MinInt, math.MinInt + 1, -9000000000000000000, -1, 0, 1, 1 << 53, (1 << 53) + 1, 9000000000000000000, math.MaxInt - 1, math.MaxInt}
	f32 := []float32{-math.MaxFloat32, -1e30, -1.5, 0, math.SmallestNonzeroFloat32, 1.5, math.Nextafter32(1.5, 2), 1e30, math.Nextafter32(1e30, 2e30), math.MaxFloat32}
	f64 := []float64{-math.MaxFloat64, -1e300, -1.5, 0, math.SmallestNonzeroFloat64, 1.5, math.Nextafter(1.5, 2), 1e300, math.Nextafter(1e300, 2e300), math.MaxFloat64}
	small8 := []int8{-3, -2, -1, 0, 1, 2, 3, 4}
	smallf := []float64{-1.5, -0.5, 0, 0.25, 0.5, 1, 2, 3}

	batches := ctx.Pick(8, 400)
	nh := ctx.Pick(60, 250)
	maxOps := ctx.Pick(120, 400)
	for b := 0; b < batches; b++ {
		ctx.Case(fmt.Sprintf("bst/int8/%d", b), func(cc *run.Case) { bstRandom(cc, "int8", i8, nh, maxOps) })
		ctx.Case(fmt.Sprintf("bst/int16/%d", b), func(cc *run.Case) { bstRandom(cc, "int16", i16, nh, maxOps) })
		ctx.Case(fmt.Sprintf("bst/int32/%d", b), func(cc *run.Case) { bstRandom(cc, "int32", i32, nh, maxOps) })
		ctx.Case(fmt.Sprintf("bst/int64/%d", b), func(cc *run.Case) { bstRandom(cc, "int64", i64, nh, maxOps) })
		ctx.Case(fmt.Sprintf("bst/int/%d", b), func(cc *run.Case) { bstRandom(cc, "int", in, nh, maxOps) })
		ctx.Case(fmt.Sprintf("bst/float32/%d", b), func(cc *run.Case) { bstRandom(cc, "float32", f32, nh, maxOps) })
		ctx.Case(fmt.Sprintf("bst/float64/%d", b), func(cc *run.Case) { bstRandom(cc, "float64", f64, nh, maxOps) })
		ctx.Case(fmt.Sprintf("bst/int8small/%d", b), func(cc *run.Case) { bstRandom(cc, "int8", small8, nh, maxOps) })
		ctx.Case(fmt.Sprintf("bst/float64small/%d", b), func(cc *run.Case) { bstRandom(cc, "float64", smallf, nh, maxOps) })
	}
	for b := 0; b < ctx.Pick(2, 24); b++ {
		ctx.Case(fmt.Sprintf("bstpar/%d", b), func(cc *run.Case) { bstParallel(cc, 8, ctx.Pick(150, 400), 300) })
	}
	// The sliding-window clients of the tree (trend.MovingMax / MovingMin) over
	// the same pools plus the infinities: window k must yield the extreme of
	// the multiset {x[k] .. x[k+period-1]}.
	inf32, inf64 := float32(math.Inf(1)), math.Inf(1)
	wb := ctx.Pick(4, 120)
	for b := 0; b < wb; b++ {
		ctx.Case(fmt.Sprintf("window/int8/%d", b), func(cc *run.Case) { windowExtremes(cc, "int8", i8) })
		ctx.Case(fmt.Sprintf("window/int32/%d", b), func(cc *run.Case) { windowExtremes(cc, "int32", i32) })
		ctx.Case(fmt.Sprintf("window/int64/%d", b), func(cc *run.Case) { windowExtremes(cc, "int64", i64) })
		ctx.Case(fmt.Sprintf("window/int/%d", b), func(cc *run.Case) { windowExtremes(cc, "int", in) })
		ctx.Case(fmt.Sprintf("window/float32/%d", b), func(cc *run.Case) { windowExtremes(cc, "float32", append([]float32{-inf32, inf32}, f32...)) })
		ctx.Case(fmt.Sprintf("window/float64/%d", b), func(cc *run.Case) { windowExtremes(cc, "float64", append([]float64{-inf64, inf64}, f64...)) })
		ctx.Case(fmt.Sprintf("window/float64small/%d", b), func(cc *run.Case) { windowExtremes(cc, "float64", smallf) })
		// NaN can neither be ordered nor found again: the window operators skip
		// it (a window without any number is exempt)
		ctx.Case(fmt.Sprintf("window/float64nan/%d", b), func(cc *run.Case) { windowExtremes(cc, "float64", append([]float64{math.NaN(), math.NaN()}, smallf...)) })
		ctx.Case(fmt.Sprintf("window/float32nan/%d", b), func(cc *run.Case) {
			windowExtremes(cc, "float32", []float32{float32(math.NaN()), -2, -0.5, 0, 1, 1, 3, inf32})
		})
	}
	// Exhaustive small scope: every history of length <= L over 3 letters.
	maxL := ctx.Pick(5, 7)
	for L := 1; L <= maxL; L++ {
		for first := 0; first < 9; first++ {
			L, first := L, first
			ctx.Case(fmt.Sprintf("bstx/float64/L%d/f%d", L, first), func(cc *run.Case) {
				bstExhaustive(cc, "float64", []float64{1, 2, 3}, L, first)
			})
			ctx.Case(fmt.Sprintf("bstx/int8/L%d/f%d", L, first), func(cc *run.Case) {
				bstExhaustive(cc, "int8", []int8{-128, 0, 127}, L, first)
			})
		}
	}
	// Ring histories.
	rb := ctx.Pick(40, 600)
	for b := 0; b < rb; b++ {
		b := b
		ctx.Case(fmt.Sprintf("ring/%d", b), func(cc *run.Case) {
			for h := 0; h < 25; h++ {
				capacity := cc.R.Pick(cc.R.Range(1, 9), cc.R.Range(1, 9), 16, 17, 31, 32, 33, 40, 64) // small ones mostly, and some beyond any initial allocation size
				n := cc.R.Range(1, maxOps)
				switch cc.R.Intn(4) {
				case 0:
					ringHistory(cc, "int", capacity, uniqueInts(cc.R, 400), n)
				case 1:
					ringHistory(cc, "float64", capacity, f64, n)
				case 2:
					ringHistory(cc, "string", capacity, []string{"a", "b", "", "dd", "e"}, n)
				default:
					ringHistory(cc, "int8", capacity, i8, n)
				}
				cc.Count("ring_histories", 1)
			}
		})
	}
}

// windowExtremes drives trend.MovingMax and trend.MovingMin (the tree's
// sliding-window clients) and compares every emitted value with the extreme
// of the window's multiset.
func windowExtremes[T helper.Number](cc *run.Case, typ string, pool []T) {
	r := cc.R
	for h := 0; h < 40; h++ {
		period := r.Range(1, 7)
		n := r.Range(0, 26)
		sub := pool
		if r.Intn(2) == 0 { // few distinct values: many duplicates inside one window
			sub = []T{pool[r.Intn(len(pool))], pool[r.Intn(len(pool))], pool[r.Intn(len(pool))]}
		}
		xs := make([]T, n)
		for i := range xs {
			xs[i] = sub[r.Intn(len(sub))]
		}
		desc := map[string]any{"type": typ, "period": period, "input": fmt.Sprint(xs)}
		cc.Desc(desc)
		gotMax := helper.ChanToSlice(trend.NewMovingMaxWithPeriod[T](period).Compute(helper.SliceToChan(xs)))
		gotMin := helper.ChanToSlice(trend.NewMovingMinWithPeriod[T](period).Compute(helper.SliceToChan(xs)))
		want := max(0, n-period+1)
		if len(gotMax) != want || len(gotMin) != want {
			cc.Viol("", fmt.Sprintf("MovingMax/MovingMin[%s] period %d over %d values emitted %d / %d values, expected %d", typ, period, n, len(gotMax), len(gotMin), want), desc)
			return
		}
		for k := 0; k < want; k++ {
			var hi, lo T
			seen := false
			for _, v := range xs[k : k+period] {
				if v != v { // NaN: not a member of the multiset
					continue
				}
				if !seen || v > hi {
					hi = v
				}
				if !seen || v < lo {
					lo = v
				}
				seen = true
			}
			if !seen {
				cc.Count("window_without_a_number_exempt", 1)
				continue
			}
			if gotMax[k] != hi {
				cc.Viol("", fmt.Sprintf("MovingMax[%s] period %d: window %d = %v yields %v, its maximum is %v", typ, period, k, xs[k:k+period], gotMax[k], hi), desc)
				return
			}
			if gotMin[k] != lo {
				cc.Viol("", fmt.Sprintf("MovingMin[%s] period %d: window %d = %v yields %v, its minimum is %v", typ, period, k, xs[k:k+period], gotMin[k], lo), desc)
				return
			}
		}
		cc.Count("window_values_compared", int64(2*want))
		cc.Count("window_histories", 1)
		if want > 1 {
			cc.Distinct(fmt.Sprintf("window/%s/%s/%d", typ, cc.Label, h))
		}
	}
}

// uniqueInts returns distinct values so that every Put is identifiable.
func uniqueInts(r *gen.Rand, n int) []int {
	out := make([]int, n)
	base := r.Intn(1000)
	for i := range out {
		out[i] = base + i*7 + 1
	}
	return out
}
