package props

import (
	"fmt"
	"reflect"
	"sort"

	"verif/harness/internal/gen"
	"verif/harness/internal/reg"
	"verif/harness/internal/run"
)

// Public float fields (smoothing constants, multipliers, percentages) of an
// indicator and of the indicators it is built from are part of its
// configuration: the documented formula is the one with THOSE constants. The
// registry's references are parameterised by periods only, so this family
// checks the weaker, reference-free consequence: changing such a field changes
// the values. insensitiveFloatFields lists the fields for which that is NOT
// so on the pinned tree (none at present); every other exported float field
// reachable from a default instance must matter.

var insensitiveFloatFields = map[string]bool{}

type floatField struct {
	path string
	v    reflect.Value
}

func collectFloatFields(v reflect.Value, path string, depth int, out *[]floatField) {
	if depth > 4 {
		return
	}
	switch v.Kind() {
	case reflect.Ptr, reflect.Interface:
		if !v.IsNil() {
			collectFloatFields(v.Elem(), path, depth+1, out)
		}
	case reflect.Struct:
		t := v.Type()
		for i := 0; i < t.NumField(); i++ {
			if !t.Field(i).IsExported() {
				continue
			}
			p := t.Field(i).Name
			if path != "" {
				p = path + "." + p
			}
			f := v.Field(i)
			if f.Kind() == reflect.Float64 && f.CanSet() {
				*out = append(*out, floatField{p, f})
			} else {
				collectFloatFields(f, p, depth+1, out)
			}
		}
	}
}

func c01FieldCases(ctx *run.Ctx) {
	for _, ind := range reg.Sorted() {
		ind := ind
		ctx.Case("fields/"+ind.Name, func(cc *run.Case) {
			probe := ind.New(ind.Default)
			var fields []floatField
			collectFloatFields(reflect.ValueOf(probe.Obj), "", 0, &fields)
			if len(fields) == 0 {
				return
			}
			sort.Slice(fields, func(i, j int) bool { return fields[i].path < fields[j].path })
			inputs := indInputs(ind, gen.Bars(cc.R, gen.Walk2, 3*probe.Idle+60), nil)
			base := runInd(ind.New(ind.Default), inputs)
			for fi := range fields {
				inst := ind.New(ind.Default)
				var fs []floatField
				collectFloatFields(reflect.ValueOf(inst.Obj), "", 0, &fs)
				sort.Slice(fs, func(i, j int) bool { return fs[i].path < fs[j].path })
				if fi >= len(fs) || fs[fi].path != fields[fi].path {
					continue
				}
				old := fs[fi].v.Float()
				fs[fi].v.SetFloat(old*1.5 + 0.25)
				got := runInd(inst, inputs)
				key := ind.Name + ":" + fs[fi].path
				cc.Count("public_float_fields_probed", 1)
				if eqOuts(got, base) && !insensitiveFloatFields[key] {
					cc.Viol("", fmt.Sprintf("%s: changing the public field %s from %v to %v changes no output value: the field is part of the configuration, the computation ignores it", ind.Name, fs[fi].path, old, old*1.5+0.25),
						map[string]any{"indicator": ind.Name, "field": fs[fi].path})
				}
			}
			cc.Distinct("fields/" + ind.Name)
		})
	}
}
