package props

import (
	"fmt"
	"strings"

	"verif/harness/internal/gen"
	"verif/harness/internal/reg"
)

// Calibrate runs one configuration of one indicator and describes how the
// library output relates to the registry row. Development aid only.
func Calibrate(ind *reg.Indicator, cfg reg.Cfg, class string, n int, r *gen.Rand, short bool) string {
	var sb strings.Builder
	inst := ind.New(cfg)
	w := inst.Idle
	fmt.Fprintf(&sb, "%-28s cfg=%v w=%d declared=%v: ", ind.Name, cfg, w, inst.Declared)
	var bars []gen.Bar
	var numeric []float64
	if class == gen.ZeroNeg {
		bars = gen.Bars(r, gen.Walk, n)
		numeric = gen.Numeric(r, class, n)
	} else {
		bars = gen.Bars(r, class, n)
	}
	inputs := indInputs(ind, bars, numeric)
	actual := runInd(inst, inputs)
	counts := []string{}
	for j := range actual {
		c := fmt.Sprint(len(actual[j]))
		if len(actual[j]) != max(0, n-w) {
			c += "(!=" + fmt.Sprint(max(0, n-w)) + ")"
		}
		counts = append(counts, c)
	}
	fmt.Fprintf(&sb, "counts=%s ", strings.Join(counts, ","))
	if len(actual) != len(ind.Out) {
		fmt.Fprintf(&sb, "OUTPUTS %d != len(Out) %d ", len(actual), len(ind.Out))
	}
	ref := ind.Ref(cfg, inputs)
	for j := range ref {
		if len(ref[j]) != max(0, n-w) {
			fmt.Fprintf(&sb, "REFLEN[%d]=%d ", j, len(ref[j]))
		}
	}
	res := compareRef(ind, w, inputs, actual, ref)
	if res.Bad == nil {
		fmt.Fprintf(&sb, "REF OK compared=%d exempt=%d maxrel=%.2g", res.Compared, res.Exempt, res.MaxRel)
	} else {
		fmt.Fprintf(&sb, "REF MISMATCH %d/%d first out=%d k=%d actual=%s expected=%s", res.NBad, res.Compared, res.Bad.Output, res.Bad.K, res.Bad.ActualS, res.Bad.ExpectS)
		for _, d := range ind.Devs {
			dres := compareRef(ind, w, inputs, actual, d.Ref(cfg, inputs))
			if dres.Bad == nil {
				fmt.Fprintf(&sb, " | DEV %s MATCHES compared=%d maxrel=%.2g", d.Key, dres.Compared, dres.MaxRel)
			} else {
				fmt.Fprintf(&sb, " | dev %s mismatches %d/%d first k=%d actual=%s expected=%s", d.Key, dres.NBad, dres.Compared, dres.Bad.K, dres.Bad.ActualS, dres.Bad.ExpectS)
			}
		}
	}
	if short {
		var badN []string
		for m := 0; m <= 2*w+3; m++ {
			in2 := make([][]float64, len(inputs))
			for k := range inputs {
				in2[k] = inputs[k][:min(m, len(inputs[k]))]
			}
			out := runInd(ind.New(cfg), in2)
			for j := range out {
				if len(out[j]) != max(0, m-w) {
					badN = append(badN, fmt.Sprintf("n=%d out%d=%d", m, j, len(out[j])))
				}
			}
		}
		if len(badN) > 0 {
			if len(badN) > 8 {
				badN = append(badN[:8], "…")
			}
			fmt.Fprintf(&sb, " || COUNT DEVIATIONS: %s", strings.Join(badN, " "))
		}
	}
	return sb.String()
}
