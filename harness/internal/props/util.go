package props

import (
	"reflect"
	"unsafe"
)

// unexportedString reads an unexported string field of a struct pointer.
func unexportedString(ptr any, field string) string {
	v := reflect.ValueOf(ptr).Elem().FieldByName(field)
	if !v.IsValid() || v.Kind() != reflect.String {
		return ""
	}
	return reflect.NewAt(v.Type(), unsafe.Pointer(v.UnsafeAddr())).Elem().String()
}

// unexportedField returns an addressable, readable view of an unexported field.
func unexportedField(ptr any, field string) reflect.Value {
	v := reflect.ValueOf(ptr).Elem().FieldByName(field)
	if !v.IsValid() {
		return v
	}
	return reflect.NewAt(v.Type(), unsafe.Pointer(v.UnsafeAddr())).Elem()
}
