package props

import (
	"fmt"

	"github.com/cinar/indicator/v2/helper"
	"github.com/cinar/indicator/v2/trend"
	"github.com/cinar/indicator/v2/volatility"

	"verif/harness/internal/mon"
	"verif/harness/internal/run"
)

// c15IntBands: the band indicators instantiated with integer element types on
// large amounts (prices in the smallest unit of the currency): whatever the
// integer arithmetic rounds to, the bands stay ordered.
func c15IntBands(cc *run.Case) {
	intBands[int32](cc, "int32", 150_000_000)
	intBands[int64](cc, "int64", 1<<40)
	intBands[int](cc, "int", 2_000_000_000)
}

func intBands[T interface {
	~int | ~int32 | ~int64
	helper.Number
}](cc *run.Case, typ string, level int64) {
	r := cc.R
	for rep := 0; rep < 10; rep++ {
		n, p := r.Range(20, 80), r.Range(2, 9)
		xs := make([]T, n)
		v := level
		for i := range xs {
			v += int64(r.Range(-1000, 1000)) * (level / 100000)
			if v < level/2 {
				v = level / 2
			}
			xs[i] = T(v)
		}
		type band struct {
			name string
			outs [][]T
		}
		env := trend.NewEnvelope[T](trend.NewSmaWithPeriod[T](p), T(r.Pick(1, 5, 20)))
		dc := volatility.NewDonchianChannelWithPeriod[T](p)
		bands := []band{
			{fmt.Sprintf("trend.Envelope[%s] (SMA %d, %v%%)", typ, p, env.Percentage), mon.RunSimple([][]T{xs}, func(in []<-chan T) []<-chan T {
				u, m, l := env.Compute(in[0])
				return []<-chan T{u, m, l}
			})},
			{fmt.Sprintf("volatility.DonchianChannel[%s] (%d)", typ, p), mon.RunSimple([][]T{xs}, func(in []<-chan T) []<-chan T {
				u, m, l := dc.Compute(in[0])
				return []<-chan T{u, m, l}
			})},
		}
		for _, b := range bands {
			for k := range b.outs[0] {
				u, m, l := b.outs[0][k], b.outs[1][k], b.outs[2][k]
				if !(u >= m && m >= l) {
					cc.Viol("", fmt.Sprintf("%s at index %d: upper %v, middle %v, lower %v are out of order (closings around %d)", b.name, k, u, m, l, level), map[string]any{"closings": fmt.Sprint(xs[:min(n, 30)])})
					return
				}
				cc.Count("values_checked", 3)
			}
		}
	}
	cc.Distinct("intbands/" + typ + "/" + cc.Label)
}
