package props

import (
	"fmt"
	"math"
	"os"
	"path/filepath"
	"sort"
	"strings"
	"time"

	"github.com/cinar/indicator/v2/asset"
	"github.com/cinar/indicator/v2/helper"

	"verif/harness/internal/fakesql"
	"verif/harness/internal/gen"
	"verif/harness/internal/run"
)

func init() { All["C10"] = c10 }

// repoModel is the sequential specification: a map from asset name to the
// ordered list of snapshots appended so far.
type repoModel struct {
	data     map[string][]asset.Snapshot
	appended map[string]bool // names ever appended (also with an empty batch) or pre-existing
}

func newRepoModel() *repoModel {
	return &repoModel{data: map[string][]asset.Snapshot{}, appended: map[string]bool{}}
}

func (m *repoModel) append(name string, batch []asset.Snapshot) {
	m.appended[name] = true
	m.data[name] = append(m.data[name], batch...)
}

func (m *repoModel) since(name string, bound time.Time) []asset.Snapshot {
	var out []asset.Snapshot
	for _, s := range m.data[name] {
		if !s.Date.Before(bound) {
			out = append(out, s)
		}
	}
	return out
}

func sameSnap(a *asset.Snapshot, b asset.Snapshot) bool {
	eq := func(x, y float64) bool { return math.Float64bits(x) == math.Float64bits(y) }
	return a != nil && a.Date.Equal(b.Date) && eq(a.Open, b.Open) && eq(a.High, b.High) && eq(a.Low, b.Low) && eq(a.Close, b.Close) && eq(a.Volume, b.Volume)
}

func sameSnaps(got []*asset.Snapshot, want []asset.Snapshot) string {
	if len(got) != len(want) {
		return fmt.Sprintf("%d snapshots, want %d", len(got), len(want))
	}
	for i := range got {
		if !sameSnap(got[i], want[i]) {
			return fmt.Sprintf("snapshot %d is %+v, want %+v", i, got[i], want[i])
		}
	}
	return ""
}

var day0 = time.Date(2000, 1, 1, 0, 0, 0, 0, time.UTC)

var hostileFloats = []float64{math.MaxFloat64, -math.MaxFloat64, math.SmallestNonzeroFloat64, -math.SmallestNonzeroFloat64, 0, 1e-300, 123456.78901234567, -0.1, 1.0000000000000002, 9007199254740993}

func randValue(r *gen.Rand) float64 {
	switch r.Intn(5) {
	case 0:
		return hostileFloats[r.Intn(len(hostileFloats))]
	case 1:
		return math.Float64frombits(r.U64()&^(0x7ff<<52) | uint64(r.Range(1, 2046))<<52) // any finite normal float
	default:
		return gen.Round2(r.FRange(0.01, 5000))
	}
}

// repoKinds are the three read/write implementations.
var repoKinds = []string{"memory", "filesystem", "sql"}

var sqlSeq int

// secondHandle opens another repository object on the store behind repo (the
// same directory / the same database); nil for kinds that keep their data in
// the object itself.
func secondHandle(kind string, repo asset.Repository) asset.Repository {
	switch kind {
	case "filesystem", "factory-filesystem":
		if base := reflectBase(repo); base != "" {
			return asset.NewFileSystemRepository(base)
		}
	case "sql":
		if sqlLastDSN != "" {
			if r, err := asset.NewSQLRepository(fakesql.DriverName, sqlLastDSN, fakesql.Dialect{}); err == nil {
				return r
			}
		}
	}
	return nil
}

var sqlLastDSN string

func newRepo(kind string) (asset.Repository, func(), error) {
	switch kind {
	case "factory-memory":
		r, err := asset.NewRepository(asset.InMemoryRepositoryBuilderName, "")
		return r, func() {}, err
	case "factory-filesystem":
		dir, err := os.MkdirTemp("", "verif-c10-")
		if err != nil {
			return nil, nil, err
		}
		r, err := asset.NewRepository(asset.FileSystemRepositoryBuilderName, dir)
		return r, func() { os.RemoveAll(dir) }, err
	case "memory":
		return asset.NewInMemoryRepository(), func() {}, nil
	case "filesystem":
		dir, err := os.MkdirTemp("", "verif-c10-")
		if err != nil {
			return nil, nil, err
		}
		return asset.NewFileSystemRepository(dir), func() { os.RemoveAll(dir) }, nil
	case "sql":
		sqlSeq++
		dsn := fmt.Sprintf("c10-%d-%d", os.Getpid(), sqlSeq)
		sqlLastDSN = dsn
		r, err := asset.NewSQLRepository(fakesql.DriverName, dsn, fakesql.Dialect{})
		if err != nil {
			return nil, nil, err
		}
		return r, func() { r.Close(); fakesql.Forget(dsn) }, nil
	}
	return nil, nil, fmt.Errorf("unknown repository kind %q", kind)
}

type repoOp struct {
	Op    string   `json:"op"`
	Name  string   `json:"name,omitempty"`
	Dates []string `json:"dates,omitempty"`
	Bound string   `json:"bound,omitempty"`
}

// c10History runs one generated history against one implementation and the
// model in lock-step.
func c10History(cc *run.Case, kind string, nops, hidx int) bool {
	r := cc.R
	// The zone the process runs in must not matter: stored dates are whole UTC
	// days whatever time.Local is.
	oldLocal := time.Local
	time.Local = []*time.Location{time.UTC, time.FixedZone("UTC+1", 3600), time.FixedZone("UTC-5", -5*3600), time.FixedZone("UTC+9", 9*3600)}[hidx%4]
	defer func() { time.Local = oldLocal }()
	repo, cleanup, err := newRepo(kind)
	if err != nil {
		cc.Inconclusive("cannot create repository: " + err.Error())
		return false
	}
	defer cleanup()
	// A persistent repository keeps its data in the store, not in the object:
	// in a third of the histories every operation goes through one of TWO
	// objects opened on the same store, chosen at random.
	first := repo
	var second asset.Repository
	if hidx%3 == 1 {
		second = secondHandle(kind, repo)
		if c, ok := second.(interface{ Close() error }); ok {
			defer c.Close()
		}
	}
	model := newRepoModel()
	// names incl. ones that end in the letters of the ".csv" suffix and contain dots
	pool := []string{"aapl", "brk-b", "x", "goog", "vics", "cvs", "msft.v", "s", "abc.csv", "^gspc", "brk b", "50%off", "eur=usd"}
	perm := r.Perm(len(pool))
	names := make([]string, 0, 4)
	for _, i := range perm[:r.Range(3, 4)] {
		names = append(names, pool[i])
	}
	lastDay := map[string]int{}
	var hist []repoOp
	// A name may contain a path separator ("BRK/B" next to "B"): the two are
	// different assets for every repository. The file-system repository keeps
	// the first below a directory, which has to exist.
	if hidx%4 == 2 {
		names = append(names, "hb", "grp/hb")
		if base := reflectBase(repo); base != "" {
			os.MkdirAll(filepath.Join(base, "grp"), 0o700)
		}
		hist = append(hist, repoOp{Op: "names hb and grp/hb (file system: directory grp exists)"})
	}
	fail := func(msg string) bool {
		cc.Viol("", fmt.Sprintf("%s repository: %s", kind, msg), map[string]any{"repository": kind, "history": hist})
		return false
	}
	// Pre-existing files for the file-system repository: a zero-byte file and
	// a header-only file are assets without snapshots.
	if fs, ok := repo.(*asset.FileSystemRepository); ok && r.Intn(3) == 0 {
		_ = fs
		base := reflectBase(repo)
		if base != "" {
			os.WriteFile(filepath.Join(base, "zero.csv"), nil, 0o600)
			os.WriteFile(filepath.Join(base, "hdr.csv"), []byte("Date,Open,High,Low,Close,Volume\n"), 0o600)
			model.appended["zero"], model.appended["hdr"] = true, true
			names = append(names, "zero", "hdr")
			hist = append(hist, repoOp{Op: "preexisting zero.csv (0 bytes), hdr.csv (header only)"})
		}
	}
	appends, reads := 0, 0
	for step := 0; step < nops; step++ {
		if second != nil {
			repo = []asset.Repository{first, second}[r.Intn(2)]
		}
		name := names[r.Intn(len(names))]
		if r.Intn(12) == 0 {
			name = "never-appended"
		}
		if r.Intn(14) == 0 && len(model.data[name]) > 0 && len(names) < 8 {
			// copy: the stream returned by Get is handed to Append for a NEW asset
			// while it is still unread (reader and writer of one repository are
			// active at the same time), then both assets are read back
			dst := fmt.Sprintf("copy%d-of-%s", step, strings.NewReplacer(".", "_", "/", "_").Replace(name))
			hist = append(hist, repoOp{Op: "append(dst, get(src))", Name: dst + " <- " + name})
			c, err := repo.Get(name)
			if err != nil {
				return fail(fmt.Sprintf("Get(%q) returned an error although %d snapshots were appended: %v", name, len(model.data[name]), err))
			}
			if err := repo.Append(dst, c); err != nil {
				return fail(fmt.Sprintf("Append(%q, Get(%q)) returned an error: %v", dst, name, err))
			}
			model.append(dst, model.data[name])
			names = append(names, dst)
			lastDay[dst] = lastDay[name]
			appends++
			for _, n := range []string{dst, name} {
				c, err := repo.Get(n)
				if err != nil {
					return fail(fmt.Sprintf("after Append(%q, Get(%q)): Get(%q) returned an error: %v", dst, name, n, err))
				}
				if msg := sameSnaps(helper.ChanToSlice(c), model.data[n]); msg != "" {
					return fail(fmt.Sprintf("after Append(%q, Get(%q)): Get(%q): %s", dst, name, n, msg))
				}
				reads++
			}
			continue
		}
		switch k := r.Intn(10); {
		case k < 4 && name != "never-appended": // Append
			nb := r.Range(0, 5)
			batch := make([]asset.Snapshot, nb)
			ptrs := make([]*asset.Snapshot, nb)
			op := repoOp{Op: "append", Name: name}
			d := lastDay[name]
			if kind != "sql" && r.Intn(6) == 0 {
				d = max(0, d-r.Range(3, 12)) // a back-fill: this batch is dated before snapshots appended earlier
			}
			for i := range batch {
				d += r.Pick(0, 1, 1, 1, 2, 5) // equal consecutive dates included
				batch[i] = asset.Snapshot{Date: day0.AddDate(0, 0, d), Open: randValue(r), High: randValue(r), Low: randValue(r), Close: randValue(r), Volume: randValue(r)}
				if r.Intn(7) == 0 { // a row of maximal width: every field needs 17 digits, a sign and a 3-digit exponent
					long := func() float64 {
						return -math.Float64frombits(r.U64()&^(0x7ff<<52) | uint64(r.Pick(r.Range(1, 600), r.Range(1500, 2046)))<<52)
					}
					batch[i].Open, batch[i].High, batch[i].Low, batch[i].Close, batch[i].Volume = long(), long(), long(), long(), long()
				}
				c := batch[i]
				ptrs[i] = &c
				op.Dates = append(op.Dates, batch[i].Date.Format("2006-01-02"))
			}
			lastDay[name] = d
			hist = append(hist, op)
			if err := repo.Append(name, feedChan(r, ptrs)); err != nil {
				return fail(fmt.Sprintf("Append(%s, %d snapshots) returned an error: %v", name, nb, err))
			}
			model.append(name, batch)
			appends++
			// An Append that has returned is visible to every later read:
			// read back immediately, no sleep, no retry.
			fallthrough
		case k < 6: // Get
			hist = append(hist, repoOp{Op: "get", Name: name})
			c, err := repo.Get(name)
			reads++
			switch {
			case !model.appended[name]:
				if err == nil {
					n := len(helper.ChanToSlice(c))
					return fail(fmt.Sprintf("Get(%q) of a name that was never appended returned no error (%d snapshots)", name, n))
				}
			case len(model.data[name]) == 0:
				// appended with empty batches only: an empty result or an error are both acceptable
				if err == nil {
					if got := helper.ChanToSlice(c); len(got) != 0 {
						return fail(fmt.Sprintf("Get(%q) returned %d snapshots for an asset without snapshots", name, len(got)))
					}
				}
			default:
				if err != nil {
					return fail(fmt.Sprintf("Get(%q) returned an error although %d snapshots were appended: %v", name, len(model.data[name]), err))
				}
				if msg := sameSnaps(helper.ChanToSlice(c), model.data[name]); msg != "" {
					return fail(fmt.Sprintf("Get(%q): %s", name, msg))
				}
			}
		case k < 8: // GetSince
			bound := day0.AddDate(0, 0, lastDay[name]+r.Range(-6, 2))
			if n := len(model.data[name]); n > 0 && r.Bool() {
				bound = model.data[name][r.Intn(n)].Date.AddDate(0, 0, r.Range(-1, 1))
			}
			if bound.Before(day0) {
				bound = day0
			}
			switch r.Intn(8) {
			case 0: // a bound with a time of day: snapshots dated that day (at midnight) are BEFORE it
				bound = bound.Add(time.Duration(r.Range(1, 23)) * time.Hour)
			case 1: // the same instant expressed in another zone
				bound = bound.In(time.FixedZone("", r.Pick(-5, 1, 9)*3600))
			case 2: // a bound a second before midnight
				bound = bound.Add(-time.Second)
			}
			hist = append(hist, repoOp{Op: "getSince", Name: name, Bound: bound.Format("2006-01-02")})
			c, err := repo.GetSince(name, bound)
			reads++
			switch {
			case !model.appended[name]:
				if err == nil {
					helper.Drain(c)
					return fail(fmt.Sprintf("GetSince(%q) of a name that was never appended returned no error", name))
				}
			case len(model.data[name]) == 0:
				if err == nil {
					if got := helper.ChanToSlice(c); len(got) != 0 {
						return fail(fmt.Sprintf("GetSince(%q) returned %d snapshots for an asset without snapshots", name, len(got)))
					}
				}
			default:
				if err != nil {
					return fail(fmt.Sprintf("GetSince(%q, %s) returned an error: %v", name, bound.Format("2006-01-02"), err))
				}
				if msg := sameSnaps(helper.ChanToSlice(c), model.since(name, bound)); msg != "" {
					return fail(fmt.Sprintf("GetSince(%q, %s): %s", name, bound.Format("2006-01-02"), msg))
				}
			}
		case k < 9: // LastDate
			hist = append(hist, repoOp{Op: "lastDate", Name: name})
			d, err := repo.LastDate(name)
			reads++
			if n := len(model.data[name]); n == 0 {
				if err == nil {
					return fail(fmt.Sprintf("LastDate(%q) of an asset without snapshots returned %s and no error", name, d.Format("2006-01-02")))
				}
			} else {
				if err != nil {
					return fail(fmt.Sprintf("LastDate(%q) returned an error although the asset holds %d snapshots: %v", name, n, err))
				}
				if want := model.data[name][n-1].Date; !d.Equal(want) {
					return fail(fmt.Sprintf("LastDate(%q) = %s, the last appended snapshot is dated %s", name, d.Format("2006-01-02"), want.Format("2006-01-02")))
				}
			}
		default: // Assets
			hist = append(hist, repoOp{Op: "assets"})
			got, err := repo.Assets()
			reads++
			if err != nil {
				return fail(fmt.Sprintf("Assets() returned an error: %v", err))
			}
			have := map[string]bool{}
			for _, n := range got {
				if have[n] {
					return fail(fmt.Sprintf("Assets() lists %q twice: %v", n, got))
				}
				have[n] = true
				if !model.appended[n] {
					return fail(fmt.Sprintf("Assets() lists %q, which was never appended: %v", n, got))
				}
			}
			for n, l := range model.data {
				if strings.Contains(kind, "filesystem") && strings.Contains(n, "/") {
					continue // listing names below a directory is not something the file-system repository documents
				}
				if len(l) > 0 && !have[n] {
					sort.Strings(got)
					return fail(fmt.Sprintf("Assets() = %v does not list %q, which holds %d snapshots", got, n, len(l)))
				}
			}
			// the returned list belongs to the caller: writing to it must not reach the repository
			for i := range got {
				got[i] = "scribbled-over"
			}
			_ = append(got[:0], "ghost", "ghost2", "ghost3", "ghost4")
		}
	}
	cc.Count("ops:"+kind, int64(len(hist)))
	cc.Count("appends", int64(appends))
	cc.Count("reads", int64(reads))
	if appends >= 2 && reads >= 3 {
		cc.Distinct(fmt.Sprintf("%s/%s/%d", kind, cc.Label, hidx))
	}
	if cc.WantSample() && len(hist) <= 14 && appends >= 2 {
		cc.Sample(map[string]any{"repository": kind, "history": hist})
	}
	return true
}

// feedChan delivers a batch through an unbuffered channel, a partly
// buffered one, or a buffered channel that already holds the whole batch when
// the call is made.
func feedChan[T any](r *gen.Rand, items []T) <-chan T {
	switch r.Intn(3) {
	case 0:
		return helper.SliceToChan(items)
	case 1:
		c := make(chan T, len(items)+r.Range(0, 3))
		for _, it := range items {
			c <- it
		}
		close(c)
		return c
	default:
		c := make(chan T, r.Range(1, 3))
		go func() {
			for _, it := range items {
				c <- it
			}
			close(c)
		}()
		return c
	}
}

// reflectBase returns the base directory of a FileSystemRepository.
func reflectBase(r asset.Repository) string {
	fs, ok := r.(*asset.FileSystemRepository)
	if !ok {
		return ""
	}
	return unexportedString(fs, "base")
}

func c10(ctx *run.Ctx) {
	nhist := ctx.Pick(400, 20000)
	nops := ctx.Pick(12, 40)
	per := 10
	for b := 0; b < nhist/per; b++ {
		kinds := repoKinds
		if b%4 == 3 { // the same histories on repositories obtained through asset.NewRepository
			kinds = []string{"factory-memory", "factory-filesystem"}
		}
		for _, kind := range kinds {
			b, kind := b, kind
			ctx.Case(fmt.Sprintf("%s/batch%d", kind, b), func(cc *run.Case) {
				for h := 0; h < per; h++ {
					cc.Desc(map[string]any{"repository": kind, "history": h})
					if !c10History(cc, kind, nops, h) {
						return
					}
					cc.Count("histories", 1)
				}
			})
		}
	}
	c10Concurrent(ctx, ctx.Pick(6, 150))
	// A long history: more snapshots than any block or buffer an implementation
	// might carve rows out of, read into a slice that keeps every row.
	ctx.Case("filesystem/long-history", func(cc *run.Case) {
		for _, kind := range []string{"filesystem", "memory", "sql"} {
			repo, cleanup, err := newRepo(kind)
			if err != nil {
				cc.Inconclusive(err.Error())
				return
			}
			n := 1300
			want := make([]asset.Snapshot, n)
			ptrs := make([]*asset.Snapshot, n)
			for i := range want {
				want[i] = asset.Snapshot{Date: day0.AddDate(0, 0, i), Open: float64(i) + 0.5, High: float64(i) + 2, Low: float64(i), Close: float64(i) + 1, Volume: float64(1000 + i)}
				c := want[i]
				ptrs[i] = &c
			}
			cc.Desc(map[string]any{"repository": kind, "snapshots": n})
			if err := repo.Append("long", helper.SliceToChan(ptrs)); err != nil {
				cc.Viol("", kind+" repository: Append of 1300 snapshots failed: "+err.Error(), nil)
				cleanup()
				return
			}
			c, err := repo.Get("long")
			if err != nil {
				cc.Viol("", kind+" repository: Get after an Append of 1300 snapshots failed: "+err.Error(), nil)
				cleanup()
				return
			}
			if msg := sameSnaps(helper.ChanToSlice(c), want); msg != "" {
				cc.Viol("", fmt.Sprintf("%s repository: 1300 snapshots read into a slice: %s", kind, msg), nil)
				cleanup()
				return
			}
			cleanup()
			cc.Count("ops:"+kind, 2)
		}
		cc.Distinct("long-history")
	})
	// A device that accepts no data: an Append that stored nothing must not
	// return as if it had (the append would be invisible to every later read).
	ctx.Case("filesystem/write-fault", func(cc *run.Case) {
		if _, err := os.Stat("/dev/full"); err != nil {
			cc.Count("write_fault_unavailable", 1)
			return
		}
		repo, cleanup, err := newRepo("filesystem")
		if err != nil {
			cc.Inconclusive(err.Error())
			return
		}
		defer cleanup()
		base := reflectBase(repo)
		if base == "" || os.Symlink("/dev/full", filepath.Join(base, "full.csv")) != nil {
			cc.Count("write_fault_unavailable", 1)
			return
		}
		for _, n := range []int{1, 3, 400} { // below and above the writer's buffer size
			var snaps []*asset.Snapshot
			for d := 0; d < n; d++ {
				snaps = append(snaps, &asset.Snapshot{Date: day0.AddDate(0, 0, d), Open: 1, High: 2, Low: 0.5, Close: 1.5, Volume: 10})
			}
			cc.Desc(map[string]any{"repository": "filesystem", "asset_file": "symlink to /dev/full", "snapshots": n})
			if err := repo.Append("full", helper.SliceToChan(snaps)); err == nil {
				cc.Viol("", fmt.Sprintf("file-system repository: Append of %d snapshots to an asset whose file cannot take any data (ENOSPC on every write) returned no error", n), nil)
				return
			}
			cc.Count("write_fault_cases", 1)
		}
		cc.Distinct("filesystem/write-fault")
	})
}
