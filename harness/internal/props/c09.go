package props

import (
	"bytes"
	"fmt"
	strend "github.com/cinar/indicator/v2/strategy/trend"
	"regexp"
	"runtime"
	"strings"
	"sync"

	"github.com/cinar/indicator/v2/asset"
	"github.com/cinar/indicator/v2/helper"
	"github.com/cinar/indicator/v2/strategy"

	"verif/harness/internal/gen"
	"verif/harness/internal/mon"
	"verif/harness/internal/reg"
	"verif/harness/internal/run"
)

func init() {
	All["C09"] = func(ctx *run.Ctx) { c09(ctx, false) }
	All["C09R"] = func(ctx *run.Ctx) { c09(ctx, true) }
}

var addRowRe = regexp.MustCompile(`(?s)data\.addRow\(\[(.*?)\]\);`)

// renderRows renders a strategy report and returns its data rows (the
// generated-on timestamp is not part of them).
func renderRows(s strategy.Strategy, snaps []*asset.Snapshot) ([]string, error) {
	rep := s.Report(helper.SliceToChan(snaps))
	var buf bytes.Buffer
	if err := rep.WriteToWriter(&buf); err != nil {
		return nil, err
	}
	var rows []string
	for _, m := range addRowRe.FindAllStringSubmatch(buf.String(), -1) {
		rows = append(rows, strings.Join(strings.Fields(m[1]), ""))
	}
	return rows, nil
}

func eqStrings(a, b []string) bool {
	if len(a) != len(b) {
		return false
	}
	for i := range a {
		if a[i] != b[i] {
			return false
		}
	}
	return true
}

func eqOuts(a, b [][]float64) bool {
	if len(a) != len(b) {
		return false
	}
	for j := range a {
		if !bitsEq(a[j], b[j]) {
			return false
		}
	}
	return true
}

// c09Indicator: (i) state immutability, (ii) sequential reuse, (iii)
// concurrent use of ONE instance.
func c09Indicator(cc *run.Case, ind *reg.Indicator, cfg reg.Cfg, raceOnly bool) {
	const K = 8
	w := ind.New(cfg).Idle
	inputs := make([][][]float64, K)
	want := make([][][]float64, K)
	for i := range inputs {
		n := []int{2*w + 9, w + 2, 60, 0, w, 33, 3*w + 1, 17}[i]
		class := []string{gen.Walk, gen.Ties, gen.Walk2, gen.Walk, gen.Degen, gen.Dyadic, gen.Plateau, gen.Walk}[i]
		inputs[i] = indInputs(ind, gen.Bars(cc.R, class, n), nil)
		if !raceOnly {
			want[i] = runInd(ind.New(cfg), inputs[i]) // fresh instance per input
		}
	}
	shared := ind.New(cfg)
	desc := map[string]any{"indicator": ind.Name, "cfg": cfg}
	if !raceOnly {
		cc.Desc(desc)
		fp0 := mon.Fingerprint(shared.Obj)
		// (ii) A, B (different length), A again on one instance
		for _, i := range []int{0, 1, 0, 3, 2, 0} {
			got := runInd(shared, inputs[i])
			cc.Count("sequential_calls", 1)
			if !eqOuts(got, want[i]) {
				cc.Viol("", fmt.Sprintf("%s %v: a reused instance gives different results from a fresh one (call sequence A,B,A,...; input %d)", ind.Name, cfg, i), desc)
				return
			}
			if fp := mon.Fingerprint(shared.Obj); fp != fp0 {
				cc.Viol("", fmt.Sprintf("%s %v: Compute changed the state of the instance (deep fingerprint %x -> %x): an indicator value must hold configuration only", ind.Name, cfg, fp0, fp), desc)
				return
			}
		}
	}
	// (iii) K concurrent Compute calls on the shared instance, released together.
	var wg sync.WaitGroup
	start := make(chan struct{})
	got := make([][][]float64, K)
	for i := 0; i < K; i++ {
		wg.Add(1)
		go func(i int) {
			defer wg.Done()
			<-start
			got[i] = runInd(shared, inputs[i])
		}(i)
	}
	close(start)
	wg.Wait()
	cc.Count("concurrent_calls", K)
	if !raceOnly {
		for i := range got {
			if !eqOuts(got[i], want[i]) {
				cc.Viol("", fmt.Sprintf("%s %v: %d concurrent Compute calls on one instance: the result for input %d differs from a fresh instance's", ind.Name, cfg, K, i), desc)
				return
			}
		}
	}
	cc.Count("cmp:"+ind.Name, 1)
	cc.Distinct(fmt.Sprintf("%s/%v", ind.Name, cfg))
}

func c09Strategy(cc *run.Case, ns namedStrat, raceOnly bool) {
	const K = 6
	snaps := make([][]*asset.Snapshot, K)
	want := make([][]strategy.Action, K)
	wantRows := make([][]string, K)
	orig := make([][]asset.Snapshot, K) // the snapshots as generated, before anything ran on them
	for i := range snaps {
		n := []int{2*ns.Warm + 25, ns.Warm + 3, 70, 2, ns.Warm + 40, 120}[i]
		class := []string{gen.Walk, gen.Ties, gen.Walk2, gen.Walk, gen.Degen, gen.Dyadic}[i]
		snaps[i] = reg.Snaps(gen.Bars(cc.R, class, n))
		for _, sp := range snaps[i] {
			orig[i] = append(orig[i], *sp)
		}
		if !raceOnly {
			want[i] = runStrat(ns.New(), snaps[i])
			if len(snaps[i]) > ns.Warm {
				rows, err := renderRows(ns.New(), snaps[i])
				if err != nil {
					cc.Inconclusive("report rendering failed: " + err.Error())
					return
				}
				wantRows[i] = rows
			}
		}
	}
	// The snapshots belong to the caller and are shared by every strategy that
	// is run on the asset: nothing may write to them.
	untouched := func(when string) bool {
		for i := range snaps {
			for k, sp := range snaps[i] {
				if *sp != orig[i][k] {
					cc.Viol("", fmt.Sprintf("%s: %s the caller's snapshot %d of input %d reads %+v, it was %+v: the strategy wrote to its input", ns.Name, when, k, i, *sp, orig[i][k]), map[string]any{"strategy": ns.Name})
					return false
				}
			}
		}
		return true
	}
	if !raceOnly && !untouched("after Compute and Report on fresh instances") {
		return
	}
	shared := ns.New()
	desc := map[string]any{"strategy": ns.Name}
	if !raceOnly {
		cc.Desc(desc)
		fp0 := mon.Fingerprint(shared)
		for _, i := range []int{0, 1, 0, 3, 2} {
			got := runStrat(shared, snaps[i])
			cc.Count("sequential_calls", 1)
			if !eqActions(got, want[i]) {
				cc.Viol("", fmt.Sprintf("%s: a reused instance gives different actions from a fresh one (call sequence A,B,A,...; input %d)", ns.Name, i), desc)
				return
			}
			if wantRows[i] != nil {
				rows, err := renderRows(shared, snaps[i])
				if err != nil || !eqStrings(rows, wantRows[i]) {
					cc.Viol("", fmt.Sprintf("%s: Report on a reused instance renders different rows from a fresh instance (input %d, err=%v)", ns.Name, i, err), desc)
					return
				}
				cc.Count("sequential_reports", 1)
			}
			if fp := mon.Fingerprint(shared); fp != fp0 {
				cc.Viol("", fmt.Sprintf("%s: Compute/Report changed the state of the instance (deep fingerprint %x -> %x): a strategy value must hold configuration only", ns.Name, fp0, fp), desc)
				return
			}
		}
	}
	var wg sync.WaitGroup
	start := make(chan struct{})
	got := make([][]strategy.Action, K)
	gotRows := make([][]string, K)
	for i := 0; i < K; i++ {
		wg.Add(1)
		go func(i int) {
			defer wg.Done()
			<-start
			got[i] = runStrat(shared, snaps[i])
			if len(snaps[i]) > ns.Warm && i%2 == 0 {
				gotRows[i], _ = renderRows(shared, snaps[i])
			}
		}(i)
	}
	close(start)
	wg.Wait()
	cc.Count("concurrent_calls", K)
	if !raceOnly {
		for i := range got {
			if !eqActions(got[i], want[i]) {
				cc.Viol("", fmt.Sprintf("%s: %d concurrent Compute calls on one instance: the actions for input %d differ from a fresh instance's", ns.Name, K, i), desc)
				return
			}
			if gotRows[i] != nil && wantRows[i] != nil && !eqStrings(gotRows[i], wantRows[i]) {
				cc.Viol("", fmt.Sprintf("%s: concurrent Report calls on one instance: rows for input %d differ from a fresh instance's", ns.Name, i), desc)
				return
			}
		}
	}
	if !raceOnly && !untouched("after the concurrent calls") {
		return
	}
	if !raceOnly {
		// a close-only feed (no open/high/low/volume): whatever a strategy makes of
		// it, it must not complete the caller's data in place
		feed := make([]*asset.Snapshot, 40)
		for i := range feed {
			feed[i] = &asset.Snapshot{Date: reg.Day(i), Close: 50 + float64(i%7)}
		}
		runStrat(ns.New(), feed)
		for i, sp := range feed {
			if sp.Open != 0 || sp.High != 0 || sp.Low != 0 || sp.Volume != 0 || sp.Close != 50+float64(i%7) {
				cc.Viol("", fmt.Sprintf("%s: a close-only snapshot handed to Compute reads %+v afterwards: the strategy wrote to its input", ns.Name, *sp), map[string]any{"strategy": ns.Name})
				return
			}
		}
	}
	{
		// the evaluation entry point (actions and outcome of one strategy), twice
		// at the same time over the SAME snapshots, as a backtest of two
		// strategies does; two sessions come without a close. The snapshots are
		// shared and read-only.
		bars := gen.Bars(cc.R, gen.Walk2, ns.Warm+30)
		feed := reg.Snaps(bars)
		feed[len(feed)/3].Close, feed[len(feed)-4].Close = 0, 0
		before := make([]asset.Snapshot, len(feed))
		for i, sp := range feed {
			before[i] = *sp
		}
		var wg2 sync.WaitGroup
		for k := 0; k < 2; k++ {
			wg2.Add(1)
			go func() {
				defer wg2.Done()
				actions, outcomes := strategy.ComputeWithOutcome(ns.New(), helper.SliceToChan(feed))
				done := make(chan struct{})
				go func() { helper.Drain(outcomes); close(done) }()
				helper.Drain(actions)
				<-done
			}()
		}
		wg2.Wait()
		cc.Count("outcome_evaluations_over_shared_snapshots", 2)
		if !raceOnly {
			for i, sp := range feed {
				if *sp != before[i] {
					cc.Viol("", fmt.Sprintf("%s: after ComputeWithOutcome the caller's snapshot %d reads %+v, it was %+v: the evaluation wrote to its input", ns.Name, i, *sp, before[i]), map[string]any{"strategy": ns.Name})
					return
				}
			}
		}
	}
	if ns.Row != nil {
		cc.Count("cmp:"+ns.Row.Name, 1)
	}
	cc.Distinct(ns.Name)
}

// c09Helpers runs many small pipelines of parameterised stream helpers AT THE
// SAME TIME, each with its own parameters (digits, counts, factors), and
// compares every result with the same pipeline run alone: state kept
// outside the call (a package-level cache of the last parameter, a shared
// scratch buffer) shows up as a wrong value here and as a report of the race
// detector in the race phase.
func c09Helpers(cc *run.Case, raceOnly bool) {
	type job struct {
		name string
		run  func(xs []float64) []float64
	}
	var jobs []job
	for _, d := range []int{0, 1, 2, 3, 4, 6} {
		d := d
		jobs = append(jobs, job{fmt.Sprintf("RoundDigits(%d)", d), func(xs []float64) []float64 {
			return helper.ChanToSlice(helper.RoundDigits(helper.SliceToChan(xs), d))
		}})
	}
	for _, k := range []int{1, 2, 3, 5, 8} {
		k := k
		jobs = append(jobs,
			job{fmt.Sprintf("Shift(%d)+Skip(%d)", k, k-1), func(xs []float64) []float64 {
				return helper.ChanToSlice(helper.Skip(helper.Shift(helper.SliceToChan(xs), k, float64(k)), k-1))
			}},
			job{fmt.Sprintf("MultiplyBy(%d)+IncrementBy(%d)+Pow(%d)", k, k, k%3+1), func(xs []float64) []float64 {
				return helper.ChanToSlice(helper.Pow(helper.IncrementBy(helper.MultiplyBy(helper.SliceToChan(xs), float64(k)), float64(k)), float64(k%3+1)))
			}},
			job{fmt.Sprintf("Change(%d)", k), func(xs []float64) []float64 {
				return helper.ChanToSlice(helper.Change(helper.SliceToChan(xs), k))
			}},
			job{fmt.Sprintf("ChangePercent(%d)", k), func(xs []float64) []float64 {
				return helper.ChanToSlice(helper.ChangePercent(helper.SliceToChan(xs), k))
			}},
			job{fmt.Sprintf("Last(%d)", k), func(xs []float64) []float64 {
				return helper.ChanToSlice(helper.Last(helper.SliceToChan(xs), k))
			}},
			job{fmt.Sprintf("Buffered(%d)+First(%d)", k, 3*k), func(xs []float64) []float64 {
				c := helper.Buffered(helper.SliceToChan(xs), k)
				out := helper.ChanToSlice(helper.First(c, 3*k))
				return out
			}},
		)
	}
	inputs := make([][]float64, len(jobs))
	want := make([][]float64, len(jobs))
	for i := range jobs {
		n := cc.R.Range(20, 80)
		xs := make([]float64, n)
		for k := range xs {
			xs[k] = cc.R.FRange(-50, 150)
		}
		inputs[i] = xs
		if !raceOnly {
			want[i] = jobs[i].run(xs)
		}
	}
	got := make([][]float64, len(jobs))
	var wg sync.WaitGroup
	start := make(chan struct{})
	for i := range jobs {
		wg.Add(1)
		go func(i int) {
			defer wg.Done()
			<-start
			for rep := 0; rep < 3; rep++ {
				got[i] = jobs[i].run(inputs[i])
			}
		}(i)
	}
	close(start)
	wg.Wait()
	cc.Count("concurrent_helper_pipelines", int64(len(jobs)))
	if !raceOnly {
		for i := range jobs {
			if !bitsEq(got[i], want[i]) {
				cc.Viol("", fmt.Sprintf("helper pipeline %s gives a different result when %d other helper pipelines with other parameters run at the same time", jobs[i].name, len(jobs)-1),
					map[string]any{"pipeline": jobs[i].name, "input": inputs[i], "alone": jsonSafe([][]float64{want[i]}), "concurrent": jsonSafe([][]float64{got[i]})})
				return
			}
		}
	}
	cc.Distinct("helpers/" + cc.Label)
}

func c09(ctx *run.Ctx, raceOnly bool) {
	runtime.GOMAXPROCS(16)
	nrand := ctx.Pick(1, 8)
	reps := 1
	if raceOnly {
		reps = ctx.Pick(3, 10) // race reports vary from run to run: repeat the racy batch
	}
	for _, ind := range reg.Sorted() {
		ind := ind
		ctx.Count("cmp:"+ind.Name, 0)
		for ci, cfg := range indCfgs(ctx, ind, nrand) {
			ci, cfg := ci, cfg
			for rep := 0; rep < reps; rep++ {
				ctx.Case(fmt.Sprintf("ind/%s/cfg%d/rep%d", ind.Name, ci, rep), func(cc *run.Case) {
					c09Indicator(cc, ind, cfg, raceOnly)
				})
			}
		}
	}
	for b := 0; b < ctx.Pick(6, 40); b++ {
		ctx.Case(fmt.Sprintf("helpers/%d", b), func(cc *run.Case) { c09Helpers(cc, raceOnly) })
	}
	// Groups built over sub-slices of ONE list share its backing array: whatever
	// one group does (Compute, Report) must leave the members of the other alone.
	if !raceOnly {
		ctx.Case("groups-over-one-list", func(cc *run.Case) {
			mk := func() []strategy.Strategy {
				return []strategy.Strategy{strategy.NewBuyAndHoldStrategy(), strend.NewMacdStrategyWith(3, 6, 2), strend.NewBopStrategy(), strend.NewQstickStrategy()}
			}
			snaps := reg.Snaps(gen.Bars(cc.R, gen.Walk2, 90))
			type pair struct {
				name string
				mk   func(l []strategy.Strategy) (strategy.Strategy, strategy.Strategy)
			}
			for _, p := range []pair{
				{"Or", func(l []strategy.Strategy) (strategy.Strategy, strategy.Strategy) {
					return strategy.NewOrStrategy("a", l[:2]...), strategy.NewOrStrategy("b", l[2:]...)
				}},
				{"And", func(l []strategy.Strategy) (strategy.Strategy, strategy.Strategy) {
					return strategy.NewAndStrategy("a", l[:2]...), strategy.NewAndStrategy("b", l[2:]...)
				}},
				{"Majority", func(l []strategy.Strategy) (strategy.Strategy, strategy.Strategy) {
					return strategy.NewMajorityStrategyWith("a", l[:2]), strategy.NewMajorityStrategyWith("b", l[2:])
				}},
			} {
				_, bFresh := p.mk(mk())
				want := runStrat(bFresh, snaps)
				a, b := p.mk(mk())
				runStrat(a, snaps)
				if _, err := renderRows(a, snaps); err != nil {
					cc.Inconclusive("report rendering failed: " + err.Error())
					return
				}
				if got := runStrat(b, snaps); !eqActions(got, want) {
					cc.Viol("", fmt.Sprintf("two %s groups over the two halves of one list of strategies: after Compute and Report on the first group the second one recommends differently from a group built over its own list", p.name), map[string]any{"group": p.name})
					return
				}
				cc.Count("sequential_calls", 3)
			}
			cc.Distinct("groups-over-one-list")
		})
	}
	base := baseStrats(ctx, nrand)
	var small []namedStrat
	for _, b := range base {
		if b.Warm <= 40 {
			small = append(small, b)
		}
	}
	all := append(append([]namedStrat(nil), base...), compoundStrats(ctx, small, ctx.Pick(3, 12))...)
	for si, ns := range all {
		ns := ns
		for rep := 0; rep < reps; rep++ {
			ctx.Case(fmt.Sprintf("strat/%d/rep%d", si, rep), func(cc *run.Case) {
				c09Strategy(cc, ns, raceOnly)
				if cc.WantSample() && si%13 == 6 {
					cc.Sample(map[string]any{"pipeline": ns.Name, "calls": "A,B,A,D,C sequentially (Compute + Report) then 6 concurrent Compute/Report on ONE instance", "oracle": "results == fresh instances; deep state fingerprint unchanged; race detector in the race phase"})
				}
			})
		}
	}
}
