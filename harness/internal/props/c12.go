package props

import (
	"errors"
	"fmt"
	"os"
	"path/filepath"
	"runtime"
	"sort"
	"strings"
	"sync"
	"sync/atomic"
	"time"

	"github.com/anishathalye/porcupine"
	"github.com/cinar/indicator/v2/asset"
	"github.com/cinar/indicator/v2/helper"

	"verif/harness/internal/gen"
	"verif/harness/internal/run"
)

func init() {
	All["C12"] = func(ctx *run.Ctx) { c12(ctx, false) }
	All["C12R"] = func(ctx *run.Ctx) { c12(ctx, true) }
}

// ---- recording / fault-injecting repository wrapper ----

type repoEvent struct {
	Client int
	Op     string // lastDate, getSince, append, get, assets
	Name   string
	Call   int64
	Ret    int64
	In     string // append: dates appended; getSince: bound
	Out    string // lastDate: date or "err"; get: dates; append: "ok"/"err"
}

type recorder struct {
	mu     sync.Mutex
	clock  atomic.Int64
	events []repoEvent
	client atomic.Int64
}

func (r *recorder) add(e repoEvent) {
	r.mu.Lock()
	r.events = append(r.events, e)
	r.mu.Unlock()
}

var errInjected = errors.New("injected fault")

// wrapRepo wraps a repository: it records every call/return with a logical
// clock, injects errors for chosen assets and yields between operations to
// vary worker interleavings.
type wrapRepo struct {
	inner        asset.Repository
	rec          *recorder
	failGetSince map[string]bool
	failAppend   map[string]bool
	failAssets   bool
	pace         uint64
	calls        atomic.Int64
}

func (w *wrapRepo) yield() {
	n := (w.pace + uint64(w.calls.Add(1))*0x9E3779B97F4A7C15) >> 61
	for i := uint64(0); i < n; i++ {
		runtime.Gosched()
	}
}

func dates(snaps []*asset.Snapshot) string {
	var sb strings.Builder
	for _, s := range snaps {
		sb.WriteString(s.Date.Format("060102"))
		sb.WriteByte(' ')
	}
	return sb.String()
}

func (w *wrapRepo) Assets() ([]string, error) {
	w.yield()
	if w.failAssets {
		return nil, errInjected
	}
	return w.inner.Assets()
}

func (w *wrapRepo) Get(name string) (<-chan *asset.Snapshot, error) {
	w.yield()
	call := w.rec.clock.Add(1)
	c, err := w.inner.Get(name)
	var got []*asset.Snapshot
	if err == nil {
		got = helper.ChanToSlice(c)
	}
	out := dates(got)
	if err != nil {
		out = "err"
	}
	w.rec.add(repoEvent{Op: "get", Name: name, Call: call, Ret: w.rec.clock.Add(1), Out: out})
	if err != nil {
		return nil, err
	}
	return helper.SliceToChan(got), nil
}

func (w *wrapRepo) GetSince(name string, date time.Time) (<-chan *asset.Snapshot, error) {
	w.yield()
	if w.failGetSince[name] {
		return nil, errInjected
	}
	return w.inner.GetSince(name, date)
}

func (w *wrapRepo) LastDate(name string) (time.Time, error) {
	w.yield()
	call := w.rec.clock.Add(1)
	d, err := w.inner.LastDate(name)
	out := d.Format("060102")
	if err != nil {
		out = "err"
	}
	w.rec.add(repoEvent{Op: "lastDate", Name: name, Call: call, Ret: w.rec.clock.Add(1), Out: out})
	return d, err
}

func (w *wrapRepo) Append(name string, snapshots <-chan *asset.Snapshot) error {
	w.yield()
	if w.failAppend[name] {
		go helper.Drain(snapshots)
		return errInjected
	}
	batch := helper.ChanToSlice(snapshots)
	call := w.rec.clock.Add(1)
	var in <-chan *asset.Snapshot = helper.SliceToChan(batch)
	if w.calls.Load()%2 == 0 { // a buffered channel that already holds the whole batch
		c := make(chan *asset.Snapshot, len(batch)+2)
		for _, s := range batch {
			c <- s
		}
		close(c)
		in = c
	}
	err := w.inner.Append(name, in)
	out := "ok"
	if err != nil {
		out = "err"
	}
	w.rec.add(repoEvent{Op: "append", Name: name, Call: call, Ret: w.rec.clock.Add(1), In: dates(batch), Out: out})
	return err
}

// ---- porcupine model of one asset of the target: the ordered date list ----

var repoPorcupineModel = porcupine.Model{
	Partition: func(history []porcupine.Operation) [][]porcupine.Operation {
		by := map[string][]porcupine.Operation{}
		var keys []string
		for _, op := range history {
			k := op.Input.(pcKeyed).Name
			if _, ok := by[k]; !ok {
				keys = append(keys, k)
			}
			by[k] = append(by[k], op)
		}
		sort.Strings(keys)
		out := make([][]porcupine.Operation, len(keys))
		for i, k := range keys {
			out[i] = by[k]
		}
		return out
	},
	Init: func() any { return "?" }, // "?" = state before the first observation (initial target contents)
	Step: func(state, input, output any) (bool, any) {
		in := input.(pcKeyed)
		st := state.(string)
		out := output.(string)
		switch in.Op {
		case "init":
			return true, in.Dates
		case "append":
			if out != "ok" {
				return true, st
			}
			return true, st + in.Dates
		case "lastDate":
			f := strings.Fields(st)
			if len(f) == 0 {
				return out == "err", st
			}
			return out == f[len(f)-1], st
		case "get":
			if out == "err" {
				return st == "", st // an unknown/empty asset may report an error
			}
			return out == st, st
		}
		return false, st
	},
	Equal: func(a, b any) bool { return a.(string) == b.(string) },
}

type pcKeyed struct {
	Name  string
	Op    string
	Dates string
}

// ---- scenario ----

type syncScenario struct {
	Assets    []string            `json:"assets"`
	Source    map[string][]int    `json:"source_days"`
	TargetLen map[string]int      `json:"target_prefix_len"` // -1 = asset absent from the target
	Placeholder []string          `json:"zero_byte_placeholder_files"` // file-system target: <name>.csv exists with 0 bytes
	Explicit  bool                `json:"explicit_asset_list"`
	Missing   []string            `json:"requested_but_not_in_source"`
	StartDay  int                 `json:"default_start_day"`
	StartHour int                 `json:"default_start_hour"` // the default start date need not be a midnight: a snapshot dated that day is then before it
	Workers   int                 `json:"workers"`
	Target    string              `json:"target_kind"`
	F1        []string            `json:"fail_source_getsince"`
	F2        []string            `json:"fail_target_append"`
}

func mkSnap(day int) *asset.Snapshot {
	return &asset.Snapshot{Date: day0.AddDate(0, 0, day), Open: float64(day), High: float64(day) + 1, Low: float64(day) - 1, Close: float64(day) + 0.5, Volume: 1000 + float64(day)}
}

func genScenario(r *gen.Rand, nAssets int, target string, workers int) syncScenario {
	sc := syncScenario{Source: map[string][]int{}, TargetLen: map[string]int{}, Workers: workers, Target: target, Explicit: r.Intn(3) > 0, StartDay: r.Range(0, 12)}
	if r.Intn(3) == 0 {
		sc.StartHour = r.Range(1, 23)
	}
	// two names with the same last path element are two assets (asked for by
	// name: a file-system target does not list what it keeps below a directory)
	hier := nAssets >= 2 && r.Intn(4) == 0
	if hier {
		sc.Explicit = true
	}
	for i := 0; i < nAssets; i++ {
		name := fmt.Sprintf("a%02d%s", i, []string{"", "s", ".c", "v"}[i%4])
		if hier && i < 2 {
			name = []string{"hb", "grp/hb"}[i]
		}
		sc.Assets = append(sc.Assets, name)
		n := r.Range(0, 20)
		d := r.Range(0, 6)
		for k := 0; k < n; k++ {
			sc.Source[name] = append(sc.Source[name], d)
			d += r.Pick(1, 1, 1, 2, 3)
		}
		sc.TargetLen[name] = r.Range(-1, n)
		if !sc.Explicit && sc.TargetLen[name] < 0 {
			sc.TargetLen[name] = 0 // assets are taken from the target: it must know the name
		}
		if target == "filesystem" && sc.TargetLen[name] <= 0 && r.Intn(3) == 0 {
			sc.TargetLen[name] = 0
			sc.Placeholder = append(sc.Placeholder, name) // a touch'ed placeholder instead of a header-only file
		}
	}
	if target == "sql" {
		// a SQL target lists only assets that hold rows: always name the assets explicitly
		sc.Explicit = true
	}
	if sc.Explicit && r.Intn(3) == 0 {
		sc.Missing = []string{"zz-not-in-source"}
	}
	return sc
}

func subsetNames(assets []string, mask int) []string {
	var out []string
	for i, a := range assets {
		if mask&(1<<i) != 0 {
			out = append(out, a)
		}
	}
	return out
}

func toSet(xs []string) map[string]bool {
	m := map[string]bool{}
	for _, x := range xs {
		m[x] = true
	}
	return m
}

// buildRepos creates source and target for a scenario.
func buildRepos(sc syncScenario) (source asset.Repository, target asset.Repository, cleanup func(), err error) {
	src := asset.NewInMemoryRepository()
	for name, days := range sc.Source {
		var snaps []*asset.Snapshot
		for _, d := range days {
			snaps = append(snaps, mkSnap(d))
		}
		src.Append(name, helper.SliceToChan(snaps))
	}
	tgt, cleanup, err := newRepo(sc.Target)
	if err != nil {
		return nil, nil, nil, err
	}
	placeholder := toSet(sc.Placeholder)
	for _, name := range sc.Assets {
		if base := reflectBase(tgt); base != "" && strings.Contains(name, "/") {
			os.MkdirAll(filepath.Join(base, filepath.Dir(name)), 0o700)
		}
		k := sc.TargetLen[name]
		if k < 0 {
			continue
		}
		if placeholder[name] {
			if base := reflectBase(tgt); base != "" {
				os.WriteFile(filepath.Join(base, name+".csv"), nil, 0o600)
				continue
			}
		}
		var snaps []*asset.Snapshot
		for _, d := range sc.Source[name][:k] {
			snaps = append(snaps, mkSnap(d))
		}
		if err := tgt.Append(name, helper.SliceToChan(snaps)); err != nil {
			cleanup()
			return nil, nil, nil, err
		}
	}
	return src, tgt, cleanup, nil
}

// expectedDays is the model of one synchronisation run for one asset.
func expectedDays(sc syncScenario, name string, f1, f2 map[string]bool) (days []int, fails bool) {
	k := max(sc.TargetLen[name], 0)
	prev := sc.Source[name][:k]
	if _, ok := sc.Source[name]; !ok || f1[name] {
		return prev, true
	}
	if f2[name] {
		return prev, true
	}
	start := sc.StartDay
	if sc.StartHour > 0 {
		start++ // snapshots are dated at midnight: the one of the start day is before a start later that day
	}
	if len(prev) > 0 {
		start = prev[len(prev)-1] + 1
	}
	out := append([]int(nil), prev...)
	for _, d := range sc.Source[name] {
		if d >= start {
			out = append(out, d)
		}
	}
	return out, false
}

func daysOf(repo asset.Repository, name string) ([]int, error) {
	c, err := repo.Get(name)
	if err != nil {
		return nil, err
	}
	var out []int
	for s := range c {
		out = append(out, int(s.Date.Sub(day0).Hours()/24))
	}
	return out, nil
}

func eqInts(a, b []int) bool {
	if len(a) != len(b) {
		return false
	}
	for i := range a {
		if a[i] != b[i] {
			return false
		}
	}
	return true
}

// runSync executes one scenario and checks oracles (i), (ii), (iv), (v).
// It returns the final per-asset day lists (for the worker-independence
// comparison) and whether the run is ok.
func runSync(cc *run.Case, sc syncScenario, raceOnly bool) (map[string][]int, bool) {
	f1, f2 := toSet(sc.F1), toSet(sc.F2)
	src, tgt, cleanup, err := buildRepos(sc)
	if err != nil {
		cc.Inconclusive("cannot build repositories: " + err.Error())
		return nil, false
	}
	defer cleanup()
	rec := &recorder{}
	wsrc := &wrapRepo{inner: src, rec: &recorder{}, failGetSince: f1, pace: cc.R.U64()}
	wtgt := &wrapRepo{inner: tgt, rec: rec, failAppend: f2, pace: cc.R.U64()}
	// initial observation of every asset (becomes the "init" operation of its partition)
	requested := append(append([]string(nil), sc.Assets...), sc.Missing...)
	initial := map[string]string{}
	for _, name := range requested {
		if c, err := tgt.Get(name); err == nil {
			initial[name] = dates(helper.ChanToSlice(c))
		}
	}
	s := asset.NewSync()
	s.Workers, s.Delay = sc.Workers, 0
	if sc.Explicit {
		s.Assets = requested
	}
	cc.Desc(sc)
	runErr := s.Run(wsrc, wtgt, day0.AddDate(0, 0, sc.StartDay).Add(time.Duration(sc.StartHour)*time.Hour))
	cc.Count("sync_runs", 1)
	fail := func(msg string) (map[string][]int, bool) {
		cc.Viol("", fmt.Sprintf("Sync (workers=%d, target=%s): %s", sc.Workers, sc.Target, msg), sc)
		return nil, false
	}
	// (iv) failures are reported, and only then
	wantErr := len(sc.Missing) > 0
	final := map[string][]int{}
	for _, name := range sc.Assets {
		want, fails := expectedDays(sc, name, f1, f2)
		if fails {
			wantErr = true
		}
		got, err := daysOf(tgt, name)
		if err != nil && len(want) > 0 {
			return fail(fmt.Sprintf("asset %s cannot be read from the target after the run: %v", name, err))
		}
		// (i) final state = previous snapshots + exactly the missing ones, in order, no duplicates
		if !eqInts(got, want) {
			return fail(fmt.Sprintf("asset %s holds days %v after the run, expected %v (previous %v + source days on/after the start day; source read fails: %v, append fails: %v)",
				name, got, want, sc.Source[name][:max(sc.TargetLen[name], 0)], f1[name], f2[name]))
		}
		final[name] = got
	}
	if (runErr != nil) != wantErr {
		return fail(fmt.Sprintf("Run returned error=%v, but failures were expected=%v (missing in source %v, source read fails %v, append fails %v)", runErr, wantErr, sc.Missing, sc.F1, sc.F2))
	}
	if raceOnly {
		return final, true
	}
	// (v) the recorded concurrent history of the target is linearizable w.r.t. the map model
	var ops []porcupine.Operation
	for name, st := range initial {
		ops = append(ops, porcupine.Operation{ClientId: 0, Input: pcKeyed{Name: name, Op: "init", Dates: st}, Call: 0, Output: "ok", Return: 0})
	}
	for _, name := range sc.Assets { // final reads through the wrapper
		if c, err := wtgt.Get(name); err == nil {
			helper.Drain(c)
		}
	}
	rec.mu.Lock()
	evs := append([]repoEvent(nil), rec.events...)
	rec.mu.Unlock()
	sig := ""
	for i, e := range evs {
		if _, known := initial[e.Name]; !known {
			continue // asset absent from the target before the run: nothing to anchor the partition on
		}
		ops = append(ops, porcupine.Operation{ClientId: 1 + i%7, Input: pcKeyed{Name: e.Name, Op: e.Op, Dates: e.In}, Call: e.Call, Output: e.Out, Return: e.Ret})
		sig += e.Name + e.Op[:1]
	}
	cc.SetAdd("call_interleavings", sig)
	cc.Count("history_events", int64(len(evs)))
	res := porcupine.CheckOperations(repoPorcupineModel, ops)
	if !res {
		return fail(fmt.Sprintf("the recorded call/return history of the target (%d events) is not linearizable against the map-of-ordered-lists model", len(evs)))
	}
	cc.Count("histories_linearizable", 1)
	// (ii) idempotence: an immediate second run adds nothing and reports the same error-ness
	s2 := asset.NewSync()
	s2.Workers, s2.Delay = sc.Workers, 0
	if sc.Explicit {
		s2.Assets = requested
	}
	err2 := s2.Run(wsrc, wtgt, day0.AddDate(0, 0, sc.StartDay).Add(time.Duration(sc.StartHour)*time.Hour))
	for _, name := range sc.Assets {
		got, _ := daysOf(tgt, name)
		if !eqInts(got, final[name]) {
			return fail(fmt.Sprintf("a second run changed asset %s from days %v to %v (must add nothing)", name, final[name], got))
		}
	}
	if (err2 != nil) != wantErr {
		return fail(fmt.Sprintf("second run returned error=%v, first run error-ness %v", err2, wantErr))
	}
	return final, true
}

func c12(ctx *run.Ctx, raceOnly bool) {
	targets := []string{"memory", "filesystem", "sql"}
	if !raceOnly {
		// end to end through cmd/indicator-sync
		for i := 0; i < ctx.Pick(4, 40); i++ {
			ctx.Case(fmt.Sprintf("cli/%d", i), c12CLI)
		}
	}
	// --- fault enumeration: ALL subsets F1, F2 for <= 4 assets ---
	nEnum := ctx.Pick(3, 40)
	if raceOnly {
		nEnum = ctx.Pick(1, 3)
	}
	for e := 0; e < nEnum; e++ {
		for _, tk := range targets {
			e, tk := e, tk
			ctx.Case(fmt.Sprintf("enum/%s/%d", tk, e), func(cc *run.Case) {
				na := cc.R.Range(1, 4)
				workers := cc.R.Pick(1, 2, 3, 4, 8)
				sc := genScenario(cc.R, na, tk, workers)
				step := 1
				if raceOnly {
					step = 5
				}
				for m1 := 0; m1 < 1<<na; m1 += step {
					for m2 := 0; m2 < 1<<na; m2 += step {
						sc.F1, sc.F2 = subsetNames(sc.Assets, m1), subsetNames(sc.Assets, m2)
						if _, ok := runSync(cc, sc, raceOnly); !ok {
							return
						}
						cc.Count("fault_subsets", 1)
						cc.Distinct(fmt.Sprintf("enum/%s/%d/%d/%d", tk, e, m1, m2))
					}
				}
				if cc.WantSample() {
					cc.Sample(map[string]any{"scenario": sc, "fault_enumeration": fmt.Sprintf("all %d x %d subsets of assets failing source reads / target appends", 1<<na, 1<<na)})
				}
			})
		}
	}
	// --- random larger scenarios, worker independence ---
	nRand := ctx.Pick(48, 2000)
	if raceOnly {
		nRand = ctx.Pick(30, 120)
	}
	for i := 0; i < nRand; i++ {
		i := i
		tk := targets[i%len(targets)]
		ctx.Case(fmt.Sprintf("random/%s/%d", tk, i), func(cc *run.Case) {
			na := cc.R.Range(1, 12)
			sc := genScenario(cc.R, na, tk, 1)
			if cc.R.Intn(2) == 0 {
				sc.F1 = subsetNames(sc.Assets, cc.R.Intn(1<<na))
				sc.F2 = subsetNames(sc.Assets, cc.R.Intn(1<<na)&cc.R.Intn(1<<na))
			}
			var base map[string][]int
			ws := []int{1, 2, 4, 8}
			if raceOnly {
				ws = []int{2, 4, 8}
			}
			for _, w := range ws {
				sc.Workers = w
				final, ok := runSync(cc, sc, raceOnly)
				if !ok {
					return
				}
				// (iii) the result does not depend on the number of workers
				if base == nil {
					base = final
				} else {
					for name := range base {
						if !eqInts(base[name], final[name]) {
							cc.Viol("", fmt.Sprintf("Sync: asset %s ends with days %v using %d workers and %v using %d worker(s)", name, final[name], w, base[name], ws[0]), sc)
							return
						}
					}
				}
			}
			cc.Distinct(fmt.Sprintf("random/%s/%d", tk, i))
		})
	}
}
