package props

import (
	"fmt"
	"math"

	"verif/harness/internal/gen"
	"verif/harness/internal/mon"
	"verif/harness/internal/reg"
	"verif/harness/internal/run"
)

func init() { All["C15"] = c15 }

// inv describes the invariant attached to one indicator.
type inv struct {
	// lo/hi: every listed output must lie in [lo, hi] (NaN bounds = unbounded).
	outs   []int
	lo, hi float64
	// ordered: outputs must satisfy out[ordered[0]] >= out[ordered[1]] >= ...
	ordered []int
	// custom check against the inputs (moving min/max contain the value).
	custom func(in [][]float64, out [][]float64, w, k int) (ok bool, msg string)
	// onlyVariant restricts the invariant to configurations with this Cfg.S.
	onlyVariants []string
	// knownKey: deviation key when the violation is the signature of a known finding.
	knownKey string
}

var nan = math.NaN()

var invariants = map[string]inv{
	"momentum.Rsi":                  {outs: []int{0}, lo: 0, hi: 100},
	"volume.Mfi":                    {outs: []int{0}, lo: 0, hi: 100},
	"momentum.StochasticOscillator": {outs: []int{0, 1}, lo: 0, hi: 100},
	"trend.Aroon":                   {outs: []int{0, 1}, lo: 0, hi: 100, knownKey: "trend.Aroon:aroon-since-extreme-changed-rounded"},
	"momentum.WilliamsR":            {outs: []int{0}, lo: -100, hi: 0},
	"momentum.StochasticRsi":        {outs: []int{0}, lo: 0, hi: 1},
	"volume.Mfm":                    {outs: []int{0}, lo: -1, hi: 1},
	"volume.Cmf":                    {outs: []int{0}, lo: -1, hi: 1},
	"trend.Bop":                     {outs: []int{0}, lo: -1, hi: 1},
	"volatility.BollingerBands":     {ordered: []int{0, 1, 2}},
	"volatility.KeltnerChannel":     {ordered: []int{0, 1, 2}},
	"volatility.DonchianChannel":    {ordered: []int{0, 1, 2}},
	"volatility.AccelerationBands":  {ordered: []int{0, 1, 2}},
	"trend.Envelope":                {ordered: []int{0, 1, 2}},
	"volatility.MovingStd":          {outs: []int{0}, lo: 0, hi: nan},
	"volatility.Atr":                {outs: []int{0}, lo: 0, hi: nan, onlyVariants: []string{"", "sma", "ema"}},
	"volatility.UlcerIndex":         {outs: []int{0}, lo: 0, hi: nan},
	"volatility.BollingerBandWidth": {outs: []int{0}, lo: 0, hi: nan},
	"trend.MovingMax": {custom: func(in, out [][]float64, w, k int) (bool, string) {
		v := in[0][k+w]
		return out[0][k] >= v, fmt.Sprintf("moving max %v < current value %v", out[0][k], v)
	}},
	"trend.MovingMin": {custom: func(in, out [][]float64, w, k int) (bool, string) {
		v := in[0][k+w]
		return out[0][k] <= v, fmt.Sprintf("moving min %v > current value %v", out[0][k], v)
	}},
}

func finite(x float64) bool { return !math.IsNaN(x) && !math.IsInf(x, 0) }

func c15Check(cc *run.Case, ind *reg.Indicator, iv inv, cfg reg.Cfg, class string, inputs [][]float64) {
	inst := ind.New(cfg)
	w := inst.Idle
	var out [][]float64
	if cc.R.Intn(3) == 0 {
		// the series handed over as a finished one: buffered channels that
		// already hold every value, closed, when Compute is called
		out = mon.Run(inputs, mon.Sched{Pace: "eager", Prefill: true}, inst.Compute).Outs
		cc.Count("runs_on_prefilled_buffered_inputs", 1)
	} else {
		out = runInd(inst, inputs)
	}
	// Zero-denominator positions: the reference marks them (it recomputes the
	// defining denominators from the inputs); non-finite values at or after
	// the first of them are exempt and counted.
	ref := ind.Ref(cfg, inputs)
	firstIll := make([]int, len(out))
	illAt := func(j, k int) bool { return j < len(ref) && k < len(ref[j]) && ref[j][k].Ill }
	for j := range out {
		firstIll[j] = math.MaxInt
		if j < len(ref) {
			for k := range ref[j] {
				if ref[j][k].Ill {
					firstIll[j] = k
					break
				}
			}
		}
	}
	sc := newScaler(ind, inputs)
	detail := func(j, k int) map[string]any {
		return map[string]any{"indicator": ind.Name, "cfg": cfg, "class": class, "w": w, "output": j, "k": k, "inputs": jsonSafe(clip(inputs, 80)), "outputs_head": jsonSafe(clip(out, 40))}
	}
	viol := func(j, k int, msg string) {
		// A bound violation is the known finding only if the whole output is
		// exactly what the listed deviation model predicts; anything else is new.
		key := ""
		if iv.knownKey != "" {
			for _, d := range ind.Devs {
				if ind.Name+":"+d.Key == iv.knownKey && compareRef(ind, w, inputs, out, d.Ref(cfg, inputs)).Bad == nil {
					key = iv.knownKey
				}
			}
		}
		cc.Viol(key, fmt.Sprintf("%s %v on %s series: output %d (%s) at index %d (input position %d): %s", ind.Name, cfg, class, j, ind.Out[j], k, k+w, msg), detail(j, k))
	}
	checked := 0
	for _, j := range iv.outs {
		rng := 1.0
		if !math.IsNaN(iv.hi) && !math.IsNaN(iv.lo) {
			rng = iv.hi - iv.lo
		}
		for k, v := range out[j] {
			if illAt(j, k) {
				cc.Count("exempt_zero_denominator", 1)
				continue
			}
			if !finite(v) {
				// after a zero denominator: exempt as long as the documented formula is
				// undefined there too. Once the zero denominator has left every window the
				// formula is a number again (and in range), and so must the value be.
				if k >= firstIll[j] && !(j < len(ref) && k < len(ref[j]) && finite(ref[j][k].V)) {
					cc.Count("exempt_nonfinite_after_zero_denominator", 1)
					continue
				}
				if k >= firstIll[j] {
					viol(j, k, fmt.Sprintf("value %v is not finite although the zero denominator at output index %d has long left the window: the documented formula gives %v here", v, firstIll[j], ref[j][k].V))
					return
				}
				viol(j, k, fmt.Sprintf("value %v is not finite although no defining denominator was zero so far", v))
				return
			}
			slack := 1e-6 * rng
			if math.IsNaN(iv.hi) {
				slack = 1e-9 * sc.at(k+w, reg.Degree{P: degOf(ind, j).P, V: degOf(ind, j).V})
			}
			checked++
			if !math.IsNaN(iv.lo) && v < iv.lo-slack {
				viol(j, k, fmt.Sprintf("value %v below the lower bound %v", v, iv.lo))
				return
			}
			if !math.IsNaN(iv.hi) && v > iv.hi+slack {
				viol(j, k, fmt.Sprintf("value %v above the upper bound %v", v, iv.hi))
				return
			}
		}
	}
	if len(iv.ordered) > 0 {
		n := len(out[iv.ordered[0]])
		for k := 0; k < n; k++ {
			slack := 1e-9 * sc.at(k+w, reg.Degree{P: 1})
			for a := 0; a+1 < len(iv.ordered); a++ {
				hiJ, loJ := iv.ordered[a], iv.ordered[a+1]
				if k >= len(out[loJ]) {
					continue
				}
				x, y := out[hiJ][k], out[loJ][k]
				if !finite(x) || !finite(y) {
					cc.Count("exempt_nonfinite", 1)
					continue
				}
				checked++
				if x < y-slack {
					viol(hiJ, k, fmt.Sprintf("%s = %v is below %s = %v: bands out of order", ind.Out[hiJ], x, ind.Out[loJ], y))
					return
				}
			}
		}
	}
	if iv.custom != nil {
		for k := range out[0] {
			if !finite(out[0][k]) {
				continue
			}
			checked++
			if ok, msg := iv.custom(inputs, out, w, k); !ok {
				viol(0, k, msg)
				return
			}
		}
	}
	cc.Count("values_checked", int64(checked))
	cc.Count("cmp:"+ind.Name, int64(checked))
	if checked > 0 {
		cc.Distinct(fmt.Sprintf("%s/%v/%s", ind.Name, cfg, class))
	}
}

func degOf(ind *reg.Indicator, j int) reg.Degree {
	if j < len(ind.Deg) {
		return ind.Deg[j]
	}
	return reg.Degree{}
}

func c15(ctx *run.Ctx) {
	for b := 0; b < ctx.Pick(4, 40); b++ {
		ctx.Case(fmt.Sprintf("float32/%d", b), c15Float32)
		ctx.Case(fmt.Sprintf("float32huge/%d", b), c15Float32Huge)
		ctx.Case(fmt.Sprintf("intbands/%d", b), c15IntBands)
	}
	nrand := ctx.Pick(6, 60)
	lengths := []int{60, 160}
	if !ctx.Quick() {
		lengths = []int{60, 160, 400}
	}
	reps := ctx.Pick(2, 10)
	for _, ind := range reg.Sorted() {
		ind := ind
		iv, ok := invariants[ind.Name]
		if !ok {
			continue
		}
		ctx.Count("cmp:"+ind.Name, 0)
		for ci, cfg := range indCfgs(ctx, ind, nrand) {
			ci, cfg := ci, cfg
			if len(iv.onlyVariants) > 0 {
				okv := false
				for _, v := range iv.onlyVariants {
					if v == cfg.S {
						okv = true
					}
				}
				if !okv {
					continue
				}
			}
			if ci == 0 {
				// very short periods on a long one-way market: recursive averages decay
				// geometrically (a loss average of 0.5^1000 underflows), ratios saturate
				short := ind.Default
				short.I = append([]int(nil), short.I...)
				for k := range short.I {
					short.I[k] = 2
				}
				for _, class := range []string{gen.Up, gen.Down} {
					class := class
					ctx.Case(fmt.Sprintf("%s/periods2/%s/long1300", ind.Name, class), func(cc *run.Case) {
						cc.Desc(map[string]any{"indicator": ind.Name, "cfg": short, "class": class, "n": 1300})
						// a little two-way trading first: the averages that then decay are not exactly zero
						bars := append(gen.Bars(cc.R, gen.Walk, 25), gen.Bars(cc.R, class, 1300)...)
						c15Check(cc, ind, iv, short, class, indInputs(ind, bars, nil))
					})
				}
			}
			if ci <= 1 {
				// long series: behaviour that only shows after a thousand values (periodic
				// resynchronisation, drift of running sums)
				for _, class := range []string{gen.Walk, gen.Plateau, gen.Degen} {
					class := class
					n := []int{1100, 2100}[ci]
					ctx.Case(fmt.Sprintf("%s/cfg%d/%s/long%d", ind.Name, ci, class, n), func(cc *run.Case) {
						cc.Desc(map[string]any{"indicator": ind.Name, "cfg": cfg, "class": class, "n": n})
						c15Check(cc, ind, iv, cfg, class, indInputs(ind, gen.Bars(cc.R, class, n), nil))
					})
				}
			}
			for _, class := range gen.OHLCVClasses {
				class := class
				for li := 0; li < len(lengths)*reps; li++ {
					n, rep := lengths[li%len(lengths)], li/len(lengths)
					ctx.Case(fmt.Sprintf("%s/cfg%d/%s/n%d/r%d", ind.Name, ci, class, n, rep), func(cc *run.Case) {
						cc.Desc(map[string]any{"indicator": ind.Name, "cfg": cfg, "class": class, "n": n})
						inputs := indInputs(ind, gen.Bars(cc.R, class, n), nil)
						c15Check(cc, ind, iv, cfg, class, inputs)
						if cc.WantSample() && ci == 1 && class == gen.Plateau {
							cc.Sample(map[string]any{"indicator": ind.Name, "cfg": cfg, "class": class, "n": n, "inputs_head": jsonSafe(clip(inputs, 8))})
						}
					})
				}
			}
		}
	}
}
