package props

import (
	"fmt"
	smomentum "github.com/cinar/indicator/v2/strategy/momentum"
	strend "github.com/cinar/indicator/v2/strategy/trend"
	"math"
	"strings"
	"time"

	"github.com/cinar/indicator/v2/asset"
	"github.com/cinar/indicator/v2/helper"
	"github.com/cinar/indicator/v2/strategy"
	"github.com/cinar/indicator/v2/strategy/compound"
	"github.com/cinar/indicator/v2/strategy/decorator"

	"verif/harness/internal/gen"
	"verif/harness/internal/reg"
	"verif/harness/internal/run"
)

func init() { All["C07"] = c07 }

// stub is a scripted strategy: it consumes every snapshot and replays a
// chosen action word (one action per snapshot).
type stub struct {
	name string
	word []strategy.Action
	free bool // emit exactly the word, however many snapshots there are
}

func (s *stub) Name() string { return s.name }
func (s *stub) Compute(c <-chan *asset.Snapshot) <-chan strategy.Action {
	out := make(chan strategy.Action)
	if s.free {
		go helper.Drain(c)
		go func() {
			defer close(out)
			for _, a := range s.word {
				out <- a
			}
		}()
		return out
	}
	go func() {
		defer close(out)
		i := 0
		for range c {
			if i < len(s.word) {
				out <- s.word[i]
			} else {
				out <- strategy.Hold
			}
			i++
		}
	}()
	return out
}
func (s *stub) Report(c <-chan *asset.Snapshot) *helper.Report {
	go helper.Drain(c)
	return helper.NewReport(s.name, helper.SliceToChan[time.Time](nil))
}

var actionAlphabet = []strategy.Action{strategy.Sell, strategy.Hold, strategy.Buy}

func lensOf(words [][]strategy.Action) []int {
	l := make([]int, len(words))
	for i := range words {
		l[i] = len(words[i])
	}
	return l
}

func decodeWord(code, n int) []strategy.Action {
	w := make([]strategy.Action, n)
	for i := range w {
		w[i] = actionAlphabet[code%3]
		code /= 3
	}
	return w
}

func pow3(n int) int {
	p := 1
	for i := 0; i < n; i++ {
		p *= 3
	}
	return p
}

func closesToSnaps(closes []float64) []*asset.Snapshot {
	out := make([]*asset.Snapshot, len(closes))
	for i, c := range closes {
		out[i] = &asset.Snapshot{Date: reg.Day(i), Open: c, High: c * 1.01, Low: c * 0.99, Close: c, Volume: 1000}
	}
	return out
}

// ---- models ----

func voteModel(kind string, words [][]strategy.Action, n int) []strategy.Action {
	den := make([][]strategy.Action, len(words))
	for i, w := range words {
		den[i] = denormalizeModel(w)
	}
	out := make([]strategy.Action, n)
	k := len(words)
	for i := 0; i < n; i++ {
		buy, hold, sell := 0, 0, 0
		for _, d := range den {
			switch d[i] {
			case strategy.Buy:
				buy++
			case strategy.Sell:
				sell++
			default:
				hold++
			}
		}
		switch kind {
		case "and": // all strategies reach the same actionable conclusion
			if sell == k {
				out[i] = strategy.Sell
			} else if buy == k {
				out[i] = strategy.Buy
			}
		case "or": // at least one recommends an action and none conflicts
			if sell > 0 && buy == 0 {
				out[i] = strategy.Sell
			} else if buy > 0 && sell == 0 {
				out[i] = strategy.Buy
			}
		case "majority": // strict plurality over Buy, Hold, Sell
			if sell > buy && sell > hold {
				out[i] = strategy.Sell
			} else if buy > sell && buy > hold {
				out[i] = strategy.Buy
			}
		}
	}
	return out
}

func splitModel(buyW, sellW []strategy.Action) []strategy.Action {
	n := min(len(buyW), len(sellW))
	out := make([]strategy.Action, n)
	for i := 0; i < n; i++ {
		switch {
		case buyW[i] == strategy.Buy && sellW[i] != strategy.Sell:
			out[i] = strategy.Buy
		case sellW[i] == strategy.Sell && buyW[i] != strategy.Buy:
			out[i] = strategy.Sell
		}
	}
	return out
}

func inverseModel(w []strategy.Action) []strategy.Action {
	out := make([]strategy.Action, len(w))
	for i, a := range w {
		out[i] = -a
	}
	return out
}

func noLossModel(w []strategy.Action, closes []float64) []strategy.Action {
	out := make([]strategy.Action, len(w))
	holding, bought := false, 0.0
	for i, a := range w {
		switch {
		case a == strategy.Buy && !holding:
			holding, bought = true, closes[i]
			out[i] = strategy.Buy
		case a == strategy.Sell && holding && closes[i] > bought:
			holding = false
			out[i] = strategy.Sell
		}
	}
	return out
}

func stopLossModel(w []strategy.Action, closes []float64, pct float64) []strategy.Action {
	out := make([]strategy.Action, len(w))
	holding, stop := false, 0.0
	for i, a := range w {
		switch {
		case a == strategy.Buy && !holding:
			holding, stop = true, closes[i]*(1-pct)
			out[i] = strategy.Buy
		case holding && (a == strategy.Sell || closes[i] <= stop):
			holding = false
			out[i] = strategy.Sell
		}
	}
	return out
}

// ---- trace safety monitors, independent of the models ----

// noLossSafe: every emitted Sell is at a close strictly above the close of
// the preceding emitted Buy.
func noLossSafe(out []strategy.Action, closes []float64) string {
	lastBuy := math.NaN()
	for i, a := range out {
		switch a {
		case strategy.Buy:
			lastBuy = closes[i]
		case strategy.Sell:
			if !(closes[i] > lastBuy) {
				return fmt.Sprintf("Sell at position %d at close %v, which is not above the close %v of the preceding Buy", i, closes[i], lastBuy)
			}
			lastBuy = math.NaN()
		}
	}
	return ""
}

// stopLossSafe: after a Buy at close b the strategy sells at the first close
// <= b*(1-pct) unless it has sold before.
func stopLossSafe(out []strategy.Action, closes []float64, pct float64) string {
	holding, stop, at := false, 0.0, 0
	for i, a := range out {
		if holding && closes[i] <= stop && a != strategy.Sell {
			return fmt.Sprintf("bought at position %d (close %v), close %v at position %d is at or below the stop %v but no Sell is emitted", at, closes[at], closes[i], i, stop)
		}
		switch a {
		case strategy.Buy:
			if !holding {
				holding, stop, at = true, closes[i]*(1-pct), i
			}
		case strategy.Sell:
			holding = false
		}
	}
	return ""
}

var c07Closes = [][]float64{
	{10, 11, 12, 13, 14, 15, 16, 17},
	{20, 18, 16, 14, 12, 10, 8, 6},
	{10, 12, 9, 13, 8.5, 14, 8, 15},
	{10, 10, 10, 9.5, 9.5, 10, 10.5, 9},
}

type c07Shape struct {
	name  string
	k     int // number of scripted sub-strategies
	build func(subs []strategy.Strategy, pct float64) strategy.Strategy
	model func(words [][]strategy.Action, closes []float64, pct float64) []strategy.Action
	safe  func(out []strategy.Action, closes []float64, pct float64) string
}

func c07Shapes() []c07Shape {
	vote := func(kind string, k int) c07Shape {
		return c07Shape{name: fmt.Sprintf("%s/k%d", kind, k), k: k,
			build: func(subs []strategy.Strategy, _ float64) strategy.Strategy {
				switch kind {
				case "and":
					return strategy.NewAndStrategy("and", subs...)
				case "or":
					return strategy.NewOrStrategy("or", subs...)
				}
				return strategy.NewMajorityStrategyWith("majority", subs)
			},
			model: func(words [][]strategy.Action, closes []float64, _ float64) []strategy.Action {
				return voteModel(kind, words, len(closes))
			}}
	}
	shapes := []c07Shape{}
	for _, kind := range []string{"and", "or", "majority"} {
		for k := 1; k <= 3; k++ {
			shapes = append(shapes, vote(kind, k))
		}
	}
	shapes = append(shapes,
		c07Shape{name: "split", k: 2,
			build: func(subs []strategy.Strategy, _ float64) strategy.Strategy {
				return strategy.NewSplitStrategy(subs[0], subs[1])
			},
			model: func(w [][]strategy.Action, _ []float64, _ float64) []strategy.Action { return splitModel(w[0], w[1]) }},
		c07Shape{name: "inverse", k: 1,
			build: func(subs []strategy.Strategy, _ float64) strategy.Strategy {
				return decorator.NewInverseStrategy(subs[0])
			},
			model: func(w [][]strategy.Action, _ []float64, _ float64) []strategy.Action { return inverseModel(w[0]) }},
		c07Shape{name: "noloss", k: 1,
			build: func(subs []strategy.Strategy, _ float64) strategy.Strategy {
				return decorator.NewNoLossStrategy(subs[0])
			},
			model: func(w [][]strategy.Action, c []float64, _ float64) []strategy.Action { return noLossModel(w[0], c) },
			safe:  func(out []strategy.Action, c []float64, _ float64) string { return noLossSafe(out, c) }},
		c07Shape{name: "stoploss", k: 1,
			build: func(subs []strategy.Strategy, pct float64) strategy.Strategy {
				return decorator.NewStopLossStrategy(subs[0], pct)
			},
			model: func(w [][]strategy.Action, c []float64, pct float64) []strategy.Action {
				return stopLossModel(w[0], c, pct)
			},
			safe: stopLossSafe},
		c07Shape{name: "stoploss (percentage set through the public field)", k: 1,
			build: func(subs []strategy.Strategy, pct float64) strategy.Strategy {
				s := decorator.NewStopLossStrategy(subs[0], 0.5)
				s.Percentage = pct
				return s
			},
			model: func(w [][]strategy.Action, c []float64, pct float64) []strategy.Action {
				return stopLossModel(w[0], c, pct)
			},
			safe: stopLossSafe},
		c07Shape{name: "noloss(stoploss)", k: 1,
			build: func(subs []strategy.Strategy, pct float64) strategy.Strategy {
				return decorator.NewNoLossStrategy(decorator.NewStopLossStrategy(subs[0], pct))
			},
			model: func(w [][]strategy.Action, c []float64, pct float64) []strategy.Action {
				return noLossModel(stopLossModel(w[0], c, pct), c)
			},
			safe: func(out []strategy.Action, c []float64, _ float64) string { return noLossSafe(out, c) }},
		c07Shape{name: "stoploss(noloss)", k: 1,
			build: func(subs []strategy.Strategy, pct float64) strategy.Strategy {
				return decorator.NewStopLossStrategy(decorator.NewNoLossStrategy(subs[0]), pct)
			},
			model: func(w [][]strategy.Action, c []float64, pct float64) []strategy.Action {
				return stopLossModel(noLossModel(w[0], c), c, pct)
			},
			safe: stopLossSafe},
		c07Shape{name: "stoploss(stoploss) tighter outside", k: 1,
			build: func(subs []strategy.Strategy, pct float64) strategy.Strategy {
				return decorator.NewStopLossStrategy(decorator.NewStopLossStrategy(subs[0], pct), pct*0.4)
			},
			model: func(w [][]strategy.Action, c []float64, pct float64) []strategy.Action {
				return stopLossModel(stopLossModel(w[0], c, pct), c, pct*0.4)
			}},
		c07Shape{name: "stoploss(stoploss) tighter inside", k: 1,
			build: func(subs []strategy.Strategy, pct float64) strategy.Strategy {
				return decorator.NewStopLossStrategy(decorator.NewStopLossStrategy(subs[0], pct*0.4), pct)
			},
			model: func(w [][]strategy.Action, c []float64, pct float64) []strategy.Action {
				return stopLossModel(stopLossModel(w[0], c, pct*0.4), c, pct)
			}},
		c07Shape{name: "noloss(noloss)", k: 1,
			build: func(subs []strategy.Strategy, _ float64) strategy.Strategy {
				return decorator.NewNoLossStrategy(decorator.NewNoLossStrategy(subs[0]))
			},
			model: func(w [][]strategy.Action, c []float64, _ float64) []strategy.Action {
				return noLossModel(noLossModel(w[0], c), c)
			}},
		c07Shape{name: "inverse(noloss)", k: 1,
			build: func(subs []strategy.Strategy, _ float64) strategy.Strategy {
				return decorator.NewInverseStrategy(decorator.NewNoLossStrategy(subs[0]))
			},
			model: func(w [][]strategy.Action, c []float64, _ float64) []strategy.Action {
				return inverseModel(noLossModel(w[0], c))
			}},
		c07Shape{name: "noloss(inverse)", k: 1,
			build: func(subs []strategy.Strategy, _ float64) strategy.Strategy {
				return decorator.NewNoLossStrategy(decorator.NewInverseStrategy(subs[0]))
			},
			model: func(w [][]strategy.Action, c []float64, _ float64) []strategy.Action {
				return noLossModel(inverseModel(w[0]), c)
			},
			safe: func(out []strategy.Action, c []float64, _ float64) string { return noLossSafe(out, c) }},
		c07Shape{name: "and(and(s0,s1),s2)", k: 3,
			build: func(subs []strategy.Strategy, _ float64) strategy.Strategy {
				return strategy.NewAndStrategy("outer", strategy.NewAndStrategy("inner", subs[0], subs[1]), subs[2])
			},
			model: func(w [][]strategy.Action, c []float64, _ float64) []strategy.Action {
				return voteModel("and", [][]strategy.Action{voteModel("and", w[:2], len(c)), w[2]}, len(c))
			}},
		c07Shape{name: "or(and(s0,s1),s2)", k: 3,
			build: func(subs []strategy.Strategy, _ float64) strategy.Strategy {
				return strategy.NewOrStrategy("outer", strategy.NewAndStrategy("inner", subs[0], subs[1]), subs[2])
			},
			model: func(w [][]strategy.Action, c []float64, _ float64) []strategy.Action {
				return voteModel("or", [][]strategy.Action{voteModel("and", w[:2], len(c)), w[2]}, len(c))
			}},
		c07Shape{name: "majority(or(s0,s1),s2,split(s0,s2))", k: 3,
			build: func(subs []strategy.Strategy, _ float64) strategy.Strategy {
				return strategy.NewMajorityStrategyWith("outer", []strategy.Strategy{strategy.NewOrStrategy("inner", subs[0], subs[1]), subs[2], strategy.NewSplitStrategy(subs[0], subs[2])})
			},
			model: func(w [][]strategy.Action, c []float64, _ float64) []strategy.Action {
				return voteModel("majority", [][]strategy.Action{voteModel("or", w[:2], len(c)), w[2], splitModel(w[0], w[2])}, len(c))
			}},
		// the same instance listed more than once: every listed member has a vote
		c07Shape{name: "majority(s0,s0,s1)", k: 2,
			build: func(subs []strategy.Strategy, _ float64) strategy.Strategy {
				return strategy.NewMajorityStrategyWith("majority", []strategy.Strategy{subs[0], subs[0], subs[1]})
			},
			model: func(w [][]strategy.Action, c []float64, _ float64) []strategy.Action {
				return voteModel("majority", [][]strategy.Action{w[0], w[0], w[1]}, len(c))
			}},
		c07Shape{name: "or(s0,s1,s0)", k: 2,
			build: func(subs []strategy.Strategy, _ float64) strategy.Strategy {
				return strategy.NewOrStrategy("or", subs[0], subs[1], subs[0])
			},
			model: func(w [][]strategy.Action, c []float64, _ float64) []strategy.Action {
				return voteModel("or", [][]strategy.Action{w[0], w[1], w[0]}, len(c))
			}},
		c07Shape{name: "split(s0,s0)", k: 1,
			build: func(subs []strategy.Strategy, _ float64) strategy.Strategy {
				return strategy.NewSplitStrategy(subs[0], subs[0])
			},
			model: func(w [][]strategy.Action, c []float64, _ float64) []strategy.Action { return splitModel(w[0], w[0]) }},
		c07Shape{name: "noloss(and/k2)", k: 2,
			build: func(subs []strategy.Strategy, _ float64) strategy.Strategy {
				return decorator.NewNoLossStrategy(strategy.NewAndStrategy("and", subs...))
			},
			model: func(w [][]strategy.Action, c []float64, _ float64) []strategy.Action {
				return noLossModel(voteModel("and", w, len(c)), c)
			},
			safe: func(out []strategy.Action, c []float64, _ float64) string { return noLossSafe(out, c) }},
	)
	return shapes
}

func c07Run(cc *run.Case, sh c07Shape, words [][]strategy.Action, closes []float64, pct float64) bool {
	subs := make([]strategy.Strategy, len(words))
	stubs := make([]*stub, len(words))
	for i, w := range words {
		// distinct strategies may well print the same name (a decorator's name
		// omits its percentage, say): every third tuple is named alike
		name := fmt.Sprintf("stub%d", i)
		if (len(closes)+len(words))%3 == 0 {
			name = "stub"
		}
		stubs[i] = &stub{name: name, word: w}
		subs[i] = stubs[i]
	}
	inst := sh.build(subs, pct)
	if len(closes) > 0 && len(closes)%2 == 1 {
		// The combinator instance first serves another history that ends with an
		// open position at a higher price level (as when one instance is used
		// for several assets); the specified function must still hold afterwards.
		for _, st := range stubs {
			st.word = []strategy.Action{strategy.Buy, strategy.Hold, strategy.Hold}
		}
		runStrat(inst, closesToSnaps([]float64{closes[0] * 50, closes[0] * 60, closes[0] * 55}))
		for i, st := range stubs {
			st.word = words[i]
		}
		cc.Count("reused_instance_runs", 1)
	}
	got := runStrat(inst, closesToSnaps(closes))
	cc.Count("runs", 1)
	want := sh.model(words, closes, pct)
	detail := func() map[string]any {
		return map[string]any{"shape": sh.name, "sub_words": fmt.Sprint(words), "closes": closes, "percentage": pct, "got": fmt.Sprint(got), "model": fmt.Sprint(want)}
	}
	if !eqActions(got, want) {
		cc.Viol("", fmt.Sprintf("%s over scripted sub-strategies %v (closes %v, pct %v): got %v, specified combination gives %v", sh.name, words, closes, pct, got, want), detail())
		return false
	}
	if sh.safe != nil {
		if msg := sh.safe(got, closes, pct); msg != "" {
			cc.Viol("", fmt.Sprintf("%s trace monitor: %s (sub word %v, closes %v)", sh.name, msg, words, closes), detail())
			return false
		}
	}
	cc.Count("actions_compared", int64(len(got)))
	return true
}

func c07(ctx *run.Ctx) {
	pcts := []float64{0.02, 0.1, 0.3}
	for _, sh := range c07Shapes() {
		sh := sh
		// Exhaustive small scope: all tuples of k words of length n.
		maxN := map[int]int{1: ctx.Pick(7, 8), 2: ctx.Pick(4, 5), 3: ctx.Pick(2, 3)}[sh.k]
		for n := 0; n <= maxN; n++ {
			total := pow3(n * sh.k)
			chunk := 2187
			for start := 0; start < total; start += chunk {
				n, start := n, start
				ctx.Case(fmt.Sprintf("%s/exh/n%d/from%d", sh.name, n, start), func(cc *run.Case) {
					for code := start; code < min(total, start+chunk); code++ {
						words := make([][]strategy.Action, sh.k)
						c := code
						for i := range words {
							words[i] = decodeWord(c%pow3(n), n)
							c /= pow3(n)
						}
						needCloses := sh.safe != nil || sh.name == "inverse(noloss)" || sh.name == "noloss(noloss)" || strings.HasPrefix(sh.name, "stoploss(stoploss)")
						for ci, closes := range c07Closes {
							if !needCloses && ci > 0 {
								break
							}
							for pi, pct := range pcts {
								if (sh.name != "stoploss" && sh.name != "noloss(stoploss)" && sh.name != "stoploss(noloss)" && !strings.HasPrefix(sh.name, "stoploss(stoploss)")) && pi > 0 {
									break
								}
								cc.Desc(map[string]any{"shape": sh.name, "words": fmt.Sprint(words), "closes": ci, "pct": pct})
								if !c07Run(cc, sh, words, closes[:n], pct) {
									return
								}
							}
						}
						if n >= 2 {
							cc.Distinct(fmt.Sprintf("%s/%d/%d", sh.name, n, code))
						}
						if cc.WantSample() && n == maxN && code%977 == 5 {
							cc.Sample(map[string]any{"shape": sh.name, "sub_words": fmt.Sprint(words), "closes": c07Closes[0][:n], "model_output": fmt.Sprint(sh.model(words, c07Closes[0][:n], pcts[0]))})
						}
					}
				})
			}
		}
		// Random long words, up to 6 sub-strategies for the votes.
		ctx.Case(fmt.Sprintf("%s/random", sh.name), func(cc *run.Case) {
			for rep := 0; rep < ctx.Pick(150, 6000); rep++ {
				n := cc.R.Range(0, 200)
				k := sh.k
				if strings.HasPrefix(sh.name, "and/") || strings.HasPrefix(sh.name, "or/") || strings.HasPrefix(sh.name, "majority/") {
					k = cc.R.Range(1, 6)
				}
				words := make([][]strategy.Action, k)
				for i := range words {
					words[i] = make([]strategy.Action, n)
					for j := range words[i] {
						if cc.R.Intn(3) > 0 {
							words[i][j] = actionAlphabet[cc.R.Intn(3)]
						}
					}
				}
				closes := gen.Field(gen.Bars(cc.R, []string{gen.Walk, gen.Walk2, gen.Ties, gen.Plateau}[cc.R.Intn(4)], n), 'c')
				// different currency units: the decorators must not depend on the price level
				unit := cc.R.PickF(1, 1, 1e-3, 1e3, 1.0/128, 0x1p-40, 0x1p40) // down to a unit in which a price is below any "small number"
				for i := range closes {
					closes[i] *= unit
				}
				pct := cc.R.PickF(0.01, 0.05, 0.2, 0) // 0: a break-even stop
				// closes that sit EXACTLY on the stop level of an earlier close (as
				// float64 evaluates purchase x (1 - percentage)), one ulp above and below
				if strings.Contains(sh.name, "stoploss") {
					for i := 2; i < n; i++ {
						if cc.R.Intn(6) == 0 {
							level := closes[cc.R.Range(0, i-1)] * (1 - pct)
							closes[i] = []float64{level, math.Nextafter(level, 0), math.Nextafter(level, math.Inf(1))}[cc.R.Intn(3)]
						}
					}
				}
				shape := sh
				if k != sh.k {
					kind := map[byte]string{'a': "and", 'o': "or", 'm': "majority"}[sh.name[0]]
					shape.model = func(w [][]strategy.Action, c []float64, _ float64) []strategy.Action {
						return voteModel(kind, w, len(c))
					}
				}
				if !c07Run(cc, shape, words, closes, pct) {
					return
				}
				cc.Distinct(fmt.Sprintf("%s/rand/%d", sh.name, rep))
			}
		})
	}
	// AllAndStrategies / AllSplitStrategies: one compound per ordered pair of
	// distinct members, each voting over ITS pair.
	ctx.Case("all-pairs", func(cc *run.Case) {
		for rep := 0; rep < ctx.Pick(40, 400); rep++ {
			k, n := cc.R.Range(2, 4), cc.R.Range(0, 40)
			words := make([][]strategy.Action, k)
			subs := make([]strategy.Strategy, k)
			for i := range words {
				words[i] = make([]strategy.Action, n)
				for j := range words[i] {
					words[i][j] = actionAlphabet[cc.R.Intn(3)]
				}
				subs[i] = &stub{name: fmt.Sprintf("stub%d", i), word: words[i]}
			}
			closes := gen.Field(gen.Bars(cc.R, gen.Walk, n), 'c')
			ands, splits := strategy.AllAndStrategies(subs), strategy.AllSplitStrategies(subs)
			if len(ands) != k*(k-1) || len(splits) != k*(k-1) {
				cc.Viol("", fmt.Sprintf("AllAndStrategies / AllSplitStrategies over %d members returned %d / %d compounds, there are %d ordered pairs", k, len(ands), len(splits), k*(k-1)), nil)
				return
			}
			idx := 0
			for a := 0; a < k; a++ {
				for b := 0; b < k; b++ {
					if a == b {
						continue
					}
					if got, want := runStrat(ands[idx], closesToSnaps(closes)), voteModel("and", [][]strategy.Action{words[a], words[b]}, n); !eqActions(got, want) {
						cc.Viol("", fmt.Sprintf("AllAndStrategies(%d members)[%d] (members %d and %d): got %v, And over that pair gives %v", k, idx, a, b, got, want), map[string]any{"words": fmt.Sprint(words)})
						return
					}
					if got, want := runStrat(splits[idx], closesToSnaps(closes)), splitModel(words[a], words[b]); !eqActions(got, want) {
						cc.Viol("", fmt.Sprintf("AllSplitStrategies(%d members)[%d] (buy from %d, sell from %d): got %v, Split over that pair gives %v", k, idx, a, b, got, want), map[string]any{"words": fmt.Sprint(words)})
						return
					}
					idx++
				}
			}
			cc.Count("runs", int64(2*idx))
			cc.Distinct(fmt.Sprintf("allpairs/%d", rep))
		}
	})
	// Members that say less than the others (a custom strategy, a series shorter
	// than one member's warm-up): the group speaks for as long as ALL members do.
	ctx.Case("unequal-words", func(cc *run.Case) {
		for rep := 0; rep < ctx.Pick(60, 600); rep++ {
			k := cc.R.Range(2, 4)
			words := make([][]strategy.Action, k)
			subs := make([]strategy.Strategy, k)
			shortest := 1 << 30
			for i := range words {
				words[i] = make([]strategy.Action, cc.R.Range(0, 30))
				for j := range words[i] {
					words[i][j] = actionAlphabet[cc.R.Intn(3)]
				}
				shortest = min(shortest, len(words[i]))
				subs[i] = &stub{name: fmt.Sprintf("stub%d", i), word: words[i], free: true}
			}
			closes := gen.Field(gen.Bars(cc.R, gen.Walk, 40), 'c')
			cut := make([][]strategy.Action, k)
			for i := range cut {
				cut[i] = words[i][:shortest]
			}
			for _, kind := range []string{"and", "or", "majority"} {
				var s strategy.Strategy
				switch kind {
				case "and":
					s = strategy.NewAndStrategy("g", subs...)
				case "or":
					s = strategy.NewOrStrategy("g", subs...)
				default:
					s = strategy.NewMajorityStrategyWith("g", subs)
				}
				if got, want := runStrat(s, closesToSnaps(closes)), voteModel(kind, cut, shortest); !eqActions(got, want) {
					cc.Viol("", fmt.Sprintf("%s over members that emit %v actions: got %d actions %v, the vote over the positions all members cover gives %v", kind, lensOf(words), len(got), got, want), map[string]any{"words": fmt.Sprint(words)})
					return
				}
			}
			cc.Count("runs", 3)
			cc.Distinct(fmt.Sprintf("unequal/%d", rep))
		}
	})
	// MACD-RSI cannot take stubs (concrete field types): its expectation is
	// computed from its two real sub-strategies run separately.
	ctx.Case("macd-rsi", func(cc *run.Case) {
		for rep := 0; rep < ctx.Pick(30, 300); rep++ {
			n := cc.R.Range(0, 260)
			buyAt, sellAt := cc.R.FRange(30, 50), cc.R.FRange(50, 70)
			if rep == 0 {
				buyAt, sellAt = 30, 70
			}
			snaps := reg.Snaps(gen.Bars(cc.R, []string{gen.Walk, gen.Walk2, gen.Ties}[cc.R.Intn(3)], n))
			s := compound.NewMacdRsiStrategyWith(buyAt, sellAt)
			got := runStrat(s, snaps)
			ref := compound.NewMacdRsiStrategyWith(buyAt, sellAt)
			m := denormalizeModel(runStrat(ref.MacdStrategy, snaps))
			r := denormalizeModel(runStrat(ref.RsiStrategy, snaps))
			want := make([]strategy.Action, min(len(m), len(r)))
			for i := range want {
				if m[i] == r[i] {
					want[i] = m[i]
				}
			}
			if !eqActions(got, want) {
				cc.Viol("", fmt.Sprintf("MacdRsiStrategy(%v,%v) over %d snapshots: got %v, both-standing-recommendations-agree rule over its own sub-strategies gives %v", buyAt, sellAt, n, got, want), nil)
				return
			}
			// the SAME instance with its public sub-strategies replaced afterwards: it
			// must vote over the ones it holds NOW
			if rep%2 == 1 {
				b2, s2 := cc.R.FRange(35, 49), cc.R.FRange(51, 65)
				s.RsiStrategy = smomentum.NewRsiStrategyWith(b2, s2)
				s.MacdStrategy = strend.NewMacdStrategyWith(5, 11, 4)
				got2 := runStrat(s, snaps)
				m2 := denormalizeModel(runStrat(strend.NewMacdStrategyWith(5, 11, 4), snaps))
				r2 := denormalizeModel(runStrat(smomentum.NewRsiStrategyWith(b2, s2), snaps))
				want2 := make([]strategy.Action, min(len(m2), len(r2)))
				for i := range want2 {
					if m2[i] == r2[i] {
						want2[i] = m2[i]
					}
				}
				if !eqActions(got2, want2) {
					cc.Viol("", fmt.Sprintf("MacdRsiStrategy whose RsiStrategy and MacdStrategy fields were replaced after a first use (RSI %.1f/%.1f, MACD 5/11/4) over %d snapshots: got %v, the rule over the sub-strategies it holds now gives %v", b2, s2, n, got2, want2), nil)
					return
				}
				cc.Count("reused_instance_runs", 1)
			}
			cc.Count("runs", 1)
			cc.Count("actions_compared", int64(len(got)))
			cc.Distinct(fmt.Sprintf("macdrsi/%d", rep))
		}
	})
}
