package props

import (
	"fmt"
	"github.com/cinar/indicator/v2/momentum"
	strend "github.com/cinar/indicator/v2/strategy/trend"
	"math"
	"reflect"
	"runtime"
	"sort"
	"strings"

	"github.com/cinar/indicator/v2/asset"
	"github.com/cinar/indicator/v2/helper"
	"github.com/cinar/indicator/v2/strategy"
	"github.com/cinar/indicator/v2/strategy/compound"
	"github.com/cinar/indicator/v2/strategy/decorator"

	"verif/harness/internal/gen"
	"verif/harness/internal/mon"
	"verif/harness/internal/reg"
	"verif/harness/internal/run"
)

func init() { All["C03"] = c03 }

// schedList returns the schedule parameterisations for a pipeline with nOut
// outputs: input capacities x pacings (eager, each output in turn as the one
// slow reader, random bursts everywhere, slow producers) x GOMAXPROCS.
func schedList(ctx *run.Ctx, nOut int, seed uint64) []mon.Sched {
	procs := []int{1, 16}
	if !ctx.Quick() {
		procs = []int{1, 2, 4, 16}
	}
	var out []mon.Sched
	for _, capacity := range []int{0, 1, 3, 64} {
		for _, pr := range procs {
			out = append(out, mon.Sched{Cap: capacity, Pace: "eager", Procs: pr})
			out = append(out, mon.Sched{Cap: capacity, Pace: "rr", Procs: pr, Seed: seed + uint64(capacity)})
			out = append(out, mon.Sched{Cap: capacity, Pace: "slowprod", Procs: pr, Seed: seed + 7})
			if nOut > 1 || capacity == 0 {
				for j := 0; j < nOut; j++ {
					out = append(out, mon.Sched{Cap: capacity, Pace: "slow", Slow: j, Procs: pr})
				}
			}
		}
	}
	return out
}

func bitsEq(a, b []float64) bool {
	if len(a) != len(b) {
		return false
	}
	for i := range a {
		if math.Float64bits(a[i]) != math.Float64bits(b[i]) {
			return false
		}
	}
	return true
}

// pipeCase drives one (pipeline, inputs) pair through every schedule
// parameterisation: each run must terminate (else the runtime reports the
// deadlock and the parent attributes it), leave no goroutine behind, and
// produce bit-identical value sequences.
func pipeCase[I any, O comparable](cc *run.Case, census *mon.Census, ctx *run.Ctx, what string, desc map[string]any, inputs [][]I, nOut int,
	build func(in []<-chan I) []<-chan O, eq func(a, b []O) bool) {
	var base [][]O
	for si, s := range schedList(ctx, nOut, cc.R.U64()) {
		desc["sched"] = s
		cc.Desc(desc)
		census.Begin()
		res := mon.Run(inputs, s, build)
		cc.Count("pipeline_runs", 1)
		cc.SetAdd("interleavings", fmt.Sprintf("%s/%x", what, res.Sig))
		cc.SetAdd("schedules", fmt.Sprintf("%d/%s/%d/%d", s.Cap, s.Pace, s.Slow, s.Procs))
		if lk := census.End(); lk != nil {
			if lk.Unsettled {
				cc.Inconclusive("goroutines still runnable after the yield budget")
			} else {
				site := mon.LeakSite(lk.Stacks[0])
				desc["leak"] = lk
				cc.Viol("leak/"+subjectKey(what)+"/"+site, fmt.Sprintf("%s: %d goroutine(s) left behind after every output was closed and drained: blocked in %s", what, lk.Count, site), desc)
				return
			}
		}
		if si == 0 {
			base = res.Outs
			continue
		}
		for j := range base {
			if j >= len(res.Outs) || !eq(base[j], res.Outs[j]) {
				desc["base"] = fmt.Sprint(base[j])
				desc["got"] = fmt.Sprint(res.Outs[j])
				cc.Viol("", fmt.Sprintf("%s: output %d differs between schedule parameterisations (cap=0 eager vs cap=%d %s procs=%d): values depend on the schedule", what, j, s.Cap, s.Pace, s.Procs), desc)
				return
			}
		}
	}
	total := 0
	for _, o := range base {
		total += len(o)
	}
	if total > 0 {
		cc.Distinct(what + "/" + cc.Label)
	}
}

// subjectKey strips configuration details from a pipeline description.
func subjectKey(what string) string {
	for i := 0; i < len(what); i++ {
		if what[i] == ' ' {
			return what[:i]
		}
	}
	return what
}

func eqActions(a, b []strategy.Action) bool {
	if len(a) != len(b) {
		return false
	}
	for i := range a {
		if a[i] != b[i] {
			return false
		}
	}
	return true
}

// stratOutcomeBuild runs a strategy through strategy.ComputeWithOutcome: two
// outputs, the actions (as numbers) and the outcomes. For inputs shorter than
// the warm-up a strategy may emit more actions than there are closings; both
// outputs must still close.
func stratOutcomeBuild(s strategy.Strategy) func(in []<-chan *asset.Snapshot) []<-chan float64 {
	return func(in []<-chan *asset.Snapshot) []<-chan float64 {
		a, o := strategy.ComputeWithOutcome(s, in[0])
		af := make(chan float64)
		go func() {
			defer close(af)
			for x := range a {
				af <- float64(x)
			}
		}()
		return []<-chan float64{af, o}
	}
}

func stratBuild(s strategy.Strategy) func(in []<-chan *asset.Snapshot) []<-chan strategy.Action {
	return func(in []<-chan *asset.Snapshot) []<-chan strategy.Action {
		return []<-chan strategy.Action{s.Compute(in[0])}
	}
}

// namedStrat is a strategy instance with a stable description and its
// warm-up.
type namedStrat struct {
	Name string
	New  func() strategy.Strategy
	Warm int // largest warm-up of the strategies involved (lengths around it are the interesting ones)
	// Quiet is a sound lower bound on the first position that may carry a
	// non-Hold action: the strategy's own warm-up for base strategies and
	// decorators, the largest sub warm-up for And (all must agree), the
	// smallest for Or / Majority / Split (one acting sub-strategy is enough).
	Quiet int
	Row   *reg.Strat // registry row for base strategies
	Cfg   reg.Cfg
	// PlusOne is the known-finding key when this strategy emits n+1 actions
	// because of the Alligator / Smma shift-by-period finding: the strategy
	// itself, Inverse over such a strategy (passes the stream through), or an
	// And / Or / Majority / Split whose sub-strategies ALL do (the vote ends
	// with the shortest sub-stream).
	PlusOne string
}

// baseStrats returns the registry strategies at default and random
// configurations.
func baseStrats(ctx *run.Ctx, nrand int) []namedStrat {
	var out []namedStrat
	for _, row := range reg.SortedStrats() {
		row := row
		cfgs := []reg.Cfg{row.Default}
		for i := 1; i <= nrand; i++ {
			cfgs = append(cfgs, row.Rand(gen.New(ctx.Seed, fmt.Sprintf("scfg/%s/%d", row.Name, i))))
		}
		for ci, cfg := range cfgs {
			cfg := cfg
			w := row.Warm(row.New(cfg))
			mk := func() strategy.Strategy { return row.New(cfg) }
			name := fmt.Sprintf("%s cfg%d=%v", row.Name, ci, cfg)
			if ci%2 == 1 && allExported(row.New(cfg)) {
				// Same configuration reached the other way: construct with the
				// defaults, then set every public field (anything cached at
				// construction time would now be stale).
				used := (ci/2)%2 == 0 // cfg1, cfg5, ...: after a first use; cfg3, cfg7, ...: fresh
				mk = func() strategy.Strategy {
					d := row.New(row.Default)
					if used {
						// ... after the instance has already served another series (long enough to get past most warm-ups)
						helper.Drain(d.Compute(helper.SliceToChan(reg.Snaps(gen.Bars(gen.New(1, "warm"), gen.Walk, 90)))))
					}
					if used && !strings.HasSuffix(ctx.Prop, "R") {
						// (not in the race phases: the detector has no happens-before edge
						// from a finished side-branch goroutine of the first use to this
						// write and would report the harness's own re-tuning)
						// let the pipeline of the first use wind down completely before
						// its configuration is written to
						for base, calm := runtime.NumGoroutine(), 0; calm < 50; {
							runtime.Gosched()
							if n := runtime.NumGoroutine(); n < base {
								base, calm = n, 0
							} else {
								calm++
							}
						}
						retuneExported(d, row.New(cfg))
					} else {
						copyExported(d, row.New(cfg))
					}
					return d
				}
				name += " (set through public fields)"
				if used {
					name += " (after a first use)"
				}
			}
			p1 := map[string]string{"trend.AlligatorStrategy": "trend.AlligatorStrategy:alligator-shift-by-period", "trend.SmmaStrategy": "trend.SmmaStrategy:smma-shift-by-period"}[row.Name]
			out = append(out, namedStrat{Name: name, New: mk, Warm: w, Quiet: w, Row: row, Cfg: cfg, PlusOne: p1})
		}
	}
	return out
}

// allExported reports whether a strategy value is a pointer to a struct with
// at least one exported field. On the pinned tree every base strategy holds
// its whole configuration in exported fields; an unexported field that a
// later change adds (a cache, say) is deliberately NOT copied: reaching the
// configuration through the public fields is exactly what must keep working.
func allExported(s strategy.Strategy) bool {
	v := reflect.ValueOf(s)
	if v.Kind() != reflect.Ptr || v.Elem().Kind() != reflect.Struct {
		return false
	}
	t := v.Elem().Type()
	for i := 0; i < t.NumField(); i++ {
		if t.Field(i).IsExported() {
			return true
		}
	}
	return false
}

// copyExported assigns every exported field of src to dst (same type).
func copyExported(dst, src strategy.Strategy) {
	d, s := reflect.ValueOf(dst).Elem(), reflect.ValueOf(src).Elem()
	for i := 0; i < d.NumField(); i++ {
		if d.Type().Field(i).IsExported() {
			d.Field(i).Set(s.Field(i))
		}
	}
}

// retuneExported re-tunes dst IN PLACE to the configuration of src: exported
// fields are assigned, but where an exported field points to a struct of the
// same type (the indicator inside a strategy, the moving average inside an
// indicator) the existing object is kept and its exported fields are re-tuned
// recursively - as a user does who writes s.Long.Period = 10. Unexported
// state at every level survives, so anything remembered from an earlier use
// is now stale.
func retuneExported(dst, src strategy.Strategy) {
	retuneStruct(reflect.ValueOf(dst).Elem(), reflect.ValueOf(src).Elem())
}

func retuneStruct(d, s reflect.Value) {
	t := d.Type()
	exported := 0
	for i := 0; i < t.NumField(); i++ {
		if t.Field(i).IsExported() {
			exported++
		}
	}
	if exported == 0 {
		if d.CanSet() {
			d.Set(s)
		}
		return
	}
	for i := 0; i < t.NumField(); i++ {
		if !t.Field(i).IsExported() {
			continue
		}
		df, sf := d.Field(i), s.Field(i)
		switch {
		case df.Kind() == reflect.Ptr && !df.IsNil() && !sf.IsNil() && df.Elem().Kind() == reflect.Struct:
			retuneStruct(df.Elem(), sf.Elem())
		case df.Kind() == reflect.Interface && !df.IsNil() && !sf.IsNil() && df.Elem().Type() == sf.Elem().Type() &&
			df.Elem().Kind() == reflect.Ptr && df.Elem().Elem().Kind() == reflect.Struct:
			retuneStruct(df.Elem().Elem(), sf.Elem().Elem())
		case df.Kind() == reflect.Struct:
			retuneStruct(df, sf)
		default:
			df.Set(sf)
		}
	}
}

// compoundStrats builds And/Or/Majority/Split/MacdRsi and the decorators over
// real sub-strategies (small warm-ups so that short inputs stay cheap).
func compoundStrats(ctx *run.Ctx, base []namedStrat, count int) []namedStrat {
	r := gen.New(ctx.Seed, "compound")
	pick := func() namedStrat { return base[r.Intn(len(base))] }
	var out []namedStrat
	plusOne := "" // set by the caller before add() for shapes that inherit the extra action
	add := func(name string, warm int, f func() strategy.Strategy, quiet ...int) {
		q := warm
		if len(quiet) > 0 {
			q = quiet[0]
		}
		out = append(out, namedStrat{Name: name, New: f, Warm: warm, Quiet: q, PlusOne: plusOne})
		plusOne = ""
	}
	allPlus := func(xs ...namedStrat) string {
		for _, x := range xs {
			if x.PlusOne == "" {
				return ""
			}
		}
		return xs[0].PlusOne
	}
	for i := 0; i < count; i++ {
		a, b, c := pick(), pick(), pick()
		w2 := max(a.Warm, b.Warm)
		w3 := max(w2, c.Warm)
		q2 := min(a.Warm, b.Warm)
		q3 := min(q2, c.Warm)
		plusOne = allPlus(a, b)
		add(fmt.Sprintf("strategy.AndStrategy (%s | %s)", a.Name, b.Name), w2, func() strategy.Strategy {
			return strategy.NewAndStrategy("and", a.New(), b.New())
		})
		if i%2 == 1 {
			plusOne = allPlus(a, b, c)
			add(fmt.Sprintf("strategy.AndStrategy (%s | %s | %s)", a.Name, b.Name, c.Name), w3, func() strategy.Strategy {
				return strategy.NewAndStrategy("and3", a.New(), b.New(), c.New())
			})
		}
		plusOne = allPlus(a, b, c)
		add(fmt.Sprintf("strategy.OrStrategy (%s | %s | %s)", a.Name, b.Name, c.Name), w3, func() strategy.Strategy {
			return strategy.NewOrStrategy("or", a.New(), b.New(), c.New())
		}, q3)
		plusOne = allPlus(a, b, c)
		add(fmt.Sprintf("strategy.MajorityStrategy (%s | %s | %s)", a.Name, b.Name, c.Name), w3, func() strategy.Strategy {
			return strategy.NewMajorityStrategyWith("majority", []strategy.Strategy{a.New(), b.New(), c.New()})
		}, q3)
		plusOne = allPlus(a, b)
		add(fmt.Sprintf("strategy.SplitStrategy (%s | %s)", a.Name, b.Name), w2, func() strategy.Strategy {
			return strategy.NewSplitStrategy(a.New(), b.New())
		}, q2)
		plusOne = a.PlusOne
		add(fmt.Sprintf("decorator.InverseStrategy (%s)", a.Name), a.Warm, func() strategy.Strategy { return decorator.NewInverseStrategy(a.New()) })
		add(fmt.Sprintf("decorator.NoLossStrategy (%s)", b.Name), b.Warm, func() strategy.Strategy { return decorator.NewNoLossStrategy(b.New()) })
		add(fmt.Sprintf("decorator.StopLossStrategy (%s)", c.Name), c.Warm, func() strategy.Strategy { return decorator.NewStopLossStrategy(c.New(), 0.05) })
		add(fmt.Sprintf("decorator.NoLossStrategy (strategy.AndStrategy (%s | %s))", a.Name, c.Name), max(a.Warm, c.Warm), func() strategy.Strategy {
			return decorator.NewNoLossStrategy(strategy.NewAndStrategy("and", a.New(), c.New()))
		})
		add(fmt.Sprintf("decorator.StopLossStrategy (decorator.InverseStrategy (%s))", b.Name), b.Warm, func() strategy.Strategy {
			return decorator.NewStopLossStrategy(decorator.NewInverseStrategy(b.New()), 0.02)
		})
	}
	// ONE instance wired into both (all) positions of a compound.
	for i := 0; i < min(count, 3); i++ {
		a := pick()
		plusOne = a.PlusOne
		add(fmt.Sprintf("strategy.SplitStrategy (%s | the same instance)", a.Name), a.Warm, func() strategy.Strategy {
			x := a.New()
			return strategy.NewSplitStrategy(x, x)
		})
		plusOne = a.PlusOne
		add(fmt.Sprintf("strategy.AndStrategy (%s | the same instance)", a.Name), a.Warm, func() strategy.Strategy {
			x := a.New()
			return strategy.NewAndStrategy("and", x, x)
		})
		plusOne = a.PlusOne
		add(fmt.Sprintf("strategy.MajorityStrategy (%s | the same instance x 3)", a.Name), a.Warm, func() strategy.Strategy {
			x := a.New()
			return strategy.NewMajorityStrategyWith("majority", []strategy.Strategy{x, x, x})
		})
	}
	// MACD-RSI with its sub-strategies re-tuned through the public fields, the
	// RSI being the slower indicator in two of them.
	for _, t := range [][4]int{{5, 10, 4, 13}, {3, 6, 2, 20}, {12, 26, 9, 5}} {
		t := t
		add(fmt.Sprintf("compound.MacdRsiStrategy (MACD %d/%d/%d, RSI %d through the public fields)", t[0], t[1], t[2], t[3]), max(t[1]+t[2]-2, t[3]), func() strategy.Strategy {
			x := compound.NewMacdRsiStrategy()
			x.MacdStrategy = strend.NewMacdStrategyWith(t[0], t[1], t[2])
			x.RsiStrategy.Rsi = momentum.NewRsiWithPeriod[float64](t[3])
			return x
		})
	}
	// two members of one compound that carry the same name but not the same
	// configuration, and Buy-and-Hold (which trades on the first day) beside a
	// strategy with a warm-up
	byRow := map[string][]namedStrat{}
	for _, b := range base {
		if b.Row != nil {
			byRow[b.Row.Name] = append(byRow[b.Row.Name], b)
		}
	}
	rowNames := make([]string, 0, len(byRow))
	for n := range byRow {
		rowNames = append(rowNames, n)
	}
	sort.Strings(rowNames)
	sameName := 0
	for _, off := range r.Perm(len(rowNames)) {
		l := byRow[rowNames[off]]
		if len(l) < 2 || sameName >= min(count, 4) {
			continue
		}
		a, b := l[0], l[len(l)-1]
		if a.New().Name() != b.New().Name() || fmt.Sprint(a.Cfg) == fmt.Sprint(b.Cfg) {
			continue // only pairs that print the same name although they are configured differently
		}
		sameName++
		plusOne = allPlus(a, b)
		add(fmt.Sprintf("strategy.AndStrategy (%s | %s)", a.Name, b.Name), max(a.Warm, b.Warm), func() strategy.Strategy {
			return strategy.NewAndStrategy("and", a.New(), b.New())
		})
		plusOne = allPlus(a, b)
		add(fmt.Sprintf("strategy.AndStrategy (%s | %s)", b.Name, a.Name), max(a.Warm, b.Warm), func() strategy.Strategy {
			return strategy.NewAndStrategy("and", b.New(), a.New())
		})
		plusOne = allPlus(a, b)
		add(fmt.Sprintf("strategy.OrStrategy (%s | %s)", a.Name, b.Name), max(a.Warm, b.Warm), func() strategy.Strategy {
			return strategy.NewOrStrategy("or", a.New(), b.New())
		}, min(a.Warm, b.Warm))
	}
	// ... in particular the two strategy types that expose an IdlePeriod method
	for _, rn := range []string{"trend.TsiStrategy", "momentum.TripleRsiStrategy"} {
		row := reg.StratByName(rn)
		if row == nil {
			continue
		}
		cfg := row.Rand(gen.New(ctx.Seed, "split-idle/"+rn))
		w := row.Warm(row.New(cfg))
		add(fmt.Sprintf("strategy.SplitStrategy (strategy.BuyAndHoldStrategy | %s %v)", rn, cfg), w, func() strategy.Strategy {
			return strategy.NewSplitStrategy(strategy.NewBuyAndHoldStrategy(), row.New(cfg))
		}, 0)
		add(fmt.Sprintf("strategy.SplitStrategy (%s %v | decorator.InverseStrategy (strategy.BuyAndHoldStrategy))", rn, cfg), w, func() strategy.Strategy {
			return strategy.NewSplitStrategy(row.New(cfg), decorator.NewInverseStrategy(strategy.NewBuyAndHoldStrategy()))
		}, 0)
	}
	// one side ends in an unbuffered stage (a decorator) and pads a warm-up, the
	// other says exactly one thing per snapshot: on short inputs either side may
	// finish first
	for i := 0; i < min(count, 2); i++ {
		a := pick()
		add(fmt.Sprintf("strategy.SplitStrategy (decorator.InverseStrategy (%s) | strategy.BuyAndHoldStrategy)", a.Name), a.Warm, func() strategy.Strategy {
			return strategy.NewSplitStrategy(decorator.NewInverseStrategy(a.New()), strategy.NewBuyAndHoldStrategy())
		}, 0)
		add(fmt.Sprintf("strategy.SplitStrategy (strategy.BuyAndHoldStrategy | decorator.NoLossStrategy (%s))", a.Name), a.Warm, func() strategy.Strategy {
			return strategy.NewSplitStrategy(strategy.NewBuyAndHoldStrategy(), decorator.NewNoLossStrategy(a.New()))
		}, 0)
	}
	for i := 0; i < min(count, 3); i++ {
		a := pick()
		add(fmt.Sprintf("strategy.SplitStrategy (strategy.BuyAndHoldStrategy | %s)", a.Name), a.Warm, func() strategy.Strategy {
			return strategy.NewSplitStrategy(strategy.NewBuyAndHoldStrategy(), a.New())
		}, 0)
		add(fmt.Sprintf("strategy.SplitStrategy (%s | strategy.BuyAndHoldStrategy)", a.Name), a.Warm, func() strategy.Strategy {
			return strategy.NewSplitStrategy(a.New(), strategy.NewBuyAndHoldStrategy())
		}, 0)
	}
	add("compound.MacdRsiStrategy default", 33, func() strategy.Strategy { return compound.NewMacdRsiStrategy() })
	add("compound.MacdRsiStrategy (45,55)", 33, func() strategy.Strategy { return compound.NewMacdRsiStrategyWith(45, 55) })
	// AllAndStrategies / AllSplitStrategies share the base instances between compounds.
	if len(base) >= 4 {
		four := []namedStrat{pick(), pick(), pick(), pick()}
		mk := func() []strategy.Strategy {
			l := make([]strategy.Strategy, len(four))
			for i := range four {
				l[i] = four[i].New()
			}
			return l
		}
		var pairs [][2]int // AllAndStrategies / AllSplitStrategies enumerate ordered pairs of distinct elements
		for a := range four {
			for b := range four {
				if a != b {
					pairs = append(pairs, [2]int{a, b})
				}
			}
		}
		for i := range strategy.AllAndStrategies(mk()) {
			i := i
			if i < len(pairs) {
				plusOne = allPlus(four[pairs[i][0]], four[pairs[i][1]])
			}
			add(fmt.Sprintf("strategy.AllAndStrategies[%d] of (%s | %s | %s | %s)", i, four[0].Name, four[1].Name, four[2].Name, four[3].Name),
				max(four[0].Warm, four[1].Warm, four[2].Warm, four[3].Warm), func() strategy.Strategy { return strategy.AllAndStrategies(mk())[i] }, 0)
		}
		for i := range strategy.AllSplitStrategies(mk()) {
			i := i
			if i < len(pairs) {
				plusOne = allPlus(four[pairs[i][0]], four[pairs[i][1]])
			}
			add(fmt.Sprintf("strategy.AllSplitStrategies[%d] of (%s | %s | %s | %s)", i, four[0].Name, four[1].Name, four[2].Name, four[3].Name),
				max(four[0].Warm, four[1].Warm, four[2].Warm, four[3].Warm), func() strategy.Strategy { return strategy.AllSplitStrategies(mk())[i] }, 0)
		}
	}
	return out
}

// periodOrder lists, for the types whose documentation names a short/fast and
// a long/slow period (and whose pipelines align the branches on that
// assumption), whether a list of periods is in the documented order.
var periodOrder = map[string]func(i []int) bool{
	"momentum.AwesomeOscillator":                 func(i []int) bool { return i[0] <= i[1] },
	"momentum.AwesomeOscillatorStrategy":         func(i []int) bool { return i[0] <= i[1] },
	"momentum.ChaikinOscillator":                 func(i []int) bool { return i[0] <= i[1] },
	"momentum.IchimokuCloud":                     func(i []int) bool { return i[0] <= i[1] && i[1] <= i[2] },
	"momentum.Ppo":                               func(i []int) bool { return i[0] <= i[1] },
	"momentum.Pvo":                               func(i []int) bool { return i[0] <= i[1] },
	"momentum.TripleRsiStrategy":                 func(i []int) bool { return i[0] <= i[1] }, // RSI period, SMA period
	"trend.Macd":                                 func(i []int) bool { return i[0] <= i[1] },
	"trend.MacdStrategy":                         func(i []int) bool { return i[0] <= i[1] },
	"trend.GoldenCrossStrategy":                  func(i []int) bool { return i[0] <= i[1] },
	"trend.TrimaStrategy":                        func(i []int) bool { return i[0] <= i[1] },
	"trend.TripleMovingAverageCrossoverStrategy": func(i []int) bool { return i[0] <= i[1] && i[1] <= i[2] },
	"volatility.KeltnerChannel":                  func(i []int) bool { return i[1] <= i[0]+1 }, // ATR period, EMA period
}

// invertedWitness: one configuration per listed type in the inverted order,
// run on every seed so that the known-finding lines do not depend on it.
var invertedWitness = map[string][]int{
	"momentum.AwesomeOscillator":                 {10, 5},
	"momentum.AwesomeOscillatorStrategy":         {14, 1},
	"momentum.ChaikinOscillator":                 {10, 2},
	"momentum.IchimokuCloud":                     {12, 4, 3, 3},
	"momentum.Ppo":                               {10, 4, 4},
	"momentum.Pvo":                               {11, 2, 2},
	"momentum.TripleRsiStrategy":                 {7, 5, 2},
	"trend.Macd":                                 {12, 9, 4},
	"trend.MacdStrategy":                         {12, 9, 7},
	"trend.GoldenCrossStrategy":                  {10, 8},
	"trend.TrimaStrategy":                        {28, 1},
	"trend.TripleMovingAverageCrossoverStrategy": {12, 5, 4},
	"volatility.KeltnerChannel":                  {4, 11},
}

func lengthsAround(w int) []int {
	set := map[int]bool{}
	var out []int
	for _, n := range []int{0, 1, w - 1, w, w + 1, 2*w + 3, 97} {
		if n >= 0 && !set[n] {
			set[n] = true
			out = append(out, n)
		}
	}
	return out
}

func c03(ctx *run.Ctx) {
	census := mon.NewCensus()
	nrand := ctx.Pick(3, 16)
	// --- indicators, equal-length inputs ---
	for _, ind := range reg.Sorted() {
		ind := ind
		ctx.Count("cmp:"+ind.Name, 0)
		for ci, cfg := range indCfgs(ctx, ind, nrand) {
			ci, cfg := ci, cfg
			w := ind.New(cfg).Idle
			for _, n := range lengthsAround(w) {
				n := n
				ctx.Case(fmt.Sprintf("ind/%s/cfg%d/n%d", ind.Name, ci, n), func(cc *run.Case) {
					inputs := indInputs(ind, gen.Bars(cc.R, gen.Walk, n), nil)
					what := fmt.Sprintf("%s %v", ind.Name, cfg)
					pipeCase(cc, census, ctx, what, map[string]any{"pipeline": what, "n": n, "w": w}, inputs, len(ind.Out),
						func(in []<-chan float64) []<-chan float64 { return ind.New(cfg).Compute(in) }, bitsEq)
					cc.Count("cmp:"+ind.Name, 1)
				})
			}
			// --- unequal input lengths: each input in turn shortened ---
			if len(ind.In) > 1 && ci <= ctx.Pick(1, 4) {
				for k := range ind.In {
					for _, short := range []int{0, 1, -1} {
						k, short := k, short
						n := 2*w + 5
						ctx.Case(fmt.Sprintf("ind/%s/cfg%d/unequal/in%d/short%d", ind.Name, ci, k, short), func(cc *run.Case) {
							inputs := indInputs(ind, gen.Bars(cc.R, gen.Walk, n), nil)
							m := short
							if short < 0 {
								m = n - 1
							}
							inputs[k] = inputs[k][:min(m, n)]
							lens := make([]int, len(inputs))
							for i := range inputs {
								lens[i] = len(inputs[i])
							}
							what := fmt.Sprintf("%s %v", ind.Name, cfg)
							pipeCase(cc, census, ctx, what, map[string]any{"pipeline": what, "input_lengths": lens, "w": w}, inputs, len(ind.Out),
								func(in []<-chan float64) []<-chan float64 { return ind.New(cfg).Compute(in) }, bitsEq)
							cc.Count("unequal_length_cases", 1)
						})
					}
				}
			}
		}
	}
	// --- configurations without the usual ordering (fast > slow, signal longer
	// than both, ...): termination, leak-freedom and schedule independence are
	// claimed for ALL configurations, only the values are not. Cases whose
	// periods contradict the order the type's documentation assumes carry the
	// label "inverted/<type>/..." (see periodOrder), the others "anyorder/...".
	unordered := func(name string, base reg.Cfg, k int) (reg.Cfg, string) {
		r := gen.New(ctx.Seed, fmt.Sprintf("anycfg/%s/%d", name, k))
		cfg := base
		ints := append([]int(nil), cfg.I...)
		switch k % 3 {
		case 0: // the admissible values in another order
			p := r.Perm(len(ints))
			for i := range ints {
				ints[i] = cfg.I[p[i]]
			}
		case 1: // reversed
			for i := range ints {
				ints[i] = cfg.I[len(ints)-1-i]
			}
		default: // unrelated periods, small and large mixed
			for i := range ints {
				ints[i] = r.Pick(1, 2, r.Range(1, 12), r.Range(10, 45))
			}
		}
		cfg.I = ints
		family := "anyorder"
		if ok, listed := periodOrder[name]; listed && !ok(ints) {
			family = "inverted"
		}
		return cfg, fmt.Sprintf("%s/%s/%d", family, name, k)
	}
	indAny := func(ind *reg.Indicator, cfg reg.Cfg, label string) {
		ctx.Checkpoint() // these cases may end in a process-fatal runtime deadlock
		ctx.Case(label, func(cc *run.Case) {
			n := 160
			inputs := indInputs(ind, gen.Bars(cc.R, gen.Walk, n), nil)
			what := fmt.Sprintf("%s %v (periods in no particular order)", ind.Name, cfg)
			pipeCase(cc, census, ctx, what, map[string]any{"pipeline": what, "n": n}, inputs, len(ind.Out),
				func(in []<-chan float64) []<-chan float64 { return ind.New(cfg).Compute(in) }, bitsEq)
			cc.Count("unordered_configuration_cases", 1)
		})
	}
	stratAny := func(row *reg.Strat, cfg reg.Cfg, label string) {
		ctx.Checkpoint()
		ctx.Case(label, func(cc *run.Case) {
			n := 160
			snaps := reg.Snaps(gen.Bars(cc.R, gen.Walk, n))
			what := fmt.Sprintf("%s %v (periods in no particular order)", row.Name, cfg)
			pipeCase(cc, census, ctx, what, map[string]any{"pipeline": what, "n": n}, [][]*asset.Snapshot{snaps}, 1,
				stratBuild(row.New(cfg)), eqActions)
			cc.Count("unordered_configuration_cases", 1)
		})
	}
	for _, ind := range reg.Sorted() {
		if len(ind.Default.I) < 2 {
			continue
		}
		for k := 0; k < ctx.Pick(4, 24); k++ {
			cfg, label := unordered(ind.Name, ind.Rand(gen.New(ctx.Seed, fmt.Sprintf("anycfg0/%s/%d", ind.Name, k))), k)
			indAny(ind, cfg, label)
		}
		if w, ok := invertedWitness[ind.Name]; ok { // fixed witness of the known finding
			cfg := ind.Default
			cfg.I = w
			indAny(ind, cfg, "inverted/"+ind.Name+"/witness")
		}
	}
	for _, row := range reg.SortedStrats() {
		if len(row.Default.I) < 2 {
			continue
		}
		for k := 0; k < ctx.Pick(4, 24); k++ {
			cfg, label := unordered(row.Name, row.Rand(gen.New(ctx.Seed, fmt.Sprintf("anycfg0/%s/%d", row.Name, k))), k)
			stratAny(row, cfg, label)
		}
		if w, ok := invertedWitness[row.Name]; ok {
			cfg := row.Default
			cfg.I = w
			stratAny(row, cfg, "inverted/"+row.Name+"/witness")
		}
	}
	// --- one party really stops for more than a second ---
	for b := 0; b < ctx.Pick(1, 3); b++ {
		ctx.Case(fmt.Sprintf("stalled/%d", b), c03Stalled)
	}
	// --- strategies ---
	base := baseStrats(ctx, ctx.Pick(1, 8))
	var small []namedStrat
	for _, b := range base {
		if b.Warm <= 40 {
			small = append(small, b)
		}
	}
	all := append(append([]namedStrat(nil), base...), compoundStrats(ctx, small, ctx.Pick(10, 80))...)
	for si, ns := range all {
		ns := ns
		for _, n := range lengthsAround(ns.Warm) {
			n := n
			ctx.Case(fmt.Sprintf("strat/%d/n%d", si, n), func(cc *run.Case) {
				snaps := reg.Snaps(gen.Bars(cc.R, gen.Walk, n))
				pipeCase(cc, census, ctx, ns.Name, map[string]any{"pipeline": ns.Name, "n": n, "w_s": ns.Warm}, [][]*asset.Snapshot{snaps}, 1,
					stratBuild(ns.New()), eqActions)
				cc.Count("strategy_cases", 1)
				if n <= 1 || n == ns.Warm-1 || n == 2*ns.Warm+3 {
					what := ns.Name + " through ComputeWithOutcome"
					pipeCase(cc, census, ctx, what, map[string]any{"pipeline": what, "n": n, "w_s": ns.Warm}, [][]*asset.Snapshot{snaps}, 2,
						stratOutcomeBuild(ns.New()), bitsEq)
					cc.Count("compute_with_outcome_cases", 1)
				}
				if cc.WantSample() && n > ns.Warm && si%7 == 3 {
					cc.Sample(map[string]any{"pipeline": ns.Name, "n": n, "schedules": "4 capacities x {eager, rr, slowprod, slow reader} x GOMAXPROCS {1,16}"})
				}
			})
		}
	}
}
