// Package fakesql is an in-memory database/sql driver that answers exactly
// the statements of the matching asset.SQLRepositoryDialect (Dialect). It is
// the "conforming database driver" the repository property presupposes: rows
// are stored in insertion order, every statement takes effect before it
// returns, and nothing is cached. Optional fault injection makes the append
// statement fail for chosen asset names.
package fakesql

import (
	"database/sql"
	"database/sql/driver"
	"errors"
	"fmt"
	"io"
	"sort"
	"sync"
	"time"
)

// Statement texts (the dialect hands these to the repository).
const (
	qCreate   = "FAKESQL CREATE"
	qDrop     = "FAKESQL DROP"
	qAssets   = "FAKESQL ASSETS"
	qGetSince = "FAKESQL GETSINCE"
	qLastDate = "FAKESQL LASTDATE"
	qAppend   = "FAKESQL APPEND"
)

// Dialect is the SQLRepositoryDialect for this driver.
type Dialect struct{}

func (Dialect) CreateTable() string { return qCreate }
func (Dialect) DropTable() string   { return qDrop }
func (Dialect) Assets() string      { return qAssets }
func (Dialect) GetSince() string    { return qGetSince }
func (Dialect) LastDate() string    { return qLastDate }
func (Dialect) Append() string      { return qAppend }

type row struct {
	name                string
	date                time.Time
	o, h, l, c, v       float64
}

// Store is one database.
type Store struct {
	mu       sync.Mutex
	rows     []row
	created  bool
	FailName map[string]bool // append fails for these asset names
	Appends  int
}

var (
	regMu  sync.Mutex
	stores = map[string]*Store{}
)

// Get returns (creating it if needed) the store behind a data source name.
func Get(dsn string) *Store {
	regMu.Lock()
	defer regMu.Unlock()
	s := stores[dsn]
	if s == nil {
		s = &Store{FailName: map[string]bool{}}
		stores[dsn] = s
	}
	return s
}

// Forget drops a store.
func Forget(dsn string) {
	regMu.Lock()
	delete(stores, dsn)
	regMu.Unlock()
}

// DriverName is the name under which the driver is registered.
const DriverName = "fakesql"

func init() { sql.Register(DriverName, drv{}) }

type drv struct{}

func (drv) Open(dsn string) (driver.Conn, error) { return &conn{s: Get(dsn)}, nil }

type conn struct{ s *Store }

func (c *conn) Prepare(q string) (driver.Stmt, error) {
	switch q {
	case qCreate, qDrop, qAssets, qGetSince, qLastDate, qAppend:
		return &stmt{c: c, q: q}, nil
	}
	return nil, fmt.Errorf("fakesql: unknown statement %q", q)
}
func (c *conn) Close() error              { return nil }
func (c *conn) Begin() (driver.Tx, error) { return nil, errors.New("fakesql: no transactions") }

type stmt struct {
	c *conn
	q string
}

func (s *stmt) Close() error { return nil }
func (s *stmt) NumInput() int {
	switch s.q {
	case qGetSince:
		return 2
	case qLastDate:
		return 1
	case qAppend:
		return 7
	}
	return 0
}

func (s *stmt) Exec(args []driver.Value) (driver.Result, error) {
	st := s.c.s
	st.mu.Lock()
	defer st.mu.Unlock()
	switch s.q {
	case qCreate:
		st.created = true
		return driver.RowsAffected(0), nil
	case qDrop:
		st.rows, st.created = nil, false
		return driver.RowsAffected(0), nil
	case qAppend:
		name, _ := args[0].(string)
		if st.FailName[name] {
			return nil, fmt.Errorf("fakesql: injected append failure for %q", name)
		}
		date, ok := args[1].(time.Time)
		if !ok {
			return nil, fmt.Errorf("fakesql: date argument is %T", args[1])
		}
		f := func(i int) float64 { v, _ := args[i].(float64); return v }
		st.rows = append(st.rows, row{name, date, f(2), f(3), f(4), f(5), f(6)})
		st.Appends++
		return driver.RowsAffected(1), nil
	}
	return nil, fmt.Errorf("fakesql: %q is not an exec statement", s.q)
}

func (s *stmt) Query(args []driver.Value) (driver.Rows, error) {
	st := s.c.s
	st.mu.Lock()
	defer st.mu.Unlock()
	switch s.q {
	case qAssets:
		seen := map[string]bool{}
		var names []string
		for _, r := range st.rows {
			if !seen[r.name] {
				seen[r.name] = true
				names = append(names, r.name)
			}
		}
		sort.Strings(names)
		out := &rows{cols: []string{"name"}}
		for _, n := range names {
			out.data = append(out.data, []driver.Value{n})
		}
		return out, nil
	case qGetSince:
		name, _ := args[0].(string)
		since, _ := args[1].(time.Time)
		out := &rows{cols: []string{"date", "open", "high", "low", "close", "volume"}}
		for _, r := range st.rows {
			if r.name == name && !r.date.Before(since) {
				out.data = append(out.data, []driver.Value{r.date, r.o, r.h, r.l, r.c, r.v})
			}
		}
		return out, nil
	case qLastDate:
		name, _ := args[0].(string)
		out := &rows{cols: []string{"date"}}
		found := false
		var last time.Time
		for _, r := range st.rows {
			if r.name == name && (!found || !r.date.Before(last)) {
				found, last = true, r.date
			}
		}
		if found {
			out.data = append(out.data, []driver.Value{last})
		}
		return out, nil
	}
	return nil, fmt.Errorf("fakesql: %q is not a query", s.q)
}

type rows struct {
	cols []string
	data [][]driver.Value
	i    int
}

func (r *rows) Columns() []string { return r.cols }
func (r *rows) Close() error      { return nil }
func (r *rows) Next(dest []driver.Value) error {
	if r.i >= len(r.data) {
		return io.EOF
	}
	copy(dest, r.data[r.i])
	r.i++
	return nil
}
