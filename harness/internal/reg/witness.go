package reg

// Wit is a fixed witness case for a known finding: it is replayed by every
// run in addition to the generated cases, so that the corresponding
// KNOWN-FINDING line does not depend on the seed.
type Wit struct {
	Name string
	Cfg  Cfg
	In   [][]float64
	Why  string
}

// Witnesses lists the fixed cases (inputs in the order of the row's In).
var Witnesses = []Wit{
	{Name: "trend.Kdj", Cfg: P(1, 1, 2), Why: "one bar with highest high == lowest low makes RSV NaN; the running sum inside SMA keeps it for ever",
		In: [][]float64{{2, 3, 4, 5, 6, 7}, {1, 3, 2, 3, 4, 5}, {2, 3, 3, 4, 5, 6}}},
	{Name: "trend.MassIndex", Cfg: P(1, 1, 2), Why: "first bar high == low makes the EMA ratio 0/0; the moving sum keeps the NaN for ever",
		In: [][]float64{{2, 3, 4, 5, 6}, {2, 2, 2, 2, 2}}},
	{Name: "volume.Cmf", Cfg: P(1), Why: "a high == low bar makes the money flow multiplier NaN; the moving sums keep it for ever",
		In: [][]float64{{2, 3, 4, 4}, {1, 3, 2, 2}, {2, 3, 3, 4}, {10, 10, 10, 10}}},
	{Name: "volume.Emv", Cfg: P(1), Why: "a zero-volume day makes the box ratio 0 and the one-day EMV infinite; the SMA's running sum turns Inf-Inf into NaN for ever",
		In: [][]float64{{2, 4, 6, 8, 9}, {1, 2, 2, 3, 5}, {1e8, 0, 1e8, 1e8, 1e8}}},
	{Name: "momentum.StochasticOscillator", Cfg: P(1, 2), Why: "highest high == lowest low makes %K NaN; the SMA behind %D keeps it for ever",
		In: [][]float64{{2, 1, 2, 2, 2}, {1, 1, 1, 1, 1}, {1.5, 1, 1.5, 2, 1.5}}},
	{Name: "momentum.StochasticRsi", Cfg: P(3), Why: "a flat start makes RSI 0/0 = NaN; the NaN inserted into the moving-min search tree is never removed",
		In: [][]float64{{10, 10, 10, 10, 11, 10, 12, 11, 13, 12, 14, 13, 12, 15, 11}}},
}
