package reg

import (
	"math"

	"github.com/cinar/indicator/v2/trend"
	"github.com/cinar/indicator/v2/volume"

	"verif/harness/internal/gen"
)

// Rows of package volume. Every reference is written from the doc comment
// above the type and evaluated directly on the input window.

// vuOut allocates an output of max(0, n-w) values.
func vuOut(n, w int) []RV {
	if n-w <= 0 {
		return []RV{}
	}
	return make([]RV, n-w)
}

// vuMfm is the Money Flow Multiplier of every bar:
// ((c-l)-(h-c))/(h-l), ill where h-l is zero or has cancelled.
func vuMfm(h, l, c []float64) []RV {
	out := make([]RV, len(h))
	for i := range out {
		out[i] = Quot((c[i]-l[i])-(h[i]-c[i]), h[i]-l[i], math.Max(math.Abs(h[i]), math.Abs(l[i])))
	}
	return out
}

// vuMfv is MFM * Volume of every bar.
func vuMfv(h, l, c, v []float64) []RV {
	out := vuMfm(h, l, c)
	for i := range out {
		out[i].V *= v[i]
		out[i].Ill = out[i].Ill || bad(out[i].V)
	}
	return out
}

// vuWinSum sums xs[i-p+1..i]; ill when any term is ill. Also returns the
// largest term magnitude of the window.
func vuWinSum(xs []RV, i, p int) (sum float64, ill bool, mag float64) {
	for _, x := range xs[i-p+1 : i+1] {
		sum += x.V
		ill = ill || x.Ill
		mag = math.Max(mag, math.Abs(x.V))
	}
	return
}

// vuCum is the running total of xs from 0; an ill term spoils every later
// value.
func vuCum(xs []RV) []RV {
	out := make([]RV, len(xs))
	s, ill := 0.0, false
	for i, x := range xs {
		s += x.V
		ill = ill || x.Ill || bad(s)
		out[i] = RV{V: s, Ill: ill}
	}
	return out
}

// vuEmv: EMV(1)_i = DistanceMoved_i / BoxRatio_{i-lag}, EMV = SMA_P(EMV(1)).
// lag = 0 is the documented formula (both of day i).
func vuEmv(c Cfg, in [][]float64, lag int) [][]RV {
	p := c.I[0]
	h, l, v := in[0], in[1], in[2]
	n := len(h)
	e := make([]RV, n) // e[0] is not defined (no prior bar) and never used
	for i := 1; i < n; i++ {
		dm := (h[i]+l[i])/2 - (h[i-1]+l[i-1])/2
		j := i - lag
		box := Quot(v[j]/100000000, h[j]-l[j], math.Max(math.Abs(h[j]), math.Abs(l[j])))
		r := Quot(dm, box.V, 0)
		r.Ill = r.Ill || box.Ill
		// the distance moved is a difference of two midpoints: its rounding is
		// relative to THEM (1e-4 of their size at the 1e-9 tolerance, i.e. a few
		// hundred ulps), not to the possibly cancelling difference
		if s := 1e-4 * math.Max(math.Abs(h[i]+l[i]), math.Abs(h[i-1]+l[i-1])) / 2 / math.Abs(box.V); !bad(s) {
			r.S = s
		}
		e[i] = r
	}
	out := vuOut(n, p)
	hist := 0.0 // largest finite one-day term seen so far: bounds the residue of a running sum
	for i := 1; i < p && i < n; i++ {
		if !bad(e[i].V) {
			hist = math.Max(hist, math.Abs(e[i].V))
		}
	}
	for k := range out {
		if i := k + p; !bad(e[i].V) {
			hist = math.Max(hist, math.Abs(e[i].V))
		}
		s, ill, mag := vuWinSum(e, k+p, p)
		for _, x := range e[k+1 : k+p+1] {
			mag = math.Max(mag, x.S)
		}
		out[k] = RV{V: s / float64(p), Ill: ill || bad(s), S: math.Max(mag, Resid(hist, 1/float64(p)))}
	}
	return One(out)
}

// vuFi: FI = EMA_P((c_i - c_{i-1}) * v_{i-lag}); lag = 0 is documented.
func vuFi(c Cfg, in [][]float64, lag int) [][]RV {
	p := c.I[0]
	cl, v := in[0], in[1]
	n := len(cl)
	if n < 1 {
		return One([]RV{})
	}
	raw := make([]float64, n-1)
	for i := 1; i < n; i++ {
		raw[i-1] = (cl[i] - cl[i-1]) * v[i-lag]
	}
	out := Vals(EMA(raw, p, 2))
	if out == nil {
		out = []RV{}
	}
	// a non-finite term spoils the recursion for good
	ill := false
	for k := range out {
		ill = ill || out[k].Ill
		out[k].Ill = ill
	}
	return One(out)
}

// vuObv: OBV with the bar before the first taken as close 0, OBV 0.
// againstObv = false is the documented comparison (close against the
// previous close).
func vuObv(in [][]float64, againstObv bool) [][]RV {
	cl, v := in[0], in[1]
	out := make([]RV, len(cl))
	obv, prevClose := 0.0, 0.0
	for i := range cl {
		ref := prevClose
		if againstObv {
			ref = obv
		}
		switch {
		case cl[i] > ref:
			obv += v[i]
		case cl[i] < ref:
			obv -= v[i]
		}
		prevClose = cl[i]
		out[i] = RV{V: obv, Ill: bad(obv)}
	}
	return One(out)
}

func init() {
	Add(
		&Indicator{
			Name: "volume.Ad", In: "hlcv", Out: []string{"ad"},
			Note:    "\"AD = Previous AD + CMFV\": CMFV read as the bar's MFV, AD before the first bar = 0",
			Default: Cfg{},
			Rand:    func(r *gen.Rand) Cfg { return Cfg{} },
			New: func(c Cfg) Inst {
				x := volume.NewAd[float64]()
				return Inst{Obj: x, Compute: A41(x.Compute), Idle: x.IdlePeriod(), Declared: true}
			},
			// AD_i = AD_{i-1} + MFM_i*v_i
			Ref: func(c Cfg, in [][]float64) [][]RV {
				return One(vuCum(vuMfv(in[0], in[1], in[2], in[3])))
			},
			Deg: []Degree{{0, 1}},
		},
		&Indicator{
			Name: "volume.Cmf", In: "hlcv", Out: []string{"cmf"},
			Note:    "\"Sum(20, ..)\" read as the sum over the configured period",
			Default: P(volume.DefaultCmfPeriod),
			Rand:    func(r *gen.Rand) Cfg { return P(r.Range(1, 12)) },
			New: func(c Cfg) Inst {
				x := volume.NewCmfWithPeriod[float64](c.I[0])
				return Inst{Obj: x, Compute: A41(x.Compute), Idle: x.IdlePeriod(), Declared: true}
			},
			// CMF_i = sum_P(MFM*v) / sum_P(v)
			Ref: func(c Cfg, in [][]float64) [][]RV {
				p := c.I[0]
				mfv := vuMfv(in[0], in[1], in[2], in[3])
				v := in[3]
				out := vuOut(len(v), p-1)
				mfvV := make([]float64, len(mfv))
				for j := range mfv {
					mfvV[j] = mfv[j].V
				}
				mmfv, mvol := PrefixAbsMax(mfvV), PrefixAbsMax(v)
				for k := range out {
					i := k + p - 1
					s, ill, _ := vuWinSum(mfv, i, p)
					den := Sum(Window(v, i, p))
					r := Quot(s, den, 0)
					r.Ill = r.Ill || ill
					r.S = RatioResid(mmfv[i], mvol[i], s, den)
					out[k] = r
				}
				return One(out)
			},
			Deg: []Degree{{0, 0}},
		},
		&Indicator{
			Name: "volume.Emv", In: "hlv", Out: []string{"emv"},
			Default: P(volume.DefaultEmvPeriod),
			Rand:    func(r *gen.Rand) Cfg { return P(r.Range(1, 12)) },
			New: func(c Cfg) Inst {
				x := volume.NewEmvWithPeriod[float64](c.I[0])
				return Inst{Obj: x, Compute: A31(x.Compute), Idle: x.IdlePeriod(), Declared: true}
			},
			// EMV(1)_i = ((h_i+l_i)/2 - (h_{i-1}+l_{i-1})/2) / ((v_i/1e8)/(h_i-l_i)); EMV = SMA_P(EMV(1))
			Ref: func(c Cfg, in [][]float64) [][]RV { return vuEmv(c, in, 0) },
			Deg: []Degree{{2, -1}},
			Devs: []Dev{{
				Key:  "emv-box-ratio-lagged",
				What: "the distance moved of day i is divided by the box ratio of day i-1 (the one-shorter change stream is paired with the box-ratio stream from its first value)",
				Ref:  func(c Cfg, in [][]float64) [][]RV { return vuEmv(c, in, 1) },
			}},
		},
		&Indicator{
			Name: "volume.Fi", In: "cv", Out: []string{"fi"},
			Note:    "\"Volume\" read as the volume of the current day; EMA as in trend.Ema (seed SMA of the first Period values, multiplier 2/(Period+1))",
			Default: P(volume.DefaultFiPeriod),
			Rand:    func(r *gen.Rand) Cfg { return P(r.Range(1, 12)) },
			New: func(c Cfg) Inst {
				x := volume.NewFiWithPeriod[float64](c.I[0])
				return Inst{Obj: x, Compute: A21(x.Compute), Idle: x.IdlePeriod(), Declared: true}
			},
			// FI = EMA_P((c_i - c_{i-1}) * v_i)
			Ref: func(c Cfg, in [][]float64) [][]RV { return vuFi(c, in, 0) },
			Deg: []Degree{{1, 1}},
			Devs: []Dev{{
				Key:  "fi-volume-lagged",
				What: "the close change of day i is multiplied by the volume of day i-1 (the one-shorter change stream is paired with the volume stream from its first value)",
				Ref:  func(c Cfg, in [][]float64) [][]RV { return vuFi(c, in, 1) },
			}},
		},
		&Indicator{
			Name: "volume.Mfi", In: "hlcv", Out: []string{"mfi"},
			Note:    "comment does not say how a day's flow is signed nor over what the flows are summed: following the code, raw flow_i = ((h+l+c)/3)*v counts as positive/negative by the sign of raw flow_i - raw flow_{i-1} (NOT by the change of the typical price, the conventional definition), unchanged = neither; sums over Sum.Period days; zero negative flow is marked ill (the code yields 100 there); no constructor with a period: the period is set through Sum.Period",
			Default: P(volume.DefaultMfiPeriod),
			Rand:    func(r *gen.Rand) Cfg { return P(r.Range(1, 12)) },
			New: func(c Cfg) Inst {
				x := volume.NewMfi[float64]()
				x.Sum = trend.NewMovingSumWithPeriod[float64](c.I[0])
				return Inst{Obj: x, Compute: A41(x.Compute), Idle: x.IdlePeriod(), Declared: true}
			},
			// MFI_i = 100 - 100/(1 + sum_P(positive flow)/sum_P(negative flow))
			Ref: func(c Cfg, in [][]float64) [][]RV {
				p := c.I[0]
				h, l, cl, v := in[0], in[1], in[2], in[3]
				n := len(h)
				raw := make([]float64, n)
				for i := range raw {
					raw[i] = (h[i] + l[i] + cl[i]) / 3 * v[i]
				}
				pos, neg := make([]float64, n), make([]float64, n)
				for i := 1; i < n; i++ {
					switch d := raw[i] - raw[i-1]; {
					case d > 0:
						pos[i] = raw[i]
					case d < 0:
						neg[i] = raw[i]
					}
				}
				out := vuOut(n, p)
				fm := 0.0 // largest raw flow seen so far: bounds the residue of the running flow sums
				for i := 0; i < p && i < n; i++ {
					fm = math.Max(fm, math.Abs(raw[i]))
				}
				for k := range out {
					i := k + p
					fm = math.Max(fm, math.Abs(raw[i]))
					negSum := Sum(Window(neg, i, p))
					ratio := Quot(Sum(Window(pos, i, p)), negSum, 0)
					val := 100 - 100/(1+ratio.V)
					out[k] = RV{V: val, Ill: ratio.Ill || bad(val), S: Resid(fm, 100/negSum)}
				}
				return One(out)
			},
			Deg: []Degree{{0, 0}},
		},
		&Indicator{
			Name: "volume.Mfm", In: "hlc", Out: []string{"mfm"},
			Default: Cfg{},
			Rand:    func(r *gen.Rand) Cfg { return Cfg{} },
			New: func(c Cfg) Inst {
				x := volume.NewMfm[float64]()
				return Inst{Obj: x, Compute: A31(x.Compute), Idle: x.IdlePeriod(), Declared: true}
			},
			// MFM = ((c-l)-(h-c))/(h-l)
			Ref: func(c Cfg, in [][]float64) [][]RV { return One(vuMfm(in[0], in[1], in[2])) },
			Deg: []Degree{{0, 0}},
		},
		&Indicator{
			Name: "volume.Mfv", In: "hlcv", Out: []string{"mfv"},
			Default: Cfg{},
			Rand:    func(r *gen.Rand) Cfg { return Cfg{} },
			New: func(c Cfg) Inst {
				x := volume.NewMfv[float64]()
				return Inst{Obj: x, Compute: A41(x.Compute), Idle: x.IdlePeriod(), Declared: true}
			},
			// MFV = MFM * v
			Ref: func(c Cfg, in [][]float64) [][]RV { return One(vuMfv(in[0], in[1], in[2], in[3])) },
			Deg: []Degree{{0, 1}},
		},
		&Indicator{
			Name: "volume.Nvi", In: "cv", Out: []string{"nvi"},
			Note:    "NVI before the first output (position 0) = Initial; the update applies when the volume is NOT greater than the previous volume (equal volumes update), as the comment says",
			Default: Cfg{F: []float64{volume.DefaultNviInitial}},
			Rand:    func(r *gen.Rand) Cfg { return Cfg{F: []float64{r.PickF(1000, 1000, 100, 1)}} },
			New: func(c Cfg) Inst {
				x := volume.NewNvi[float64]()
				x.Initial = c.F[0]
				return Inst{Obj: x, Compute: A21(x.Compute), Idle: x.IdlePeriod(), Declared: true}
			},
			// v_i > v_{i-1}: NVI_i = NVI_{i-1}; otherwise NVI_i = NVI_{i-1} + ((c_i-c_{i-1})/c_{i-1})*NVI_{i-1}
			Ref: func(c Cfg, in [][]float64) [][]RV {
				cl, v := in[0], in[1]
				out := vuOut(len(cl), 1)
				nvi, ill := c.F[0], false
				for k := range out {
					i := k + 1
					if !(v[i] > v[i-1]) {
						q := Quot(cl[i]-cl[i-1], cl[i-1], 0)
						nvi += q.V * nvi
						ill = ill || q.Ill || bad(nvi)
					}
					out[k] = RV{V: nvi, Ill: ill}
				}
				return One(out)
			},
			Deg: []Degree{{0, 0}},
		},
		&Indicator{
			Name: "volume.Obv", In: "cv", Out: []string{"obv"},
			Note:    "comment does not define the first bar: the bar before it is taken as closing 0 with OBV 0 (so OBV[0] = +Volume[0] for a positive close)",
			Default: Cfg{},
			Rand:    func(r *gen.Rand) Cfg { return Cfg{} },
			New: func(c Cfg) Inst {
				x := volume.NewObv[float64]()
				return Inst{Obj: x, Compute: A21(x.Compute), Idle: x.IdlePeriod(), Declared: true}
			},
			// c_i > c_{i-1}: OBV += v_i; c_i < c_{i-1}: OBV -= v_i; equal: unchanged
			Ref: func(c Cfg, in [][]float64) [][]RV { return vuObv(in, false) },
			Deg: []Degree{{0, 1}},
			Devs: []Dev{{
				Key:  "obv-compares-close-with-previous-obv",
				What: "the closing is compared with the previous OBV value instead of the previous closing",
				Ref:  func(c Cfg, in [][]float64) [][]RV { return vuObv(in, true) },
			}},
		},
		&Indicator{
			Name: "volume.Vpt", In: "cv", Out: []string{"vpt"},
			Note:    "VPT before the first output (position 0) = 0",
			Default: Cfg{},
			Rand:    func(r *gen.Rand) Cfg { return Cfg{} },
			New: func(c Cfg) Inst {
				x := volume.NewVpt[float64]()
				return Inst{Obj: x, Compute: A21(x.Compute), Idle: x.IdlePeriod(), Declared: true}
			},
			// VPT_i = VPT_{i-1} + v_i*(c_i-c_{i-1})/c_{i-1}
			Ref: func(c Cfg, in [][]float64) [][]RV {
				cl, v := in[0], in[1]
				terms := make([]RV, 0, len(cl))
				for i := 1; i < len(cl); i++ {
					terms = append(terms, Quot(v[i]*(cl[i]-cl[i-1]), cl[i-1], 0))
				}
				return One(vuCum(terms))
			},
			Deg: []Degree{{0, 1}},
		},
		&Indicator{
			Name: "volume.Vwap", In: "cv", Out: []string{"vwap"},
			Note:    "\"Sum\" read as the sum over the configured period",
			Default: P(volume.DefaultVwapPeriod),
			Rand:    func(r *gen.Rand) Cfg { return P(r.Range(1, 12)) },
			New: func(c Cfg) Inst {
				x := volume.NewVwapWithPeriod[float64](c.I[0])
				return Inst{Obj: x, Compute: A21(x.Compute), Idle: x.IdlePeriod(), Declared: true}
			},
			// VWAP_i = sum_P(c*v) / sum_P(v)
			Ref: func(c Cfg, in [][]float64) [][]RV {
				p := c.I[0]
				cl, v := in[0], in[1]
				cv := Zip2(cl, v, func(a, b float64) float64 { return a * b })
				out := vuOut(len(cl), p-1)
				mcv, mv := PrefixAbsMax(cv), PrefixAbsMax(v)
				for k := range out {
					i := k + p - 1
					num, den := Sum(Window(cv, i, p)), Sum(Window(v, i, p))
					out[k] = Quot(num, den, 0)
					out[k].S = RatioResid(mcv[i], mv[i], num, den) // running sums keep the residue of earlier, larger terms
				}
				return One(out)
			},
			Deg: []Degree{{1, 0}},
		},
	)
}
