package reg

import (
	"github.com/cinar/indicator/v2/asset"
	"github.com/cinar/indicator/v2/strategy"
	st "github.com/cinar/indicator/v2/strategy/trend"

	"verif/harness/internal/gen"
)

// Rows written first, as the pattern for the rest of the strategy registry.

func init() {
	AddStrat(
		&Strat{
			Name: "trend.ApoStrategy", InRegistry: true,
			Default: P(14, 30),
			Rand: func(r *gen.Rand) Cfg {
				s := r.Range(2, 12)
				return P(r.Range(1, s), s)
			},
			New: func(c Cfg) strategy.Strategy {
				x := st.NewApoStrategy()
				x.Apo.FastPeriod, x.Apo.SlowPeriod = c.I[0], c.I[1]
				return x
			},
			// APO has no IdlePeriod method: its warm-up is SlowPeriod-1; the
			// cross-over rule needs the previous APO value as well.
			Warm: func(s strategy.Strategy) int { return s.(*st.ApoStrategy).Apo.SlowPeriod },
			// Buy when APO crosses above zero (previous < 0 <= current), Sell
			// when it crosses below (previous > 0 >= current).
			Rule: func(s strategy.Strategy, snaps []*asset.Snapshot) []RuleVal {
				x := s.(*st.ApoStrategy)
				w := x.Apo.SlowPeriod - 1
				apo := Collect(x.Apo.Compute(Ch(Col(snaps, 'c'))))[0]
				out := Holds(len(snaps))
				for i := range out {
					cur, ok1 := At(apo, i, w)
					prev, ok0 := At(apo, i-1, w)
					if !ok0 || !ok1 {
						continue
					}
					scale := snaps[i].Close
					if Near(cur, 0, scale) || Near(prev, 0, scale) {
						out[i].Exempt = true
						continue
					}
					switch {
					case prev < 0 && cur >= 0:
						out[i].A = strategy.Buy
					case prev > 0 && cur <= 0:
						out[i].A = strategy.Sell
					}
				}
				return out
			},
		},
		&Strat{
			Name: "trend.AlligatorStrategy", InRegistry: true,
			Default: P(st.DefaultAlligatorStrategyJawPeriod, st.DefaultAlligatorStrategyTeethPeriod, st.DefaultAlligatorStrategyLipPeriod),
			Rand:    func(r *gen.Rand) Cfg { return P(r.Range(1, 12), r.Range(1, 12), r.Range(1, 12)) },
			New: func(c Cfg) strategy.Strategy {
				return st.NewAlligatorStrategyWith(c.I[0], c.I[1], c.I[2])
			},
			Warm: func(s strategy.Strategy) int {
				x := s.(*st.AlligatorStrategy)
				return max(x.Jaw.IdlePeriod(), x.Teeth.IdlePeriod(), x.Lip.IdlePeriod())
			},
			// Buy when lip > teeth and lip > jaw; Sell when lip < both.
			Rule: func(s strategy.Strategy, snaps []*asset.Snapshot) []RuleVal {
				return alligatorRule(s, snaps, 0)
			},
			Devs: []StratDev{{
				Key:  "alligator-shift-by-period",
				What: "actions are shifted by the largest period instead of the largest warm-up (period-1): n+1 actions, every recommendation one snapshot late",
				Rule: func(s strategy.Strategy, snaps []*asset.Snapshot) []RuleVal {
					r := alligatorRule(s, snaps, 0)
					return append(Holds(1), r...)
				},
			}},
		},
	)
}

func alligatorRule(s strategy.Strategy, snaps []*asset.Snapshot, _ int) []RuleVal {
	x := s.(*st.AlligatorStrategy)
	c := Col(snaps, 'c')
	jaw := Collect(x.Jaw.Compute(Ch(c)))[0]
	teeth := Collect(x.Teeth.Compute(Ch(c)))[0]
	lip := Collect(x.Lip.Compute(Ch(c)))[0]
	w := max(x.Jaw.IdlePeriod(), x.Teeth.IdlePeriod(), x.Lip.IdlePeriod())
	out := Holds(len(snaps))
	for i := w; i < len(snaps); i++ {
		j, _ := At(jaw, i, x.Jaw.IdlePeriod())
		t, _ := At(teeth, i, x.Teeth.IdlePeriod())
		l, _ := At(lip, i, x.Lip.IdlePeriod())
		if Near(l, t, snaps[i].Close) || Near(l, j, snaps[i].Close) {
			out[i].Exempt = true
			continue
		}
		switch {
		case l > t && l > j:
			out[i].A = strategy.Buy
		case l < t && l < j:
			out[i].A = strategy.Sell
		}
	}
	return out
}
