package reg

import (
	"math"

	"github.com/cinar/indicator/v2/momentum"

	"verif/harness/internal/gen"
)

// Rows of the momentum package (first half). References are written from
// the doc comments; ill-conditioning is carried along in RV.Ill.

// ---- private helpers (prefix mo) ----

// moShortLong draws short <= long in [1,12] (equal periods and period 1 occur).
func moShortLong(r *gen.Rand) (int, int) {
	l := r.Range(1, 12)
	return r.Range(1, l), l
}

func moAbsMax(a, b float64) float64 { return math.Max(math.Abs(a), math.Abs(b)) }

func moSub(a, b float64) float64 { return a - b }

// moTail drops the first k reference values.
func moTail(xs []RV, k int) []RV {
	if k >= len(xs) {
		return nil
	}
	if k < 0 {
		k = 0
	}
	return xs[k:]
}

func moPlain(xs []RV) []float64 {
	out := make([]float64, len(xs))
	for i, x := range xs {
		out[i] = x.V
	}
	return out
}

// moEMA is the documented EMA (seed SMA_p, multiplier 2/(p+1)) over reference
// values: once an ill term has entered the recursion every later value is ill.
func moEMA(xs []RV, p int) []RV {
	e := EMA(moPlain(xs), p, 2)
	out := make([]RV, len(e))
	ill := false
	for i := 0; i < p-1 && i < len(xs); i++ {
		ill = ill || xs[i].Ill
	}
	for k := range e {
		ill = ill || xs[k+p-1].Ill || bad(e[k])
		out[k] = RV{V: e[k], Ill: ill, S: xs[k+p-1].S}
	}
	return out
}

// moWin evaluates f on every window of p reference values; a window that
// contains an ill term is ill.
func moWin(xs []RV, p int, f func(w []float64) float64) []RV {
	if len(xs) < p {
		return nil
	}
	vs := moPlain(xs)
	out := make([]RV, len(xs)-p+1)
	for k := range out {
		ill := false
		for _, x := range xs[k : k+p] {
			ill = ill || x.Ill
		}
		v := f(vs[k : k+p])
		out[k] = RV{V: v, Ill: ill || bad(v)}
	}
	return out
}

func moMean(w []float64) float64 { return Sum(w) / float64(len(w)) }

// moMid is (HH_p + LL_p)/2 at every position >= p-1.
func moMid(h, l []float64, p int) []float64 {
	return Zip2(MovMax(h, p), MovMin(l, p), func(a, b float64) float64 { return (a + b) / 2 })
}

// moPpo is the documented percentage oscillator with its signal and histogram.
func moPpo(c Cfg, x []float64) [][]RV {
	s, l, g := c.I[0], c.I[1], c.I[2]
	es := Tail(EMA(x, s, 2), l-s)
	el := EMA(x, l, 2)
	ppo := make([]RV, len(el))
	for k := range el {
		q := Quot(es[k]-el[k], el[k], 0)
		ppo[k] = RV{V: 100 * q.V, Ill: q.Ill}
	}
	sig := moEMA(ppo, g)
	val := moTail(ppo, g-1)
	hist := make([]RV, len(sig))
	for k := range sig {
		hist[k] = RV{V: val[k].V - sig[k].V, Ill: val[k].Ill || sig[k].Ill}
	}
	return [][]RV{val, sig, hist}
}

// moRsi is the documented RSI with Wilder (RMA) averages of the gains and
// losses; out[k] refers to input position k+p.
func moRsi(x []float64, p int) []RV {
	if len(x) < 2 {
		return nil
	}
	gain := make([]float64, len(x)-1)
	loss := make([]float64, len(x)-1)
	for i := 1; i < len(x); i++ {
		d := x[i] - x[i-1]
		gain[i-1] = math.Max(d, 0)
		loss[i-1] = math.Max(-d, 0)
	}
	ag, al := RMA(gain, p), RMA(loss, p)
	out := make([]RV, len(ag))
	for k := range ag {
		rs := Quot(ag[k], al[k], 0)
		out[k] = RV{V: 100 - 100/(1+rs.V), Ill: rs.Ill}
	}
	return out
}

// moRange is scale*(num_k)/(HH_m-LL_m) at every position >= m-1, where num_k
// is formed by f from (close, HH, LL).
func moRange(h, l, c []float64, m int, scale float64, f func(c, hh, ll float64) float64) []RV {
	hh, ll := MovMax(h, m), MovMin(l, m)
	out := make([]RV, len(hh))
	for k := range hh {
		q := Quot(f(c[k+m-1], hh[k], ll[k]), hh[k]-ll[k], moAbsMax(hh[k], ll[k]))
		out[k] = RV{V: scale * q.V, Ill: q.Ill}
	}
	return out
}

func moIchimoku(c Cfg, in [][]float64) [][]RV {
	cv, bs, ld, lag := c.I[0], c.I[1], c.I[2], c.I[3]
	h, l, cl := in[0], in[1], in[2]
	w := ld - 1
	conv := Tail(moMid(h, l, cv), ld-cv)
	base := Tail(moMid(h, l, bs), ld-bs)
	spanB := moMid(h, l, ld)
	spanA := Zip2(conv, base, func(a, b float64) float64 { return (a + b) / 2 })
	var lagging []float64
	for i := w; i < len(cl); i++ {
		v := 0.0
		if i-lag >= 0 {
			v = cl[i-lag]
		}
		lagging = append(lagging, v)
	}
	return [][]RV{Vals(conv), Vals(base), Vals(spanA), Vals(spanB), Vals(lagging)}
}

func init() {
	Add(
		&Indicator{
			Name: "momentum.AwesomeOscillator", In: "hl", Out: []string{"ao"}, AnySign: true,
			Note:    "short and long SMA of the median price taken at the same position; Compute's parameter order is (highs, lows) while the comment's example passes (lows, highs): the formula is symmetric",
			Default: P(momentum.DefaultAwesomeOscillatorShortPeriod, momentum.DefaultAwesomeOscillatorLongPeriod),
			Rand:    func(r *gen.Rand) Cfg { s, l := moShortLong(r); return P(s, l) },
			New: func(c Cfg) Inst {
				x := momentum.NewAwesomeOscillator[float64]()
				x.ShortSma.Period, x.LongSma.Period = c.I[0], c.I[1]
				return Inst{Obj: x, Compute: A21(x.Compute), Idle: x.IdlePeriod(), Declared: true}
			},
			// Median = (Low+High)/2; AO = SMA_short(Median) - SMA_long(Median).
			Ref: func(c Cfg, in [][]float64) [][]RV {
				s, l := c.I[0], c.I[1]
				med := Zip2(in[0], in[1], func(h, lo float64) float64 { return (lo + h) / 2 })
				return One(Vals(Zip2(Tail(SMA(med, s), l-s), SMA(med, l), moSub)))
			},
			Deg: []Degree{{1, 0}},
		},
		&Indicator{
			Name: "momentum.ChaikinOscillator", In: "hlcv", Out: []string{"co", "ad"},
			Note:    "A/D per volume.Ad's comment: cumulative sum of MFM*volume from 0, MFM=((c-l)-(h-c))/(h-l); both EMAs (multiplier 2/(p+1), seed SMA) taken at the same position; second output = A/D at the same positions; a bar with high==low makes MFM and everything after it undefined",
			Default: P(momentum.DefaultChaikinOscillatorShortPeriod, momentum.DefaultChaikinOscillatorLongPeriod),
			Rand:    func(r *gen.Rand) Cfg { s, l := moShortLong(r); return P(s, l) },
			New: func(c Cfg) Inst {
				x := momentum.NewChaikinOscillator[float64]()
				x.ShortEma.Period, x.LongEma.Period = c.I[0], c.I[1]
				return Inst{Obj: x, Compute: A42(x.Compute), Idle: x.IdlePeriod(), Declared: true}
			},
			// CO = Ema(fast, AD) - Ema(slow, AD).
			Ref: func(c Cfg, in [][]float64) [][]RV {
				s, l := c.I[0], c.I[1]
				h, lo, cl, v := in[0], in[1], in[2], in[3]
				ad := make([]RV, len(h))
				acc, mag, ill := 0.0, 0.0, false
				for i := range h {
					mfm := Quot((cl[i]-lo[i])-(h[i]-cl[i]), h[i]-lo[i], moAbsMax(h[i], lo[i]))
					acc += mfm.V * v[i]
					ill = ill || mfm.Ill || bad(acc)
					mag = math.Max(mag, math.Abs(acc))
					ad[i] = RV{V: acc, Ill: ill, S: mag}
				}
				es, el := moTail(moEMA(ad, s), l-s), moEMA(ad, l)
				co := make([]RV, len(el))
				for k := range el {
					co[k] = RV{V: es[k].V - el[k].V, Ill: es[k].Ill || el[k].Ill, S: el[k].S}
				}
				return [][]RV{co, moTail(ad, l-1)}
			},
			Deg: []Degree{{0, 1}, {0, 1}},
		},
		&Indicator{
			Name: "momentum.IchimokuCloud", In: "hlc", Out: []string{"conversion", "base", "leadingSpanA", "leadingSpanB", "lagging"}, AnySign: true,
			Note:    "all lines aligned to the leading period's warm-up; lagging span read as the close of LaggingPeriod bars earlier, lagging[i]=close[i-lag], 0 for i<lag (the code's helper.Shift reading of 'plotted 26 days in the past'); cfg = conversion, base, leading, lagging",
			Default: P(momentum.DefaultIchimokuCloudConversionPeriod, momentum.DefaultIchimokuCloudBasePeriod, momentum.DefaultIchimokuCloudLeadingPeriod, momentum.DefaultIchimokuCloudLaggingPeriod),
			Rand: func(r *gen.Rand) Cfg {
				ld := r.Range(1, 12)
				bs := r.Range(1, ld)
				return P(r.Range(1, bs), bs, ld, r.Range(1, 12))
			},
			New: func(c Cfg) Inst {
				x := momentum.NewIchimokuCloud[float64]()
				x.ConversionMax.Period, x.ConversionMin.Period = c.I[0], c.I[0]
				x.BaseMax.Period, x.BaseMin.Period = c.I[1], c.I[1]
				x.LeadingMax.Period, x.LeadingMin.Period = c.I[2], c.I[2]
				x.LaggingPeriod = c.I[3]
				return Inst{Obj: x, Compute: A35(x.Compute), Idle: x.IdlePeriod(), Declared: true}
			},
			Ref: func(c Cfg, in [][]float64) [][]RV { return moIchimoku(c, in) },
			Deg: []Degree{{1, 0}, {1, 0}, {1, 0}, {1, 0}, {1, 0}},
		},
		&Indicator{
			Name: "momentum.Ppo", In: "p", Out: []string{"ppo", "signal", "histogram"},
			Note:    "EMAs with multiplier 2/(p+1), seed SMA; short and long EMA taken at the same position; all outputs aligned to the signal's warm-up",
			Default: P(momentum.DefaultPpoShortPeriod, momentum.DefaultPpoLongPeriod, momentum.DefaultPpoSignalPeriod),
			Rand:    func(r *gen.Rand) Cfg { s, l := moShortLong(r); return P(s, l, r.Range(1, 12)) },
			New: func(c Cfg) Inst {
				x := momentum.NewPpo[float64]()
				x.ShortEma.Period, x.LongEma.Period, x.SignalEma.Period = c.I[0], c.I[1], c.I[2]
				return Inst{Obj: x, Compute: A13(x.Compute), Idle: x.IdlePeriod(), Declared: true}
			},
			// PPO = (EMA_short - EMA_long)/EMA_long*100; Signal = EMA(PPO); Histogram = PPO - Signal.
			Ref: func(c Cfg, in [][]float64) [][]RV { return moPpo(c, in[0]) },
			Deg: []Degree{{0, 0}, {0, 0}, {0, 0}},
		},
		&Indicator{
			Name: "momentum.Pvo", In: "v", Out: []string{"pvo", "signal", "histogram"},
			Note:    "same formula as Ppo applied to volumes (the comment says prices); a zero long EMA (all volumes zero so far) makes PVO undefined and the signal/histogram after it",
			Default: P(momentum.DefaultPvoShortPeriod, momentum.DefaultPvoLongPeriod, momentum.DefaultPvoSignalPeriod),
			Rand:    func(r *gen.Rand) Cfg { s, l := moShortLong(r); return P(s, l, r.Range(1, 12)) },
			New: func(c Cfg) Inst {
				x := momentum.NewPvo[float64]()
				x.ShortEma.Period, x.LongEma.Period, x.SignalEma.Period = c.I[0], c.I[1], c.I[2]
				return Inst{Obj: x, Compute: A13(x.Compute), Idle: x.IdlePeriod(), Declared: true}
			},
			Ref: func(c Cfg, in [][]float64) [][]RV { return moPpo(c, in[0]) },
			Deg: []Degree{{0, 0}, {0, 0}, {0, 0}},
		},
		&Indicator{
			Name: "momentum.Qstick", In: "oc", Out: []string{"qstick"}, AnySign: true,
			Default: P(momentum.DefaultQstickPeriod),
			Rand:    func(r *gen.Rand) Cfg { return P(r.Range(1, 12)) },
			New: func(c Cfg) Inst {
				x := momentum.NewQstick[float64]()
				x.Sma.Period = c.I[0]
				return Inst{Obj: x, Compute: A21(x.Compute), Idle: x.IdlePeriod(), Declared: true}
			},
			// QS = SMA(Closings - Openings).
			Ref: func(c Cfg, in [][]float64) [][]RV {
				return One(Vals(SMA(Zip2(in[1], in[0], moSub), c.I[0])))
			},
			Deg: []Degree{{1, 0}},
		},
		&Indicator{
			Name: "momentum.Rsi", In: "p", Out: []string{"rsi"},
			Note:    "the comment says only 'Average Gain / Average Loss': averages read from the code as Wilder's RMA_P (seed SMA_P) of gain=max(delta,0) and loss=max(-delta,0), delta = one-bar change; average loss == 0 divides by zero (exempt; the code returns 100 there, NaN when the average gain is 0 too)",
			Default: P(momentum.DefaultRsiPeriod),
			Rand:    func(r *gen.Rand) Cfg { return P(r.Range(1, 12)) },
			New: func(c Cfg) Inst {
				x := momentum.NewRsiWithPeriod[float64](c.I[0])
				return Inst{Obj: x, Compute: A11(x.Compute), Idle: x.IdlePeriod(), Declared: true}
			},
			// RS = Average Gain / Average Loss; RSI = 100 - 100/(1+RS).
			Ref: func(c Cfg, in [][]float64) [][]RV { return One(moRsi(in[0], c.I[0])) },
			Deg: []Degree{{0, 0}},
		},
		&Indicator{
			Name: "momentum.StochasticOscillator", In: "hlc", Out: []string{"k", "d"},
			Note:    "cfg = max/min period m, SMA period P; K over the last m bars, D = SMA_P(K), both aligned to D's warm-up; HH==LL makes K undefined and every D whose window contains it",
			Default: P(momentum.DefaultStochasticOscillatorMaxAndMinPeriod, momentum.DefaultStochasticOscillatorPeriod),
			Rand:    func(r *gen.Rand) Cfg { return P(r.Range(1, 12), r.Range(1, 12)) },
			New: func(c Cfg) Inst {
				x := momentum.NewStochasticOscillator[float64]()
				x.Max.Period, x.Min.Period, x.Sma.Period = c.I[0], c.I[0], c.I[1]
				return Inst{Obj: x, Compute: A32(x.Compute), Idle: x.IdlePeriod(), Declared: true}
			},
			// K = (Closing - LL)/(HH - LL)*100; D = SMA_P(K).
			Ref: func(c Cfg, in [][]float64) [][]RV {
				m, p := c.I[0], c.I[1]
				k := moRange(in[0], in[1], in[2], m, 100, func(c, hh, ll float64) float64 { return c - ll })
				return [][]RV{moTail(k, p-1), moWin(k, p, moMean)}
			},
			Deg: []Degree{{0, 0}, {0, 0}},
		},
		&Indicator{
			Name: "momentum.StochasticRsi", In: "p", Out: []string{"stochRsi"},
			Note:    "Min/Max over the last P RSI values (same P as the RSI, per the constructor); period 1 excluded: Max(RSI)-Min(RSI) over one value is always 0; RSI read as in momentum.Rsi",
			Default: P(momentum.DefaultStochasticRsiPeriod),
			Rand:    func(r *gen.Rand) Cfg { return P(r.Range(2, 12)) },
			New: func(c Cfg) Inst {
				x := momentum.NewStochasticRsiWithPeriod[float64](c.I[0])
				return Inst{Obj: x, Compute: A11(x.Compute), Idle: x.IdlePeriod(), Declared: true}
			},
			// (RSI - Min(RSI)) / (Max(RSI) - Min(RSI)).
			Ref: func(c Cfg, in [][]float64) [][]RV {
				p := c.I[0]
				rsi := moRsi(in[0], p)
				mn, mx := moWin(rsi, p, MinOf), moWin(rsi, p, MaxOf)
				out := make([]RV, len(mn))
				for k := range mn {
					q := Quot(rsi[k+p-1].V-mn[k].V, mx[k].V-mn[k].V, moAbsMax(mx[k].V, mn[k].V))
					q.Ill = q.Ill || mn[k].Ill
					out[k] = q
				}
				return One(out)
			},
			Deg: []Degree{{0, 0}},
		},
		&Indicator{
			Name: "momentum.WilliamsR", In: "hlc", Out: []string{"wr"},
			Default: P(momentum.DefaultWilliamsRPeriod),
			Rand:    func(r *gen.Rand) Cfg { return P(r.Range(1, 12)) },
			New: func(c Cfg) Inst {
				x := momentum.NewWilliamsR[float64]()
				x.Max.Period, x.Min.Period = c.I[0], c.I[0]
				return Inst{Obj: x, Compute: A31(x.Compute), Idle: x.IdlePeriod(), Declared: true}
			},
			// WR = (HH - Closing)/(HH - LL) * -100.
			Ref: func(c Cfg, in [][]float64) [][]RV {
				return One(moRange(in[0], in[1], in[2], c.I[0], -100, func(c, hh, ll float64) float64 { return hh - c }))
			},
			Deg: []Degree{{0, 0}},
		},
	)
}
