// Package reg is the table of the library's indicators (and, in strat.go, its
// strategies): how to build each from a generic configuration, what it
// declares as warm-up, and the slice-based reference written from its doc
// comment. The monitors iterate over these tables.
package reg

import (
	"reflect"
	"math"
	"sort"

	"verif/harness/internal/gen"
)

// RV is one reference value. Ill marks a position where the documented
// formula is undefined or numerically ill-conditioned (zero or cancelling
// denominator, non-finite operand): such positions are exempt from
// comparison. S, when > 0, is an additional absolute scale for the tolerance
// (the magnitude of terms that cancel inside the formula, e.g. the sums in a
// regression slope).
type RV struct {
	V   float64
	Ill bool
	S   float64
}

// Cfg is a generic indicator/strategy configuration: integer parameters
// (periods), float parameters (multipliers, percentages, thresholds) and a
// variant selector.
type Cfg struct {
	I []int     `json:"i,omitempty"`
	F []float64 `json:"f,omitempty"`
	S string    `json:"s,omitempty"`
	// Via: reach the configuration the other way - construct the DEFAULT
	// instance and assign its exported fields (anything an implementation
	// remembered at construction time is then stale).
	Via bool `json:"via_public_fields,omitempty"`
	// Used: the instance has already served another (short) series when it is
	// handed out (anything an implementation keeps from an earlier use is then
	// in the way).
	Used bool `json:"after_a_first_use,omitempty"`
}

// Inst is a live indicator instance.
type Inst struct {
	Obj     any // the library value (pointer): fingerprinted by C09
	Compute func(in []<-chan float64) []<-chan float64
	// Idle is the warm-up w: the instance's own IdlePeriod() when the type
	// has one (Declared), otherwise the warm-up its formula implies.
	Idle     int
	Declared bool
}

// Degree is the homogeneity degree of an output in price and in volume.
type Degree struct{ P, V int }

// Dev is a deviation model: the documented reference with exactly one
// documented switch flipped, reproducing a defect of the as-built code. It is
// how a known finding is recognised precisely (anything that matches neither
// the documented reference nor a listed deviation is a fresh violation).
type Dev struct {
	Key  string
	What string
	Ref  func(c Cfg, in [][]float64) [][]RV
}

// Indicator is one row of the registry.
type Indicator struct {
	Name string // e.g. "trend.Apo"
	// In has one byte per input stream: o h l c v = the OHLCV field the
	// stream carries; p = a generic price-like numeric series (single-input
	// indicators; the close column, or small signed integers for AnySign
	// rows); t = a time index 1,2,3.. (regression x; never rescaled).
	In       string
	Out      []string // output names
	Default  Cfg
	Rand     func(r *gen.Rand) Cfg // random admissible configuration, periods in [1,12]
	New      func(c Cfg) Inst
	Ref      func(c Cfg, in [][]float64) [][]RV // out[j][k] refers to input position k+w; len == max(0,n-w)
	Deg      []Degree                           // per output
	Devs     []Dev
	AnySign  bool   // formula is defined for zero and negative inputs (purely additive / ordering)
	Note     string // reading notes (where the comment is loose and the reference follows code/convention)
	RegGuard bool   // reference follows the code because the comment gives no formula: guards regressions only
}

// Indicators is filled by the init functions of the per-package files.
var Indicators []*Indicator

// Add registers rows.
func Add(rows ...*Indicator) {
	for _, ind := range rows {
		ind := ind
		direct := ind.New
		build := func(c Cfg) Inst {
			if !c.Via {
				return direct(c)
			}
			c.Via = false
			used := c.Used
			c.Used = false
			d, src := direct(ind.Default), direct(c)
			if used {
				// first a series through the DEFAULT configuration, then the re-tuning
				firstUse(d, len(ind.In))
			}
			if !assignExported(d.Obj, src.Obj) {
				return src
			}
			d.Idle = src.Idle
			if m := reflect.ValueOf(d.Obj).MethodByName("IdlePeriod"); m.IsValid() && m.Type().NumIn() == 0 && m.Type().NumOut() == 1 && m.Type().Out(0).Kind() == reflect.Int {
				d.Idle = int(m.Call(nil)[0].Int())
			}
			return d
		}
		ind.New = func(c Cfg) Inst {
			if c.Via {
				return build(c) // (a first use, if asked for, happens before the re-tuning)
			}
			used := c.Used
			c.Used = false
			inst := build(c)
			if used {
				firstUse(inst, len(ind.In))
			}
			return inst
		}
	}
	Indicators = append(Indicators, rows...)
}

// firstUse runs a short, unrelated series through the instance and drains
// every output.
func firstUse(inst Inst, nIn int) {
	n := 2*inst.Idle + 5
	ins := make([]<-chan float64, nIn)
	for k := range ins {
		c := make(chan float64)
		ins[k] = c
		go func(k int) {
			defer close(c)
			for i := 0; i < n; i++ {
				c <- 900 + float64((i*7+k*3)%11) + float64(k) // far from the prices the checks use
			}
		}(k)
	}
	outs := inst.Compute(ins)
	done := make(chan struct{}, len(outs))
	for _, o := range outs {
		go func(o <-chan float64) {
			for range o {
			}
			done <- struct{}{}
		}(o)
	}
	for range outs {
		<-done
	}
}

// assignExported assigns every exported field of *src to *dst (same pointer
// to struct type); false when the shapes do not allow it.
func assignExported(dst, src any) bool {
	d, s := reflect.ValueOf(dst), reflect.ValueOf(src)
	if d.Kind() != reflect.Ptr || s.Kind() != reflect.Ptr || d.Type() != s.Type() || d.Elem().Kind() != reflect.Struct {
		return false
	}
	d, s = d.Elem(), s.Elem()
	n := 0
	for i := 0; i < d.NumField(); i++ {
		if d.Type().Field(i).IsExported() {
			d.Field(i).Set(s.Field(i))
			n++
		}
	}
	return n > 0
}

// ByName finds a row.
func ByName(name string) *Indicator {
	for _, r := range Indicators {
		if r.Name == name {
			return r
		}
	}
	return nil
}

// Sorted returns the rows by name.
func Sorted() []*Indicator {
	out := append([]*Indicator(nil), Indicators...)
	sort.Slice(out, func(i, j int) bool { return out[i].Name < out[j].Name })
	return out
}

// ---- helpers for writing references ----

// Vals wraps plain values.
func Vals(xs []float64) []RV {
	out := make([]RV, len(xs))
	for i, x := range xs {
		out[i] = RV{V: x, Ill: bad(x)}
	}
	return out
}

func bad(x float64) bool { return math.IsNaN(x) || math.IsInf(x, 0) }

// Quot returns num/den, marked ill-conditioned when the divisor is zero,
// non-finite, or a difference that has cancelled: |den| <= 1e-6 * denScale,
// where denScale is the magnitude of the terms den was formed from (pass
// |den| itself, or 0, when den is not a difference).
func Quot(num, den, denScale float64) RV {
	v := num / den
	ill := den == 0 || bad(den) || bad(num) || bad(v)
	if denScale > 0 && math.Abs(den) <= 1e-6*denScale {
		ill = true
	}
	return RV{V: v, Ill: ill}
}

// Resid returns the extra tolerance scale (for RV.S) of an output that is
// formed from a difference of running-sum averages: a running sum over terms
// of magnitude up to pmax may legitimately carry an absolute rounding residue
// of about 1e-13*pmax (hundreds of additions at 2^-53 each), which the output
// amplifies by ampl = |d out / d sum|. With the 1e-9 relative tolerance this
// admits an absolute error of 1e-13*pmax*ampl.
func Resid(pmax, ampl float64) float64 {
	v := 1e-4 * pmax * ampl
	if math.IsNaN(v) || math.IsInf(v, 0) {
		return 0
	}
	return v
}

// RatioResid is the extra tolerance scale of a quotient num/den of two running
// sums whose terms so far reached |numTerm| <= pmaxNum and |denTerm| <=
// pmaxDen: d(num/den) = (dnum + (num/den)*dden)/den.
func RatioResid(pmaxNum, pmaxDen, num, den float64) float64 {
	if den == 0 {
		return 0
	}
	return Resid(pmaxNum, 1/math.Abs(den)) + Resid(pmaxDen, math.Abs(num/den)/math.Abs(den))
}

// PrefixAbsMax returns m[i] = max_{j<=i} |xs[j]| over the finite entries.
func PrefixAbsMax(xs []float64) []float64 {
	out := make([]float64, len(xs))
	m := 0.0
	for i, x := range xs {
		if a := math.Abs(x); !math.IsNaN(a) && !math.IsInf(a, 0) && a > m {
			m = a
		}
		out[i] = m
	}
	return out
}

// Window returns xs[i-p+1 .. i] (inclusive); the caller guarantees i >= p-1.
func Window(xs []float64, i, p int) []float64 { return xs[i-p+1 : i+1] }

// Sum of a slice.
func Sum(xs []float64) float64 {
	s := 0.0
	for _, x := range xs {
		s += x
	}
	return s
}

// MaxOf / MinOf of a non-empty slice.
func MaxOf(xs []float64) float64 {
	m := xs[0]
	for _, x := range xs[1:] {
		if x > m {
			m = x
		}
	}
	return m
}

// MinOf of a non-empty slice.
func MinOf(xs []float64) float64 {
	m := xs[0]
	for _, x := range xs[1:] {
		if x < m {
			m = x
		}
	}
	return m
}

// SMA returns the simple moving average evaluated directly on each window:
// out[k] = mean(xs[k .. k+p-1]), len = max(0, n-p+1).
func SMA(xs []float64, p int) []float64 {
	if len(xs) < p {
		return nil
	}
	out := make([]float64, len(xs)-p+1)
	for k := range out {
		out[k] = Sum(xs[k:k+p]) / float64(p)
	}
	return out
}

// EMA returns the exponential moving average with the documented seed (SMA of
// the first p values) and recursion e += (x-e)*smoothing/(p+1); len =
// max(0, n-p+1).
func EMA(xs []float64, p int, smoothing float64) []float64 {
	if len(xs) < p {
		return nil
	}
	out := make([]float64, len(xs)-p+1)
	e := Sum(xs[:p]) / float64(p)
	out[0] = e
	m := smoothing / float64(p+1)
	for i := p; i < len(xs); i++ {
		e = (xs[i]-e)*m + e
		out[i-p+1] = e
	}
	return out
}

// RMA returns Wilder's rolling moving average: seed SMA_p, then
// R = (R*(p-1)+x)/p.
func RMA(xs []float64, p int) []float64 {
	if len(xs) < p {
		return nil
	}
	out := make([]float64, len(xs)-p+1)
	e := Sum(xs[:p]) / float64(p)
	out[0] = e
	for i := p; i < len(xs); i++ {
		e = (e*float64(p-1) + xs[i]) / float64(p)
		out[i-p+1] = e
	}
	return out
}

// MovMax / MovMin / MovSum evaluated directly on each window.
func MovMax(xs []float64, p int) []float64 {
	if len(xs) < p {
		return nil
	}
	out := make([]float64, len(xs)-p+1)
	for k := range out {
		out[k] = MaxOf(xs[k : k+p])
	}
	return out
}

// MovMin evaluated directly on each window.
func MovMin(xs []float64, p int) []float64 {
	if len(xs) < p {
		return nil
	}
	out := make([]float64, len(xs)-p+1)
	for k := range out {
		out[k] = MinOf(xs[k : k+p])
	}
	return out
}

// MovSum evaluated directly on each window.
func MovSum(xs []float64, p int) []float64 {
	if len(xs) < p {
		return nil
	}
	out := make([]float64, len(xs)-p+1)
	for k := range out {
		out[k] = Sum(xs[k : k+p])
	}
	return out
}

// Tail drops the first k entries (nil if fewer).
func Tail(xs []float64, k int) []float64 {
	if k >= len(xs) {
		return nil
	}
	if k < 0 {
		k = 0
	}
	return xs[k:]
}

// Zip2 applies f position-wise over the common length.
func Zip2(a, b []float64, f func(x, y float64) float64) []float64 {
	n := len(a)
	if len(b) < n {
		n = len(b)
	}
	out := make([]float64, n)
	for i := 0; i < n; i++ {
		out[i] = f(a[i], b[i])
	}
	return out
}

// One wraps a single output.
func One(v []RV) [][]RV { return [][]RV{v} }

// P builds a Cfg from ints.
func P(i ...int) Cfg { return Cfg{I: i} }
