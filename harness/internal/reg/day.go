package reg

import "time"

// Day returns the i-th whole UTC day from 2020-01-01.
func Day(i int) time.Time {
	return time.Date(2020, 1, 1, 0, 0, 0, 0, time.UTC).AddDate(0, 0, i)
}
