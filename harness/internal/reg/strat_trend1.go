package reg

import (
	"github.com/cinar/indicator/v2/asset"
	"github.com/cinar/indicator/v2/momentum"
	"github.com/cinar/indicator/v2/strategy"
	st "github.com/cinar/indicator/v2/strategy/trend"
	"github.com/cinar/indicator/v2/trend"

	"verif/harness/internal/gen"
)

// Strategy rows of strategy/trend, first half: Aroon, Bop, Cci, Dema,
// Envelope, GoldenCross, Kama, Kdj, Macd, Qstick.

func init() {
	AddStrat(
		&Strat{
			Name: "trend.AroonStrategy", InRegistry: true,
			Note:    "Aroon has no IdlePeriod method: w = Period-1 implied by the P-bar window (the strategy's own comment: 'Aroon starts only after a full period'); an exact tie up == down is a Hold (not exempt)",
			Default: P(trend.DefaultAroonPeriod),
			Rand:    func(r *gen.Rand) Cfg { return P(r.Range(1, 12)) },
			New: func(c Cfg) strategy.Strategy {
				x := st.NewAroonStrategy()
				x.Aroon.Period = c.I[0]
				return x
			},
			Warm: func(s strategy.Strategy) int { return s.(*st.AroonStrategy).Aroon.Period - 1 },
			// When Aroon Up exceeds Aroon Down: bullish (Buy); when Aroon Down
			// surpasses Aroon Up: bearish (Sell).
			Rule: func(s strategy.Strategy, snaps []*asset.Snapshot) []RuleVal {
				x := s.(*st.AroonStrategy)
				w := x.Aroon.Period - 1
				up, down := x.Aroon.Compute(Ch(Col(snaps, 'h')), Ch(Col(snaps, 'l')))
				v := Collect(up, down)
				out := Holds(len(snaps))
				for i := w; i < len(snaps); i++ {
					u, ok1 := At(v[0], i, w)
					d, ok2 := At(v[1], i, w)
					if !ok1 || !ok2 {
						continue
					}
					if u == d { // both lines are rounded to integers: an exact tie is a documented Hold
						continue
					}
					out[i] = s1Cmp(u, d, 100)
				}
				return out
			},
		},
		&Strat{
			Name: "trend.BopStrategy", InRegistry: true,
			Note:    "no configuration; Bop has no IdlePeriod method: w = 0 (pointwise); positions with high == low (non-finite BOP) are exempt",
			Default: Cfg{},
			Rand:    func(r *gen.Rand) Cfg { return Cfg{} },
			New:     func(c Cfg) strategy.Strategy { return st.NewBopStrategy() },
			Warm:    func(s strategy.Strategy) int { return 0 },
			// A positive BoP suggests an upward trend (Buy), a negative one a
			// downward trend (Sell), zero = equilibrium (Hold).
			Rule: func(s strategy.Strategy, snaps []*asset.Snapshot) []RuleVal {
				x := s.(*st.BopStrategy)
				bop := Collect(x.Bop.Compute(Ch(Col(snaps, 'o')), Ch(Col(snaps, 'h')), Ch(Col(snaps, 'l')), Ch(Col(snaps, 'c'))))[0]
				out := Holds(len(snaps))
				for i := range out {
					b, ok := At(bop, i, 0)
					if !ok {
						continue
					}
					out[i] = s1Cmp(b, 0, 1)
				}
				return out
			},
		},
		&Strat{
			Name: "trend.CciStrategy", InRegistry: true,
			Note:    "'crossing above the 100+ / below the 100-' read as a level test (CCI >= 100 Buy, CCI <= -100 Sell), not as a cross-over of two consecutive values; the levels are not configurable; Period 1 avoided (mean deviation 0 everywhere: every CCI is 0/0)",
			Default: P(trend.DefaultCciPeriod),
			Rand:    func(r *gen.Rand) Cfg { return P(r.Range(2, 12)) },
			New: func(c Cfg) strategy.Strategy {
				x := st.NewCciStrategy()
				x.Cci.Period = c.I[0]
				return x
			},
			Warm: func(s strategy.Strategy) int { return s.(*st.CciStrategy).Cci.IdlePeriod() },
			// CCI(high, low, close) >= 100: Buy; <= -100: Sell.
			Rule: func(s strategy.Strategy, snaps []*asset.Snapshot) []RuleVal {
				return s1CciRule(s, snaps, 'h', 'l', 'c')
			},
			Devs: []StratDev{{
				Key:  "cci-strategy-high-for-all-fields",
				What: "the CCI is fed the High column for all three inputs (high, low and close), so the typical price is the high",
				Rule: func(s strategy.Strategy, snaps []*asset.Snapshot) []RuleVal {
					return s1CciRule(s, snaps, 'h', 'h', 'h')
				},
			}},
		},
		&Strat{
			Name: "trend.DemaStrategy", InRegistry: true,
			Note:    "configuration = Dema1 (Ema1,Ema2 periods), Dema2 (Ema1,Ema2 periods); Dema1 is the documented short one: random configurations keep IdlePeriod(Dema1) <= IdlePeriod(Dema2) (the strategy skips/shifts by Dema2's idle period only); the DEMA values are those of the strategy's own Dema instances (inherits trend.Dema's alignment)",
			Default: P(st.DefaultDemaStrategyPeriod1, st.DefaultDemaStrategyPeriod1, st.DefaultDemaStrategyPeriod2, st.DefaultDemaStrategyPeriod2),
			Rand: func(r *gen.Rand) Cfg {
				a, b, c, d := r.Range(1, 12), r.Range(1, 12), r.Range(1, 12), r.Range(1, 12)
				if a+b > c+d {
					a, b, c, d = c, d, a, b
				}
				return P(a, b, c, d)
			},
			New: func(c Cfg) strategy.Strategy {
				x := st.NewDemaStrategy()
				x.Dema1.Ema1.Period, x.Dema1.Ema2.Period = c.I[0], c.I[1]
				x.Dema2.Ema1.Period, x.Dema2.Ema2.Period = c.I[2], c.I[3]
				return x
			},
			Warm: func(s strategy.Strategy) int {
				x := s.(*st.DemaStrategy)
				return max(x.Dema1.IdlePeriod(), x.Dema2.IdlePeriod())
			},
			// Bullish (Buy) when the short DEMA is above the long DEMA,
			// bearish (Sell) when the long DEMA is above the short one.
			Rule: func(s strategy.Strategy, snaps []*asset.Snapshot) []RuleVal {
				x := s.(*st.DemaStrategy)
				c := Col(snaps, 'c')
				d1 := Collect(x.Dema1.Compute(Ch(c)))[0]
				d2 := Collect(x.Dema2.Compute(Ch(c)))[0]
				return s1TwoLines(snaps, d1, x.Dema1.IdlePeriod(), d2, x.Dema2.IdlePeriod())
			},
		},
		&Strat{
			Name: "trend.EnvelopeStrategy", InRegistry: false,
			Note:    "S = sma|ema moving average, I[0] = period, F[0] = percentage (random: 0.3..4 % so that both bands are crossed on a 3 %-per-bar walk; the default 20 % practically never fires; period 1 makes the middle line the close itself, never fires, and is not drawn)",
			Default: Cfg{I: []int{trend.DefaultEnvelopePeriod}, F: []float64{trend.DefaultEnvelopePercentage}, S: "sma"},
			Rand: func(r *gen.Rand) Cfg {
				s := "sma"
				if r.Bool() {
					s = "ema"
				}
				return Cfg{I: []int{r.Range(2, 12)}, F: []float64{r.FRange(0.3, 4)}, S: s}
			},
			New: func(c Cfg) strategy.Strategy {
				var ma trend.Ma[float64]
				if c.S == "ema" {
					ma = trend.NewEmaWithPeriod[float64](c.I[0])
				} else {
					ma = trend.NewSmaWithPeriod[float64](c.I[0])
				}
				return st.NewEnvelopeStrategyWith(trend.NewEnvelope[float64](ma, c.F[0]))
			},
			Warm: func(s strategy.Strategy) int { return s.(*st.EnvelopeStrategy).Envelope.IdlePeriod() },
			// Closing above the upper band: Sell; closing below the lower band: Buy.
			Rule: func(s strategy.Strategy, snaps []*asset.Snapshot) []RuleVal {
				x := s.(*st.EnvelopeStrategy)
				w := x.Envelope.IdlePeriod()
				c := Col(snaps, 'c')
				up, mid, lo := x.Envelope.Compute(Ch(c))
				v := Collect(up, mid, lo)
				out := Holds(len(snaps))
				for i := w; i < len(snaps); i++ {
					u, ok1 := At(v[0], i, w)
					l, ok2 := At(v[2], i, w)
					if !ok1 || !ok2 {
						continue
					}
					if Near(c[i], u, c[i]) || Near(c[i], l, c[i]) {
						out[i].Exempt = true
						continue
					}
					switch {
					case c[i] < l:
						out[i].A = strategy.Buy
					case c[i] > u:
						out[i].A = strategy.Sell
					}
				}
				return out
			},
		},
		&Strat{
			Name: "trend.GoldenCrossStrategy", InRegistry: true,
			Note:    "'crosses above/below' read as a level test (fast EMA > slow EMA Buy, < Sell); fast <= slow required (the strategy skips slow.Idle-fast.Idle values of the fast EMA)",
			Default: P(st.DefaultGoldenCrossStrategyFastPeriod, st.DefaultGoldenCrossStrategySlowPeriod),
			Rand: func(r *gen.Rand) Cfg {
				slow := r.Range(2, 12)
				return P(r.Range(1, slow-1), slow) // fast == slow is admissible but makes both lines identical
			},
			New: func(c Cfg) strategy.Strategy { return st.NewGoldenCrossStrategyWith(c.I[0], c.I[1]) },
			Warm: func(s strategy.Strategy) int {
				x := s.(*st.GoldenCrossStrategy)
				return max(x.FastEma.IdlePeriod(), x.SlowEma.IdlePeriod())
			},
			Rule: func(s strategy.Strategy, snaps []*asset.Snapshot) []RuleVal {
				x := s.(*st.GoldenCrossStrategy)
				c := Col(snaps, 'c')
				f := Collect(x.FastEma.Compute(Ch(c)))[0]
				sl := Collect(x.SlowEma.Compute(Ch(c)))[0]
				return s1TwoLines(snaps, f, x.FastEma.IdlePeriod(), sl, x.SlowEma.IdlePeriod())
			},
		},
		&Strat{
			Name: "trend.KamaStrategy", InRegistry: true,
			Note:    "'closing crossing above/below the KAMA' read as a level test (close > KAMA Buy, close < KAMA Sell); random configurations keep fast SC period < slow SC period (KAMA's definition; fast = slow = 1 makes KAMA = close, all exempt); a 0/0 efficiency ratio (no price change over the ER window) makes KAMA NaN from then on: exempt",
			Default: P(trend.DefaultKamaErPeriod, trend.DefaultKamaFastScPeriod, trend.DefaultKamaSlowScPeriod),
			Rand: func(r *gen.Rand) Cfg {
				slow := r.Range(2, 12)
				er, fast := r.Range(1, 12), r.Range(1, slow-1)
				if er == 1 && fast == 1 { // ER identically 1 and fast SC 1: KAMA = close, every position exempt
					er = 2
				}
				return P(er, fast, slow)
			},
			New:  func(c Cfg) strategy.Strategy { return st.NewKamaStrategyWith(c.I[0], c.I[1], c.I[2]) },
			Warm: func(s strategy.Strategy) int { return s.(*st.KamaStrategy).Kama.IdlePeriod() },
			Rule: func(s strategy.Strategy, snaps []*asset.Snapshot) []RuleVal {
				x := s.(*st.KamaStrategy)
				w := x.Kama.IdlePeriod()
				c := Col(snaps, 'c')
				kama := Collect(x.Kama.Compute(Ch(c)))[0]
				out := Holds(len(snaps))
				for i := w; i < len(snaps); i++ {
					k, ok := At(kama, i, w)
					if !ok {
						continue
					}
					out[i] = s1Cmp(c[i], k, c[i])
				}
				return out
			},
		},
		&Strat{
			Name: "trend.KdjStrategy", InRegistry: true,
			Note:    "configuration = min/max period (MovingMax and MovingMin alike), Sma1 (K) period, Sma2 (D) period; 'J crosses above/below both K and D' read as a level test; since J = 3K-2D both differences have the sign of K-D; Sma2 period 1 gives D = K = J up to rounding (all exempt; the as-built strategy then acts on rounding noise) and is not drawn",
			Default: P(trend.DefaultKdjMinMaxPeriod, trend.DefaultKdjSma1Period, trend.DefaultKdjSma2Period),
			Rand:    func(r *gen.Rand) Cfg { return P(r.Range(1, 12), r.Range(1, 12), r.Range(2, 12)) },
			New: func(c Cfg) strategy.Strategy {
				x := st.NewKdjStrategy()
				x.Kdj.MovingMax.Period, x.Kdj.MovingMin.Period = c.I[0], c.I[0]
				x.Kdj.Sma1.Period, x.Kdj.Sma2.Period = c.I[1], c.I[2]
				return x
			},
			Warm: func(s strategy.Strategy) int { return s.(*st.KdjStrategy).Kdj.IdlePeriod() },
			// Buy when J is above both K and D; Sell when J is below both.
			Rule: func(s strategy.Strategy, snaps []*asset.Snapshot) []RuleVal {
				x := s.(*st.KdjStrategy)
				w := x.Kdj.IdlePeriod()
				k, d, j := x.Kdj.Compute(Ch(Col(snaps, 'h')), Ch(Col(snaps, 'l')), Ch(Col(snaps, 'c')))
				v := Collect(k, d, j)
				out := Holds(len(snaps))
				for i := w; i < len(snaps); i++ {
					kv, ok1 := At(v[0], i, w)
					dv, ok2 := At(v[1], i, w)
					jv, ok3 := At(v[2], i, w)
					if !ok1 || !ok2 || !ok3 {
						continue
					}
					if Near(jv, kv, 100) || Near(jv, dv, 100) {
						out[i].Exempt = true
						continue
					}
					switch {
					case jv > kv && jv > dv:
						out[i].A = strategy.Buy
					case jv < kv && jv < dv:
						out[i].A = strategy.Sell
					}
				}
				return out
			},
		},
		&Strat{
			Name: "trend.MacdStrategy", InRegistry: true,
			Note:    "the comment states only 'MACD crossing above the signal line: bullish; crossing below: bearish' (read as a level test, like the other trend strategies): Rule = macd > signal Buy, macd < signal Sell; period1 <= period2 required (Macd skips period2-period1 values of the first EMA)",
			Default: P(trend.DefaultMacdPeriod1, trend.DefaultMacdPeriod2, trend.DefaultMacdPeriod3),
			Rand: func(r *gen.Rand) Cfg {
				p2 := r.Range(2, 12)
				return P(r.Range(1, p2-1), p2, r.Range(2, 12)) // period1 == period2 makes macd identically 0, period3 == 1 makes signal == macd: admissible but every position exempt
			},
			New:  func(c Cfg) strategy.Strategy { return st.NewMacdStrategyWith(c.I[0], c.I[1], c.I[2]) },
			Warm: func(s strategy.Strategy) int { return s.(*st.MacdStrategy).Macd.IdlePeriod() },
			Rule: func(s strategy.Strategy, snaps []*asset.Snapshot) []RuleVal {
				return s1MacdRule(s, snaps, false)
			},
			Devs: []StratDev{{
				Key:  "macd-strategy-zero-side-filter",
				What: "Buy additionally requires macd < 0 and Sell additionally requires macd > 0 (an undocumented zero-line filter): macd above its signal line but positive, or below it but negative, yields Hold",
				Rule: func(s strategy.Strategy, snaps []*asset.Snapshot) []RuleVal {
					return s1MacdRule(s, snaps, true)
				},
			}},
		},
		&Strat{
			Name: "trend.QstickStrategy", InRegistry: true,
			Note:    "the type comment is a level statement ('Qstick above zero: buying pressure, below zero: selling pressure'); Compute attaches it to a zero cross-over like APO; conventional reading taken: Buy when Qstick crosses zero upward (prev < 0 <= cur), Sell when downward (prev > 0 >= cur), hence w_s = IdlePeriod+1",
			Default: P(momentum.DefaultQstickPeriod),
			Rand:    func(r *gen.Rand) Cfg { return P(r.Range(1, 12)) },
			New: func(c Cfg) strategy.Strategy {
				x := st.NewQstickStrategy()
				x.Qstick.Sma.Period = c.I[0]
				return x
			},
			Warm: func(s strategy.Strategy) int { return s.(*st.QstickStrategy).Qstick.IdlePeriod() + 1 },
			Rule: func(s strategy.Strategy, snaps []*asset.Snapshot) []RuleVal {
				x := s.(*st.QstickStrategy)
				w := x.Qstick.IdlePeriod()
				q := Collect(x.Qstick.Compute(Ch(Col(snaps, 'o')), Ch(Col(snaps, 'c'))))[0]
				out := Holds(len(snaps))
				for i := range out {
					cur, ok1 := At(q, i, w)
					prev, ok0 := At(q, i-1, w)
					if !ok0 || !ok1 {
						continue
					}
					scale := snaps[i].Close
					if Near(cur, 0, scale) || Near(prev, 0, scale) {
						out[i].Exempt = true
						continue
					}
					switch {
					case prev < 0 && cur >= 0:
						out[i].A = strategy.Buy
					case prev > 0 && cur <= 0:
						out[i].A = strategy.Sell
					}
				}
				return out
			},
		},
	)
}

// s1Cmp: Buy when a > b, Sell when a < b, exempt when equal within rounding
// or non-finite.
func s1Cmp(a, b, scale float64) RuleVal {
	if Near(a, b, scale) {
		return RuleVal{Exempt: true}
	}
	switch {
	case a > b:
		return RuleVal{A: strategy.Buy}
	case a < b:
		return RuleVal{A: strategy.Sell}
	}
	return RuleVal{} // unordered (NaN): neither test holds
}

// s1TwoLines: Buy when line a is above line b, Sell when below; each line
// aligned by its own warm-up; Hold until both exist.
func s1TwoLines(snaps []*asset.Snapshot, a []float64, wa int, b []float64, wb int) []RuleVal {
	out := Holds(len(snaps))
	for i := max(wa, wb); i < len(snaps); i++ {
		x, ok1 := At(a, i, wa)
		y, ok2 := At(b, i, wb)
		if !ok1 || !ok2 {
			continue
		}
		out[i] = s1Cmp(x, y, snaps[i].Close)
	}
	return out
}

// s1CciRule applies CCI >= 100 Buy / <= -100 Sell to the CCI of the given
// three snapshot columns.
func s1CciRule(s strategy.Strategy, snaps []*asset.Snapshot, f1, f2, f3 byte) []RuleVal {
	x := s.(*st.CciStrategy)
	w := x.Cci.IdlePeriod()
	cci := Collect(x.Cci.Compute(Ch(Col(snaps, f1)), Ch(Col(snaps, f2)), Ch(Col(snaps, f3))))[0]
	out := Holds(len(snaps))
	for i := w; i < len(snaps); i++ {
		v, ok := At(cci, i, w)
		if !ok {
			continue
		}
		if Near(v, 100, 100) || Near(v, -100, 100) {
			out[i].Exempt = true
			continue
		}
		switch {
		case v >= 100:
			out[i].A = strategy.Buy
		case v <= -100:
			out[i].A = strategy.Sell
		}
	}
	return out
}

// s1MacdRule: macd above the signal line Buy, below Sell; with zeroSide the
// as-built extra conjuncts (Buy only below zero, Sell only above zero).
func s1MacdRule(s strategy.Strategy, snaps []*asset.Snapshot, zeroSide bool) []RuleVal {
	x := s.(*st.MacdStrategy)
	w := x.Macd.IdlePeriod()
	m, sg := x.Macd.Compute(Ch(Col(snaps, 'c')))
	v := Collect(m, sg)
	out := Holds(len(snaps))
	for i := w; i < len(snaps); i++ {
		mv, ok1 := At(v[0], i, w)
		sv, ok2 := At(v[1], i, w)
		if !ok1 || !ok2 {
			continue
		}
		scale := snaps[i].Close
		if Near(mv, sv, scale) || (zeroSide && Near(mv, 0, scale)) {
			out[i].Exempt = true
			continue
		}
		switch {
		case mv > sv && (!zeroSide || mv < 0):
			out[i].A = strategy.Buy
		case mv < sv && (!zeroSide || mv > 0):
			out[i].A = strategy.Sell
		}
	}
	return out
}
