package reg

import (
	"math"

	"github.com/cinar/indicator/v2/asset"
	"github.com/cinar/indicator/v2/momentum"
	"github.com/cinar/indicator/v2/strategy"
	sm "github.com/cinar/indicator/v2/strategy/momentum"
	sv "github.com/cinar/indicator/v2/strategy/volatility"
	su "github.com/cinar/indicator/v2/strategy/volume"
	"github.com/cinar/indicator/v2/trend"
	"github.com/cinar/indicator/v2/volatility"
	"github.com/cinar/indicator/v2/volume"

	"verif/harness/internal/gen"
)

// Strategy rows of strategy/momentum, strategy/volatility and strategy/volume.
//
// Reading taken throughout: the doc comments say "crosses above / below" (or
// are silent), yet none of these strategies keeps the previous indicator
// value; "crosses above X" is read as the level test "is above X" (the
// conventional reading given for these rows), evaluated at every snapshot.

// s3Sign is the rule "value > ref: up; value < ref: down; otherwise Hold",
// exempt where value and ref agree within rounding (or are non-finite).
func s3Sign(v, ref, scale float64, up, down strategy.Action) RuleVal {
	if Near(v, ref, scale) {
		return RuleVal{Exempt: true}
	}
	switch {
	case v > ref:
		return RuleVal{A: up}
	case v < ref:
		return RuleVal{A: down}
	}
	return RuleVal{} // unordered (NaN): neither test holds
}

// s3Levels is the two-threshold rule of a bounded oscillator: value <= lowAt
// gives low, value >= highAt gives high; lowFirst says which test wins when
// both hold (only possible when lowAt >= highAt).
func s3Levels(v, lowAt, highAt float64, low, high strategy.Action, lowFirst bool) RuleVal {
	if Near(v, lowAt, 1) || Near(v, highAt, 1) {
		return RuleVal{Exempt: true}
	}
	isLow, isHigh := v <= lowAt, v >= highAt
	switch {
	case isLow && isHigh:
		if lowFirst {
			return RuleVal{A: low}
		}
		return RuleVal{A: high}
	case isLow:
		return RuleVal{A: low}
	case isHigh:
		return RuleVal{A: high}
	}
	return RuleVal{}
}

// s3MaxTerm is the largest finite |d[i]*w[i]| or |d[i]*w[i-1]|: the rounding
// scale of a moving average over the products d*w (the running sums keep the
// rounding residue of the largest term for ever); the lagged pairing is
// included so that the scale also covers an indicator that pairs the change
// with the previous day's weight.
func s3MaxTerm(d, w []float64) float64 {
	m := 0.0
	upd := func(a float64) {
		a = math.Abs(a)
		if !math.IsNaN(a) && !math.IsInf(a, 0) && a > m {
			m = a
		}
	}
	for i := range d {
		upd(d[i] * w[i])
		if i > 0 {
			upd(d[i] * w[i-1])
		}
	}
	// Near exempts |x| <= 1e-9*scale; the residue of a running sum of P terms
	// is below 2P*2^-53 times the largest term, so 1e-12 of it is ample.
	return m * 1e-3
}

// s3Diff is the one-step change (first entry 0).
func s3Diff(xs []float64) []float64 {
	out := make([]float64, len(xs))
	for i := 1; i < len(xs); i++ {
		out[i] = xs[i] - xs[i-1]
	}
	return out
}

// s3Thresholds returns a low level centre-[minGap,maxGap] and a high level
// centre+[minGap,maxGap] of a bounded oscillator, so that low < high.
func s3Thresholds(r *gen.Rand, centre, minGap, maxGap float64) (low, high float64) {
	return centre - r.FRange(minGap, maxGap), centre + r.FRange(minGap, maxGap)
}

// ---- TripleRsiStrategy ----

// s3TripleOpt selects the documented rule (zero value) or single switches of
// the as-built one.
type s3TripleOpt struct {
	inverted  bool // the "down N periods in a row" test passes when the RSI did NOT fall
	shortSpan bool // DownDays values (DownDays-1 comparisons, reference DownDays-1 periods ago) instead of DownDays+1 values
	fillDelay bool // nothing but Hold until DownDays RSI values have been seen AFTER the SMA became ready
}

// s3Triple: Sell when RSI > SellAt. Buy when RSI < BuyAt, the RSI fell on each
// of the last DownDays periods, the RSI DownDays periods ago was below
// BuySignalAt, and the close is above the SMA.
func s3Triple(s strategy.Strategy, snaps []*asset.Snapshot, o s3TripleOpt) []RuleVal {
	x := s.(*sm.TripleRsiStrategy)
	c := Col(snaps, 'c')
	rsi := Collect(x.Rsi.Compute(Ch(c)))[0]
	sma := Collect(x.Sma.Compute(Ch(c)))[0]
	wr, wm := x.Rsi.IdlePeriod(), x.Sma.IdlePeriod()
	span := x.DownDays // number of falls required; reference = span periods ago
	if o.shortSpan {
		span = x.DownDays - 1
	}
	start := max(wr, wm)
	if o.fillDelay {
		start = wm + x.DownDays - 1
	}
	out := Holds(len(snaps))
	for i := start; i < len(snaps); i++ {
		cur, ok := At(rsi, i, wr)
		avg, okm := At(sma, i, wm)
		if !ok || !okm {
			continue
		}
		if NearNF(cur, x.SellAt, 1) {
			out[i].Exempt = true
			continue
		}
		if cur > x.SellAt {
			out[i].A = strategy.Sell
			continue
		}
		// Buy: a conjunction; a clause that is undecided (operands equal within
		// rounding or non-finite) exempts the position unless another clause
		// is definitely false.
		no, undecided := false, false
		clause := func(a, b float64, scale float64, pass func(a, b float64) bool) {
			if NearNF(a, b, scale) {
				undecided = true
			} else if !pass(a, b) {
				no = true
			}
		}
		less := func(a, b float64) bool { return a < b }
		more := func(a, b float64) bool { return a > b }
		clause(cur, x.BuyAt, 1, less)
		ref, okr := At(rsi, i-span, wr)
		if !okr {
			continue // the RSI of span periods ago does not exist yet
		}
		for k := 0; k < span; k++ {
			newer, _ := At(rsi, i-k, wr)
			older, _ := At(rsi, i-k-1, wr)
			if o.inverted {
				clause(newer, older, 1, func(a, b float64) bool { return !(a < b) })
			} else {
				clause(newer, older, 1, less)
			}
		}
		clause(ref, x.BuySignalAt, 1, less)
		clause(c[i], avg, c[i], more)
		switch {
		case no:
		case undecided:
			out[i].Exempt = true
		default:
			out[i].A = strategy.Buy
		}
	}
	return out
}

func init() {
	AddStrat(
		// ================= strategy/momentum =================
		&Strat{
			Name: "momentum.AwesomeOscillatorStrategy", InRegistry: true,
			Note: "comment is silent on the rule: conventional reading AO > 0 Buy, AO < 0 Sell; no constructor with periods: " +
				"set through AwesomeOscillator.ShortSma/LongSma.Period; short < long (equal periods give AO == 0 identically)",
			Default: P(momentum.DefaultAwesomeOscillatorShortPeriod, momentum.DefaultAwesomeOscillatorLongPeriod),
			Rand: func(r *gen.Rand) Cfg {
				l := r.Range(2, 12)
				return P(r.Range(1, l-1), l)
			},
			New: func(c Cfg) strategy.Strategy {
				x := sm.NewAwesomeOscillatorStrategy()
				x.AwesomeOscillator.ShortSma.Period, x.AwesomeOscillator.LongSma.Period = c.I[0], c.I[1]
				return x
			},
			Warm: func(s strategy.Strategy) int {
				return s.(*sm.AwesomeOscillatorStrategy).AwesomeOscillator.IdlePeriod()
			},
			Rule: func(s strategy.Strategy, snaps []*asset.Snapshot) []RuleVal {
				x := s.(*sm.AwesomeOscillatorStrategy)
				w := x.AwesomeOscillator.IdlePeriod()
				ao := Collect(x.AwesomeOscillator.Compute(Ch(Col(snaps, 'h')), Ch(Col(snaps, 'l'))))[0]
				out := Holds(len(snaps))
				for i := w; i < len(snaps); i++ {
					if v, ok := At(ao, i, w); ok {
						out[i] = s3Sign(v, 0, snaps[i].Close, strategy.Buy, strategy.Sell)
					}
				}
				return out
			},
		},
		&Strat{
			Name: "momentum.RsiStrategy", InRegistry: true,
			Note: "cfg = RSI period; F = BuyAt, SellAt. \"level at which a Buy/Sell action is generated\" read as RSI <= BuyAt Buy, RSI >= SellAt Sell " +
				"(oversold/overbought); BuyAt < SellAt kept so the two never overlap; no constructor with a period: Rsi replaced by NewRsiWithPeriod",
			Default: Cfg{I: []int{momentum.DefaultRsiPeriod}, F: []float64{sm.DefaultRsiStrategyBuyAt, sm.DefaultRsiStrategySellAt}},
			Rand: func(r *gen.Rand) Cfg {
				lo, hi := s3Thresholds(r, 50, 2, 15)
				switch r.Intn(6) { // a level of 0 / 100 switches that side (almost) off
				case 0:
					lo = 0
				case 1:
					hi = 100
				}
				return Cfg{I: []int{r.Range(1, 12)}, F: []float64{lo, hi}}
			},
			New: func(c Cfg) strategy.Strategy {
				if c.I[0] == momentum.DefaultRsiPeriod && c.F[0] == sm.DefaultRsiStrategyBuyAt && c.F[1] == sm.DefaultRsiStrategySellAt {
					return sm.NewRsiStrategy()
				}
				x := sm.NewRsiStrategyWith(c.F[0], c.F[1])
				x.Rsi = momentum.NewRsiWithPeriod[float64](c.I[0])
				return x
			},
			Warm: func(s strategy.Strategy) int { return s.(*sm.RsiStrategy).Rsi.IdlePeriod() },
			Rule: func(s strategy.Strategy, snaps []*asset.Snapshot) []RuleVal {
				x := s.(*sm.RsiStrategy)
				w := x.Rsi.IdlePeriod()
				rsi := Collect(x.Rsi.Compute(Ch(Col(snaps, 'c'))))[0]
				out := Holds(len(snaps))
				for i := w; i < len(snaps); i++ {
					if v, ok := At(rsi, i, w); ok {
						out[i] = s3Levels(v, x.BuyAt, x.SellAt, strategy.Buy, strategy.Sell, true)
					}
				}
				return out
			},
		},
		&Strat{
			Name: "momentum.StochasticRsiStrategy", InRegistry: true,
			Note: "cfg = period; F = BuyAt, SellAt. The comment gives no direction: read like its sibling RsiStrategy, value <= BuyAt Buy, " +
				"otherwise value >= SellAt Sell (Buy wins where both hold). The DEFAULT levels are BuyAt 0.8 > SellAt 0.2, so under this reading the " +
				"default strategy never Holds after the warm-up (Buy up to 0.8, Sell above): levels look swapped or the tests inverted; " +
				"random configurations draw both orders. Period 1 excluded (StochRSI undefined)",
			Default: Cfg{I: []int{momentum.DefaultStochasticRsiPeriod}, F: []float64{sm.DefaultStochasticRsiStrategyBuyAt, sm.DefaultStochasticRsiStrategySellAt}},
			Rand: func(r *gen.Rand) Cfg {
				f := []float64{r.FRange(0.15, 0.85), r.FRange(0.15, 0.85)}
				switch r.Intn(6) { // a level outside [0,1] switches that side off
				case 0:
					f[1] = r.PickF(1.5, 2, 80)
				case 1:
					f[0] = r.PickF(-0.3, -1)
				}
				return Cfg{I: []int{r.Range(2, 12)}, F: f}
			},
			New: func(c Cfg) strategy.Strategy {
				if c.I[0] == momentum.DefaultStochasticRsiPeriod && c.F[0] == sm.DefaultStochasticRsiStrategyBuyAt && c.F[1] == sm.DefaultStochasticRsiStrategySellAt {
					return sm.NewStochasticRsiStrategy()
				}
				x := sm.NewStochasticRsiStrategyWith(c.F[0], c.F[1])
				x.StochasticRsi = momentum.NewStochasticRsiWithPeriod[float64](c.I[0])
				return x
			},
			Warm: func(s strategy.Strategy) int { return s.(*sm.StochasticRsiStrategy).StochasticRsi.IdlePeriod() },
			Rule: func(s strategy.Strategy, snaps []*asset.Snapshot) []RuleVal {
				x := s.(*sm.StochasticRsiStrategy)
				w := x.StochasticRsi.IdlePeriod()
				v := Collect(x.StochasticRsi.Compute(Ch(Col(snaps, 'c'))))[0]
				out := Holds(len(snaps))
				for i := w; i < len(snaps); i++ {
					if y, ok := At(v, i, w); ok {
						out[i] = s3Levels(y, x.BuyAt, x.SellAt, strategy.Buy, strategy.Sell, true)
					}
				}
				return out
			},
		},
		&Strat{
			Name: "momentum.TripleRsiStrategy", InRegistry: true,
			Note: "cfg = RSI period, SMA period, DownDays; F = BuySignalAt, BuyAt, SellAt. \"down for the 3rd period in a row\" = the RSI fell on each of the " +
				"last DownDays periods (DownDays+1 values); \"three trading periods ago\" = DownDays periods ago; \"crosses above 50\" read as the level test " +
				"RSI > SellAt; Sell is listed/tested before Buy and BuyAt <= SellAt is kept so they never overlap. The comment assumes the SMA period is " +
				"longer than the RSI period (SMA warm-up >= RSI warm-up, else the streams misalign): kept; DownDays >= 1 (0 divides by zero in the ring)",
			Default: Cfg{
				I: []int{sm.DefaultTripleRsiStrategyPeriod, sm.DefaultTripleRsiStrategyMovingAveragePeriod, sm.DefaultTripleRsiStrategyDownDays},
				F: []float64{sm.DefaultTripleRsiStrategyBuySignalAt, sm.DefaultTripleRsiStrategyBuyAt, sm.DefaultTripleRsiStrategySellAt},
			},
			Rand: func(r *gen.Rand) Cfg {
				p := r.Range(1, 8)
				buyAt := r.FRange(40, 62)
				return Cfg{
					I: []int{p, r.Range(p+1, 12), r.Pick(1, 2, 2, 3, 3, 4)},
					F: []float64{r.FRange(45, 85), buyAt, buyAt + r.FRange(0, 15)},
				}
			},
			New: func(c Cfg) strategy.Strategy {
				return sm.NewTripleRsiStrategyWith(c.I[0], c.I[1], c.I[2], c.F[0], c.F[1], c.F[2])
			},
			// Sell needs the current RSI and (by the strategy's own IdlePeriod) the
			// SMA; Buy additionally needs the RSI of DownDays periods ago.
			Warm: func(s strategy.Strategy) int {
				x := s.(*sm.TripleRsiStrategy)
				return max(x.Sma.IdlePeriod(), x.Rsi.IdlePeriod())
			},
			Rule: func(s strategy.Strategy, snaps []*asset.Snapshot) []RuleVal {
				return s3Triple(s, snaps, s3TripleOpt{})
			},
			Devs: []StratDev{{
				Key: "triple-rsi-down-test-inverted-short-window",
				What: "the ring keeps DownDays RSI values instead of DownDays+1 and its down test is inverted: Buy requires the RSI NOT to have fallen on any of the last " +
					"DownDays-1 periods and compares BuySignalAt with the RSI of DownDays-1 periods ago; the ring only fills once the SMA is ready, so the first DownDays-1 ready positions are Hold",
				Rule: func(s strategy.Strategy, snaps []*asset.Snapshot) []RuleVal {
					return s3Triple(s, snaps, s3TripleOpt{inverted: true, shortSpan: true, fillDelay: true})
				},
			}},
		},

		// ================= strategy/volatility =================
		&Strat{
			Name: "volatility.BollingerBandsStrategy", InRegistry: true,
			Note: "close above the upper band Buy, close below the lower band Sell (\"crossing\" read as the level test); no constructor with a period: " +
				"BollingerBands replaced by NewBollingerBandsWithPeriod; with 2-sigma population bands a close can only leave the bands for Period >= 6 " +
				"(max z-score of one of P values is sqrt(P-1)), so short periods are all Hold/exempt",
			Default: P(volatility.DefaultBollingerBandsPeriod),
			Rand: func(r *gen.Rand) Cfg {
				p := r.Range(1, 12)
				if p < 6 && r.Bool() {
					p = r.Range(6, 12)
				}
				return P(p)
			},
			New: func(c Cfg) strategy.Strategy {
				x := sv.NewBollingerBandsStrategy()
				if c.I[0] != volatility.DefaultBollingerBandsPeriod {
					x.BollingerBands = volatility.NewBollingerBandsWithPeriod[float64](c.I[0])
				}
				return x
			},
			Warm: func(s strategy.Strategy) int { return s.(*sv.BollingerBandsStrategy).BollingerBands.IdlePeriod() },
			Rule: func(s strategy.Strategy, snaps []*asset.Snapshot) []RuleVal {
				x := s.(*sv.BollingerBandsStrategy)
				w := x.BollingerBands.IdlePeriod()
				c := Col(snaps, 'c')
				u, m, l := x.BollingerBands.Compute(Ch(c))
				b := Collect(u, l, m)
				out := Holds(len(snaps))
				for i := w; i < len(snaps); i++ {
					up, ok1 := At(b[0], i, w)
					lo, ok2 := At(b[1], i, w)
					if !ok1 || !ok2 {
						continue
					}
					switch {
					case Near(c[i], up, c[i]) || Near(c[i], lo, c[i]):
						out[i].Exempt = true
					case c[i] > up:
						out[i].A = strategy.Buy
					case c[i] < lo:
						out[i].A = strategy.Sell
					}
				}
				return out
			},
		},
		&Strat{
			Name: "volatility.SuperTrendStrategy", InRegistry: true,
			Note: "cfg = period, F = multiplier, S = variant: \"\" NewSuperTrendStrategy(), \"hma\" NewSuperTrendWithPeriod(p, mult), \"sma\"/\"ema\" NewSuperTrendWithMa; " +
				"close above the Super Trend Buy, below Sell (\"crossing\" read as the level test)",
			Default: Cfg{I: []int{volatility.DefaultSuperTrendPeriod}, F: []float64{volatility.DefaultSuperTrendMultiplier}},
			Rand: func(r *gen.Rand) Cfg {
				v := []string{"hma", "sma", "ema"}[r.Intn(3)]
				return Cfg{I: []int{r.Range(1, 12)}, F: []float64{r.PickF(2.5, 3, 2, 1, 0.5)}, S: v}
			},
			New: func(c Cfg) strategy.Strategy {
				switch c.S {
				case "hma":
					return sv.NewSuperTrendStrategyWith(volatility.NewSuperTrendWithPeriod[float64](c.I[0], c.F[0]))
				case "sma":
					return sv.NewSuperTrendStrategyWith(volatility.NewSuperTrendWithMa[float64](trend.NewSmaWithPeriod[float64](c.I[0]), c.F[0]))
				case "ema":
					return sv.NewSuperTrendStrategyWith(volatility.NewSuperTrendWithMa[float64](trend.NewEmaWithPeriod[float64](c.I[0]), c.F[0]))
				}
				return sv.NewSuperTrendStrategy()
			},
			Warm: func(s strategy.Strategy) int { return s.(*sv.SuperTrendStrategy).SuperTrend.IdlePeriod() },
			Rule: func(s strategy.Strategy, snaps []*asset.Snapshot) []RuleVal {
				x := s.(*sv.SuperTrendStrategy)
				w := x.SuperTrend.IdlePeriod()
				c := Col(snaps, 'c')
				st := Collect(x.SuperTrend.Compute(Ch(Col(snaps, 'h')), Ch(Col(snaps, 'l')), Ch(c)))[0]
				out := Holds(len(snaps))
				for i := w; i < len(snaps); i++ {
					if v, ok := At(st, i, w); ok {
						out[i] = s3Sign(c[i], v, c[i], strategy.Buy, strategy.Sell)
					}
				}
				return out
			},
		},

		// ================= strategy/volume =================
		&Strat{
			Name: "volume.ChaikinMoneyFlowStrategy", InRegistry: true,
			Note:    "CMF above 0 Buy, below 0 Sell (\"crosses\" read as the level test)",
			Default: P(volume.DefaultCmfPeriod),
			Rand:    func(r *gen.Rand) Cfg { return P(r.Range(1, 12)) },
			New: func(c Cfg) strategy.Strategy {
				if c.I[0] == volume.DefaultCmfPeriod {
					return su.NewChaikinMoneyFlowStrategy()
				}
				return su.NewChaikinMoneyFlowStrategyWith(c.I[0])
			},
			Warm: func(s strategy.Strategy) int { return s.(*su.ChaikinMoneyFlowStrategy).ChaikinMoneyFlow.IdlePeriod() },
			Rule: func(s strategy.Strategy, snaps []*asset.Snapshot) []RuleVal {
				x := s.(*su.ChaikinMoneyFlowStrategy)
				w := x.ChaikinMoneyFlow.IdlePeriod()
				v := Collect(x.ChaikinMoneyFlow.Compute(Ch(Col(snaps, 'h')), Ch(Col(snaps, 'l')), Ch(Col(snaps, 'c')), Ch(Col(snaps, 'v'))))[0]
				out := Holds(len(snaps))
				for i := w; i < len(snaps); i++ {
					if y, ok := At(v, i, w); ok {
						out[i] = s3Sign(y, 0, 1, strategy.Buy, strategy.Sell)
					}
				}
				return out
			},
		},
		&Strat{
			Name: "volume.EaseOfMovementStrategy", InRegistry: true,
			Note: "EMV above 0 Buy, below 0 Sell (\"crosses\" read as the level test); rounding scale = largest |EMV(1)| term of the series; " +
				"a zero-volume bar makes the EMV non-finite for ever (exempt)",
			Default: P(volume.DefaultEmvPeriod),
			Rand:    func(r *gen.Rand) Cfg { return P(r.Range(1, 12)) },
			New: func(c Cfg) strategy.Strategy {
				if c.I[0] == volume.DefaultEmvPeriod {
					return su.NewEaseOfMovementStrategy()
				}
				return su.NewEaseOfMovementStrategyWith(c.I[0])
			},
			Warm: func(s strategy.Strategy) int { return s.(*su.EaseOfMovementStrategy).EaseOfMovement.IdlePeriod() },
			Rule: func(s strategy.Strategy, snaps []*asset.Snapshot) []RuleVal {
				x := s.(*su.EaseOfMovementStrategy)
				w := x.EaseOfMovement.IdlePeriod()
				h, l, vol := Col(snaps, 'h'), Col(snaps, 'l'), Col(snaps, 'v')
				v := Collect(x.EaseOfMovement.Compute(Ch(h), Ch(l), Ch(vol)))[0]
				mid, inv := make([]float64, len(h)), make([]float64, len(h))
				for i := range h {
					mid[i] = (h[i] + l[i]) / 2
					inv[i] = (h[i] - l[i]) * 1e8 / vol[i]
				}
				scale := s3MaxTerm(s3Diff(mid), inv)
				out := Holds(len(snaps))
				for i := w; i < len(snaps); i++ {
					if y, ok := At(v, i, w); ok {
						out[i] = s3Sign(y, 0, scale, strategy.Buy, strategy.Sell)
					}
				}
				return out
			},
		},
		&Strat{
			Name: "volume.ForceIndexStrategy", InRegistry: true,
			Note:    "FI above zero Buy, below zero Sell (\"crosses\" read as the level test); rounding scale = largest |close change * volume| term of the series",
			Default: P(volume.DefaultFiPeriod),
			Rand:    func(r *gen.Rand) Cfg { return P(r.Range(1, 12)) },
			New: func(c Cfg) strategy.Strategy {
				if c.I[0] == volume.DefaultFiPeriod {
					return su.NewForceIndexStrategy()
				}
				return su.NewForceIndexStrategyWith(c.I[0])
			},
			Warm: func(s strategy.Strategy) int { return s.(*su.ForceIndexStrategy).ForceIndex.IdlePeriod() },
			Rule: func(s strategy.Strategy, snaps []*asset.Snapshot) []RuleVal {
				x := s.(*su.ForceIndexStrategy)
				w := x.ForceIndex.IdlePeriod()
				c, vol := Col(snaps, 'c'), Col(snaps, 'v')
				v := Collect(x.ForceIndex.Compute(Ch(c), Ch(vol)))[0]
				scale := s3MaxTerm(s3Diff(c), vol)
				out := Holds(len(snaps))
				for i := w; i < len(snaps); i++ {
					if y, ok := At(v, i, w); ok {
						out[i] = s3Sign(y, 0, scale, strategy.Buy, strategy.Sell)
					}
				}
				return out
			},
		},
		&Strat{
			Name: "volume.MoneyFlowIndexStrategy", InRegistry: true,
			Note: "cfg = period; F = SellAt, BuyAt IN THE CONSTRUCTOR'S ORDER NewMoneyFlowIndexStrategyWith(sellAt, buyAt). MFI >= SellAt Sell, MFI <= BuyAt Buy " +
				"(\"crosses over/below\" read as level tests; Sell named first in the comment and wins an overlap; BuyAt < SellAt kept); " +
				"no constructor with a period: MoneyFlowIndex.Sum replaced",
			Default: Cfg{I: []int{volume.DefaultMfiPeriod}, F: []float64{su.DefaultMoneyFlowIndexStrategySellAt, su.DefaultMoneyFlowIndexStrategyBuyAt}},
			Rand: func(r *gen.Rand) Cfg {
				lo, hi := s3Thresholds(r, 50, 2, 18)
				switch r.Intn(5) { // both levels on one side of the middle of the scale
				case 0:
					lo, hi = r.FRange(15, 30), r.FRange(35, 49)
				case 1:
					lo, hi = r.FRange(51, 60), r.FRange(65, 85)
				}
				return Cfg{I: []int{r.Range(1, 12)}, F: []float64{hi, lo}}
			},
			New: func(c Cfg) strategy.Strategy {
				if c.I[0] == volume.DefaultMfiPeriod && c.F[0] == su.DefaultMoneyFlowIndexStrategySellAt && c.F[1] == su.DefaultMoneyFlowIndexStrategyBuyAt {
					return su.NewMoneyFlowIndexStrategy()
				}
				x := su.NewMoneyFlowIndexStrategyWith(c.F[0], c.F[1])
				x.MoneyFlowIndex.Sum = trend.NewMovingSumWithPeriod[float64](c.I[0])
				return x
			},
			Warm: func(s strategy.Strategy) int { return s.(*su.MoneyFlowIndexStrategy).MoneyFlowIndex.IdlePeriod() },
			Rule: func(s strategy.Strategy, snaps []*asset.Snapshot) []RuleVal {
				x := s.(*su.MoneyFlowIndexStrategy)
				w := x.MoneyFlowIndex.IdlePeriod()
				v := Collect(x.MoneyFlowIndex.Compute(Ch(Col(snaps, 'h')), Ch(Col(snaps, 'l')), Ch(Col(snaps, 'c')), Ch(Col(snaps, 'v'))))[0]
				out := Holds(len(snaps))
				for i := w; i < len(snaps); i++ {
					if y, ok := At(v, i, w); ok {
						out[i] = s3Levels(y, x.BuyAt, x.SellAt, strategy.Buy, strategy.Sell, false)
					}
				}
				return out
			},
		},
		&Strat{
			Name: "volume.NegativeVolumeIndexStrategy", InRegistry: true,
			Note: "cfg = EMA period. NVI below its EMA Buy, above its EMA Sell (\"crosses\" read as the level test); the EMA is taken over the NVI stream, " +
				"so the warm-up is NVI's plus the EMA's",
			Default: P(su.DefaultNegativeVolumeIndexStrategyEmaPeriod),
			Rand:    func(r *gen.Rand) Cfg { return P(r.Range(1, 12)) },
			New: func(c Cfg) strategy.Strategy {
				if c.I[0] == su.DefaultNegativeVolumeIndexStrategyEmaPeriod {
					return su.NewNegativeVolumeIndexStrategy()
				}
				return su.NewNegativeVolumeIndexStrategyWith(c.I[0])
			},
			Warm: func(s strategy.Strategy) int {
				x := s.(*su.NegativeVolumeIndexStrategy)
				return x.NegativeVolumeIndex.IdlePeriod() + x.NegativeVolumeIndexEma.IdlePeriod()
			},
			Rule: func(s strategy.Strategy, snaps []*asset.Snapshot) []RuleVal {
				x := s.(*su.NegativeVolumeIndexStrategy)
				wn := x.NegativeVolumeIndex.IdlePeriod()
				we := wn + x.NegativeVolumeIndexEma.IdlePeriod()
				nvi := Collect(x.NegativeVolumeIndex.Compute(Ch(Col(snaps, 'c')), Ch(Col(snaps, 'v'))))[0]
				ema := Collect(x.NegativeVolumeIndexEma.Compute(Ch(nvi)))[0]
				out := Holds(len(snaps))
				for i := we; i < len(snaps); i++ {
					a, ok1 := At(nvi, i, wn)
					b, ok2 := At(ema, i, we)
					if ok1 && ok2 {
						out[i] = s3Sign(a, b, 0, strategy.Sell, strategy.Buy)
					}
				}
				return out
			},
		},
		&Strat{
			Name: "volume.WeightedAveragePriceStrategy", InRegistry: true,
			Note: "close below the VWAP Buy, close above the VWAP Sell (\"crosses\" read as the level test); period 1 makes VWAP == close up to rounding (all exempt); " +
				"a window of zero volume makes the VWAP non-finite (exempt)",
			Default: P(volume.DefaultVwapPeriod),
			Rand:    func(r *gen.Rand) Cfg { return P(r.Range(1, 12)) },
			New: func(c Cfg) strategy.Strategy {
				if c.I[0] == volume.DefaultVwapPeriod {
					return su.NewWeightedAveragePriceStrategy()
				}
				return su.NewWeightedAveragePriceStrategyWith(c.I[0])
			},
			Warm: func(s strategy.Strategy) int {
				return s.(*su.WeightedAveragePriceStrategy).WeightedAveragePrice.IdlePeriod()
			},
			Rule: func(s strategy.Strategy, snaps []*asset.Snapshot) []RuleVal {
				x := s.(*su.WeightedAveragePriceStrategy)
				w := x.WeightedAveragePrice.IdlePeriod()
				c := Col(snaps, 'c')
				v := Collect(x.WeightedAveragePrice.Compute(Ch(c), Ch(Col(snaps, 'v'))))[0]
				out := Holds(len(snaps))
				for i := w; i < len(snaps); i++ {
					if y, ok := At(v, i, w); ok {
						out[i] = s3Sign(c[i], y, c[i], strategy.Sell, strategy.Buy)
					}
				}
				return out
			},
		},
	)
}
