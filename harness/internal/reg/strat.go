package reg

import (
	"math"
	"sort"

	"github.com/cinar/indicator/v2/asset"
	"github.com/cinar/indicator/v2/helper"
	"github.com/cinar/indicator/v2/strategy"

	"verif/harness/internal/gen"
)

// RuleVal is the expected action at one snapshot position. Exempt marks a
// position where the compared quantities are equal within rounding (or
// non-finite), so either side of the comparison is acceptable.
type RuleVal struct {
	A      strategy.Action
	Exempt bool
}

// StratDev is a deviation model for a strategy: the documented rule with one
// switch flipped (wrong field, wrong shift), reproducing the as-built output.
// Its Rule may return a different number of actions than snapshots.
type StratDev struct {
	Key  string
	What string
	Rule func(s strategy.Strategy, snaps []*asset.Snapshot) []RuleVal
}

// Strat is one row of the strategy registry (base strategies only; compounds
// and decorators are built over these by the monitors).
type Strat struct {
	Name    string // e.g. "trend.ApoStrategy"
	Default Cfg
	Rand    func(r *gen.Rand) Cfg // random admissible configuration: periods in [1,12], thresholds randomised so both sides of every comparison occur
	New     func(c Cfg) strategy.Strategy
	// Warm returns w_s: the first snapshot position at which a non-Hold may
	// appear, computed from the live instance's own indicator IdlePeriod()s
	// (plus one where the rule needs the previous indicator value).
	Warm func(s strategy.Strategy) int
	// Rule is the documented decision rule applied to the values of the
	// strategy's OWN indicator instance (through its public Compute) computed
	// from the DOCUMENTED snapshot fields, which the rule extracts itself
	// from snaps. One entry per snapshot; positions < w_s are Hold.
	Rule func(s strategy.Strategy, snaps []*asset.Snapshot) []RuleVal
	Devs []StratDev
	// InRegistry: returned (at its default configuration) by the
	// AllStrategies() of its package.
	InRegistry bool
	Note       string
}

// Strats is filled by the init functions of the per-package files.
var Strats []*Strat

// AddStrat registers rows.
func AddStrat(rows ...*Strat) { Strats = append(Strats, rows...) }

// SortedStrats returns the rows by name.
func SortedStrats() []*Strat {
	out := append([]*Strat(nil), Strats...)
	sort.Slice(out, func(i, j int) bool { return out[i].Name < out[j].Name })
	return out
}

// StratByName finds a row.
func StratByName(name string) *Strat {
	for _, r := range Strats {
		if r.Name == name {
			return r
		}
	}
	return nil
}

// ---- helpers for writing rules ----

// Col extracts one snapshot column: 'o','h','l','c','v'.
func Col(snaps []*asset.Snapshot, f byte) []float64 {
	out := make([]float64, len(snaps))
	for i, s := range snaps {
		switch f {
		case 'o':
			out[i] = s.Open
		case 'h':
			out[i] = s.High
		case 'l':
			out[i] = s.Low
		case 'c':
			out[i] = s.Close
		case 'v':
			out[i] = s.Volume
		}
	}
	return out
}

// Ch turns a slice into a stream.
func Ch(xs []float64) <-chan float64 { return helper.SliceToChan(xs) }

// Collect drains several streams concurrently.
func Collect(outs ...<-chan float64) [][]float64 {
	res := make([][]float64, len(outs))
	done := make(chan struct{}, len(outs))
	for j := range outs {
		go func(j int) {
			res[j] = helper.ChanToSlice(outs[j])
			done <- struct{}{}
		}(j)
	}
	for range outs {
		<-done
	}
	return res
}

// Holds returns n Hold entries.
func Holds(n int) []RuleVal { return make([]RuleVal, n) }

// Near reports whether a and b are equal within rounding relative to scale
// (or either is infinite): such a comparison is exempt. A NaN operand is NOT
// exempt: every ordered test against it is false, so a rule of the form
// "Buy if x > y, Sell if x < y" gives Hold there, and the rule helpers are
// written so that they do.
func Near(a, b, scale float64) bool {
	if math.IsNaN(a) || math.IsNaN(b) {
		return false
	}
	if math.IsInf(a, 0) || math.IsInf(b, 0) {
		return true
	}
	s := math.Max(math.Abs(scale), math.Max(math.Abs(a), math.Abs(b)))
	return math.Abs(a-b) <= 1e-9*s
}

// NearNF is Near with NaN operands exempt as well (rules with conjunctions of
// clauses, where the as-built evaluation order of undefined values is not
// documented).
func NearNF(a, b, scale float64) bool {
	return math.IsNaN(a) || math.IsNaN(b) || Near(a, b, scale)
}

// At returns vals[i-w] — the indicator value that refers to snapshot position
// i when the indicator has warm-up w — and whether it exists.
func At(vals []float64, i, w int) (float64, bool) {
	k := i - w
	if k < 0 || k >= len(vals) {
		return 0, false
	}
	return vals[k], true
}

// Snaps builds snapshots from bars (dates are whole UTC days from 2020-01-01).
func Snaps(bars []gen.Bar) []*asset.Snapshot {
	out := make([]*asset.Snapshot, len(bars))
	for i, b := range bars {
		out[i] = &asset.Snapshot{Date: Day(i), Open: b.O, High: b.H, Low: b.L, Close: b.C, Volume: b.V}
	}
	return out
}
