package reg

import (
	"math"

	"github.com/cinar/indicator/v2/trend"
	"github.com/cinar/indicator/v2/volatility"

	"verif/harness/internal/gen"
)

// Rows of package volatility. Every reference is written from the doc comment
// above the type; private helpers carry the prefix "vo".

// ---- helpers ----

// voTR returns the true range TR = max(h-l, h-prevClose, prevClose-l);
// out[j] refers to input position j+1 (the first bar has no previous close).
func voTR(h, l, c []float64) []float64 {
	n := len(c)
	if len(h) < n {
		n = len(h)
	}
	if len(l) < n {
		n = len(l)
	}
	if n < 2 {
		return nil
	}
	out := make([]float64, n-1)
	for i := 1; i < n; i++ {
		out[i-1] = math.Max(h[i]-l[i], math.Max(h[i]-c[i-1], c[i-1]-l[i]))
	}
	return out
}

// voStd is the population standard deviation of each window:
// sqrt(1/p * sum (x - mean)^2); out[k] refers to position k+p-1.
func voStd(xs []float64, p int) []float64 {
	if p < 1 || len(xs) < p {
		return nil
	}
	out := make([]float64, len(xs)-p+1)
	for k := range out {
		w := xs[k : k+p]
		mean := Sum(w) / float64(p)
		s := 0.0
		for _, x := range w {
			s += (x - mean) * (x - mean)
		}
		out[k] = math.Sqrt(s / float64(p))
	}
	return out
}

// voSMArv is the window mean over reference values; a window containing an
// ill term is ill.
func voSMArv(xs []RV, p int) []RV {
	if p < 1 || len(xs) < p {
		return nil
	}
	out := make([]RV, len(xs)-p+1)
	for k := range out {
		s, ill := 0.0, false
		for _, x := range xs[k : k+p] {
			s += x.V
			ill = ill || x.Ill
		}
		v := s / float64(p)
		out[k] = RV{V: v, Ill: ill || bad(v)}
	}
	return out
}

// voTailRV drops the first k reference values.
func voTailRV(xs []RV, k int) []RV {
	if k >= len(xs) {
		return nil
	}
	if k < 0 {
		k = 0
	}
	return xs[k:]
}

// voBands builds SMA_p +/- 2*Std_p: upper, middle, lower (positions p-1..).
func voBands(xs []float64, p int) (u, m, l []float64) {
	m = SMA(xs, p)
	sd := voStd(xs, p)
	u = Zip2(m, sd, func(a, s float64) float64 { return a + 2*s })
	l = Zip2(m, sd, func(a, s float64) float64 { return a - 2*s })
	return
}

// voWMA is the documented weighted moving average of trend.Wma:
// ((Value1 * 1/N) + (Value2 * 2/N) + ...) / 2, Value1 the oldest of the window.
func voWMA(xs []float64, n int) []float64 {
	if n < 1 || len(xs) < n {
		return nil
	}
	out := make([]float64, len(xs)-n+1)
	for k := range out {
		s := 0.0
		for i := 0; i < n; i++ {
			s += xs[k+i] * float64(i+1) / float64(n)
		}
		out[k] = s / 2
	}
	return out
}

// voHMA is the documented Hull moving average of trend.Hma:
// WMA(sqrt(p), 2*WMA(p/2) - WMA(p)), the two inner averages taken at the same
// position; p/2 and sqrt(p) rounded to the nearest integer (constructor).
// out[k] refers to position k + (p-1) + (round(sqrt p)-1).
func voHMA(xs []float64, p int) []float64 {
	n1 := int(math.Round(float64(p) / 2))
	n3 := int(math.Round(math.Sqrt(float64(p))))
	w1 := Tail(voWMA(xs, n1), p-n1)
	w2 := voWMA(xs, p)
	return voWMA(Zip2(w1, w2, func(a, b float64) float64 { return 2*a - b }), n3)
}

// voNear reports a near tie of a comparison: the two operands differ, but only
// by rounding, so that the comparison may legitimately fall either way. Exact
// equality is not a near tie: it arises from structural degeneracy (ATR exactly
// 0, repeated windows), which any window-local evaluation reproduces exactly.
func voNear(a, b float64) bool {
	return a != b && math.Abs(a-b) <= 1e-10*(math.Abs(a)+math.Abs(b))
}

func voOpts(exact, tie bool) []bool {
	if tie {
		return []bool{exact, !exact}
	}
	return []bool{exact}
}

// voOr enumerates the possible values of p||q (exact value first).
func voOr(p, q []bool) []bool {
	exact := p[0] || q[0]
	for _, a := range p {
		for _, b := range q {
			if (a || b) != exact {
				return []bool{exact, !exact}
			}
		}
	}
	return []bool{exact}
}

type voSTState struct {
	fu, fl float64
	up     bool
}

// voSuperTrend evaluates the documented band recursion. The recursion is a
// chain of comparisons, i.e. discontinuous: where a comparison is a (near)
// tie, every outcome is followed, and a position is well-defined only when
// all surviving paths yield the same value. literalUp = true takes the
// documented "UpTrend = (SuperTrend == FinalUpperBand)"; false keeps UpTrend as
// the branch taken (they differ only when both final bands are equal).
func voSuperTrend(c Cfg, in [][]float64, literalUp bool) []RV {
	p, mult := c.I[0], c.F[0]
	h, l, cl := in[0], in[1], in[2]
	atr := voHMA(voTR(h, l, cl), p) // ATR = MA(TR), MA = HMA_p
	if len(atr) == 0 {
		return nil
	}
	w := len(cl) - len(atr)
	out := make([]RV, len(atr))
	var states []voSTState
	dead := false
	for k := range atr {
		i := k + w
		med := (h[i] + l[i]) / 2
		bu, bl := med+mult*atr[k], med-mult*atr[k]
		if dead || bad(bu) || bad(bl) {
			dead = true
			out[k] = RV{Ill: true}
			continue
		}
		var next []voSTState
		var sts []float64
		emit := func(s voSTState, st float64) {
			sts = append(sts, st)
			for _, t := range next {
				if t == s {
					return
				}
			}
			next = append(next, s)
		}
		if k == 0 {
			// first value: final bands = basic bands, SuperTrend = lower band
			emit(voSTState{bu, bl, literalUp && bl == bu}, bl) // UpTrend = (SuperTrend == FinalUpperBand)
			if voNear(bu, bl) {
				emit(voSTState{bu, bl, true}, bl)
			}
		}
		pc := 0.0
		if k > 0 {
			pc = cl[i-1]
		}
		for _, s := range states {
			cus := voOr(voOpts(bu < s.fu, voNear(bu, s.fu)), voOpts(pc > s.fu, voNear(pc, s.fu)))
			cls := voOr(voOpts(bl > s.fl, voNear(bl, s.fl)), voOpts(pc < s.fl, voNear(pc, s.fl)))
			for _, cu := range cus {
				fu := s.fu
				if cu {
					fu = bu
				}
				for _, clo := range cls {
					fl := s.fl
					if clo {
						fl = bl
					}
					var os []bool
					if s.up {
						os = voOpts(cl[i] <= fu, voNear(cl[i], fu))
					} else {
						os = voOpts(cl[i] >= fl, voNear(cl[i], fl))
					}
					for _, o := range os {
						st := fl
						if s.up == o {
							st = fu
						}
						up := s.up == o // the branch that chose the upper band
						if literalUp {
							up = st == fu // UpTrend = (SuperTrend == FinalUpperBand)
						}
						emit(voSTState{fu, fl, up}, st)
						if voNear(fu, fl) {
							emit(voSTState{fu, fl, !up}, st)
						}
					}
				}
			}
		}
		states = next
		if len(states) == 0 || len(states) > 64 {
			dead = true
			out[k] = RV{Ill: true}
			continue
		}
		rv := RV{V: sts[0], Ill: bad(sts[0])}
		for _, st := range sts[1:] {
			if math.Abs(st-sts[0]) > 1e-12*(math.Abs(st)+math.Abs(sts[0])) {
				rv.Ill = true
			}
		}
		out[k] = rv
	}
	return out
}

// voSlope is the least-squares slope of ys over the window ending at position
// i with abscissa x = position+1 (1,2,3..):
// m = (p*sumXY - sumX*sumY) / (p*sumX2 - sumX*sumX).
// s is the magnitude of the terms that cancel in the numerator, carried
// through the division (the absolute scale of m's rounding error).
func voSlope(ys []float64, i, p int) (m, s float64, ill bool) {
	var sx, sy, sxy, sx2, axy, ay float64
	for j := i - p + 1; j <= i; j++ {
		x := float64(j + 1)
		sx += x
		sy += ys[j]
		sxy += x * ys[j]
		sx2 += x * x
		axy += math.Abs(x * ys[j])
		ay += math.Abs(ys[j])
	}
	fp := float64(p)
	// the divisor is a difference of integers (x is a time index): exact, p^2(p^2-1)/12
	q := Quot(fp*sxy-sx*sy, fp*sx2-sx*sx, 0)
	den := math.Abs(fp*sx2 - sx*sx)
	return q.V, (fp*axy + sx*ay) / den, q.Ill
}

// voPo: PL = Min_p(high + slope_p(high)), PH = Max_p(low + slope_p(low)),
// PO = 100*(close - PL)/(PH - PL).
func voPo(c Cfg, in [][]float64) []RV {
	p := c.I[0]
	h, l, cl := in[0], in[1], in[2]
	n := len(cl)
	w := 2 * (p - 1)
	if n <= w || p < 1 {
		return nil
	}
	type term struct {
		v, s float64
		ill  bool
	}
	proj := func(ys []float64) []term { // index i-(p-1)
		out := make([]term, n-(p-1))
		for i := p - 1; i < n; i++ {
			m, s, ill := voSlope(ys, i, p)
			out[i-(p-1)] = term{ys[i] + m, s, ill}
		}
		return out
	}
	a, b := proj(h), proj(l)
	out := make([]RV, n-w)
	for k := range out {
		// window of p projected values ending at position k+w: indices k..k+p-1
		pl, ph := a[k].v, b[k].v
		spl, sph, ill := 0.0, 0.0, false
		for j := k; j < k+p; j++ {
			pl = math.Min(pl, a[j].v)
			ph = math.Max(ph, b[j].v)
			spl = math.Max(spl, a[j].s)
			sph = math.Max(sph, b[j].s)
			ill = ill || a[j].ill || b[j].ill
		}
		num, den := cl[k+w]-pl, ph-pl
		rv := Quot(100*num, den, math.Abs(ph)+math.Abs(pl))
		rv.Ill = rv.Ill || ill
		if !rv.Ill {
			rv.S = 100 * (spl/math.Abs(den) + math.Abs(num)*(sph+spl)/(den*den))
		}
		out[k] = rv
	}
	return out
}

// voUlcer: documented = true gives sqrt(SMA_p(PD^2)); false gives the
// as-built sqrt((SMA_p(PD))^2).
func voUlcer(c Cfg, in [][]float64, documented bool) []RV {
	p := c.I[0]
	cl := in[0]
	hh := MovMax(cl, p) // position k+p-1
	pd := make([]RV, len(hh))
	for k := range hh {
		x := cl[k+p-1]
		q := Quot(x-hh[k], hh[k], 0)
		q.V *= 100
		pd[k] = q
	}
	if documented {
		for k := range pd {
			pd[k].V *= pd[k].V
		}
	}
	avg := voSMArv(pd, p)
	for k := range avg {
		if documented {
			avg[k].V = math.Sqrt(avg[k].V)
		} else {
			avg[k].V = math.Sqrt(avg[k].V * avg[k].V)
		}
		avg[k].Ill = avg[k].Ill || bad(avg[k].V)
	}
	return avg
}

func init() {
	Add(
		&Indicator{
			Name: "volatility.AccelerationBands", In: "hlc", Out: []string{"upper", "middle", "lower"},
			Default: P(volatility.DefaultAccelerationBandsPeriod),
			Rand:    func(r *gen.Rand) Cfg { return P(r.Range(1, 12)) },
			New: func(c Cfg) Inst {
				x := volatility.NewAccelerationBands[float64]()
				x.Period = c.I[0]
				return Inst{Obj: x, Compute: A33(x.Compute), Idle: x.IdlePeriod(), Declared: true}
			},
			// Upper = SMA(High*(1+4*(High-Low)/(High+Low))), Middle = SMA(Closing),
			// Lower = SMA(Low*(1-4*(High-Low)/(High+Low))).
			Ref: func(c Cfg, in [][]float64) [][]RV {
				p := c.I[0]
				h, l := in[0], in[1]
				up, lo := make([]RV, len(h)), make([]RV, len(h))
				for i := range h {
					k := Quot(h[i]-l[i], h[i]+l[i], 0)
					up[i] = RV{V: h[i] * (1 + 4*k.V), Ill: k.Ill}
					lo[i] = RV{V: l[i] * (1 - 4*k.V), Ill: k.Ill}
				}
				return [][]RV{voSMArv(up, p), Vals(SMA(in[2], p)), voSMArv(lo, p)}
			},
			Deg: []Degree{{1, 0}, {1, 0}, {1, 0}},
		},
		&Indicator{
			Name: "volatility.Atr", In: "hlc", Out: []string{"atr"},
			Note:    "\"ATR = MA TR\": MA = SMA by default; variant S=\"ema\" passes trend.Ema (seed SMA, multiplier 2/(P+1)) through NewAtrWithMa",
			Default: Cfg{I: []int{volatility.DefaultAtrPeriod}, S: "sma"},
			Rand: func(r *gen.Rand) Cfg {
				s := "sma"
				if r.Bool() {
					s = "ema"
				}
				return Cfg{I: []int{r.Range(1, 12)}, S: s}
			},
			New: func(c Cfg) Inst {
				var x *volatility.Atr[float64]
				if c.S == "ema" {
					x = volatility.NewAtrWithMa[float64](trend.NewEmaWithPeriod[float64](c.I[0]))
				} else if c.I[0] == volatility.DefaultAtrPeriod {
					x = volatility.NewAtr[float64]()
				} else {
					x = volatility.NewAtrWithPeriod[float64](c.I[0])
				}
				return Inst{Obj: x, Compute: A31(x.Compute), Idle: x.IdlePeriod(), Declared: true}
			},
			// TR = Max(High-Low, High-PrevClose, PrevClose-Low); ATR = MA(TR).
			Ref: func(c Cfg, in [][]float64) [][]RV {
				tr := voTR(in[0], in[1], in[2])
				if c.S == "ema" {
					return One(Vals(EMA(tr, c.I[0], 2)))
				}
				return One(Vals(SMA(tr, c.I[0])))
			},
			Deg: []Degree{{1, 0}},
		},
		&Indicator{
			Name: "volatility.BollingerBandWidth", In: "p", Out: []string{"width"}, AnySign: true,
			Note:    "Compute takes the closings (not the bands): bands are SMA_P +/- 2*Std_P of the input; \"Middle BollingerBandWidth\" read as the middle band",
			Default: P(volatility.DefaultBollingerBandsPeriod),
			Rand:    func(r *gen.Rand) Cfg { return P(r.Range(1, 12)) },
			New: func(c Cfg) Inst {
				x := volatility.NewBollingerBandWidth[float64]()
				x.BollingerBands.Period = c.I[0]
				return Inst{Obj: x, Compute: A11(x.Compute), Idle: x.IdlePeriod(), Declared: true}
			},
			// Band Width = (Upper Band - Lower Band) / Middle Band.
			Ref: func(c Cfg, in [][]float64) [][]RV {
				u, m, l := voBands(in[0], c.I[0])
				out := make([]RV, len(m))
				for k := range m {
					out[k] = Quot(u[k]-l[k], m[k], 0)
				}
				return One(out)
			},
			Deg: []Degree{{0, 0}},
		},
		&Indicator{
			Name: "volatility.BollingerBands", In: "p", Out: []string{"upper", "middle", "lower"}, AnySign: true,
			Note:    "\"20-Period\" read as Period; Std = volatility.MovingStd (population standard deviation)",
			Default: P(volatility.DefaultBollingerBandsPeriod),
			Rand:    func(r *gen.Rand) Cfg { return P(r.Range(1, 12)) },
			New: func(c Cfg) Inst {
				x := volatility.NewBollingerBandsWithPeriod[float64](c.I[0])
				return Inst{Obj: x, Compute: A13(x.Compute), Idle: x.IdlePeriod(), Declared: true}
			},
			// Middle = SMA_P; Upper = SMA_P + 2*Std_P; Lower = SMA_P - 2*Std_P.
			Ref: func(c Cfg, in [][]float64) [][]RV {
				u, m, l := voBands(in[0], c.I[0])
				return [][]RV{Vals(u), Vals(m), Vals(l)}
			},
			Deg: []Degree{{1, 0}, {1, 0}, {1, 0}},
		},
		&Indicator{
			Name: "volatility.ChandelierExit", In: "hlc", Out: []string{"long", "short"},
			Note:    "\"22-Period SMA High/Low\" read as the highest high / lowest low of the period (as coded and conventional); ATR = SMA_P of the true range; 22 and 3 read as Period and Multiplier",
			Default: Cfg{I: []int{volatility.DefaultChandelierExitPeriod}, F: []float64{volatility.DefaultChandelierExitMultiplier}},
			Rand: func(r *gen.Rand) Cfg {
				return Cfg{I: []int{r.Range(1, 12)}, F: []float64{r.PickF(3, 3, 2, 1.5, 0.5)}}
			},
			New: func(c Cfg) Inst {
				x := volatility.NewChandelierExit[float64]()
				x.Period, x.Multiplier = c.I[0], c.F[0]
				return Inst{Obj: x, Compute: A32(x.Compute), Idle: x.IdlePeriod(), Declared: true}
			},
			// Long = HH_P - ATR_P*mult; Short = LL_P + ATR_P*mult (all at the same position).
			Ref: func(c Cfg, in [][]float64) [][]RV {
				p, mult := c.I[0], c.F[0]
				atr := SMA(voTR(in[0], in[1], in[2]), p) // position k+p
				hh := Tail(MovMax(in[0], p), 1)
				ll := Tail(MovMin(in[1], p), 1)
				return [][]RV{
					Vals(Zip2(hh, atr, func(a, b float64) float64 { return a - b*mult })),
					Vals(Zip2(ll, atr, func(a, b float64) float64 { return a + b*mult })),
				}
			},
			Deg: []Degree{{1, 0}, {1, 0}},
		},
		&Indicator{
			Name: "volatility.DonchianChannel", In: "p", Out: []string{"upper", "middle", "lower"}, AnySign: true,
			Default: P(volatility.DefaultDonchianChannelPeriod),
			Rand:    func(r *gen.Rand) Cfg { return P(r.Range(1, 12)) },
			New: func(c Cfg) Inst {
				x := volatility.NewDonchianChannelWithPeriod[float64](c.I[0])
				return Inst{Obj: x, Compute: A13(x.Compute), Idle: x.IdlePeriod(), Declared: true}
			},
			// Upper = Mmax(period), Lower = Mmin(period), Middle = (Upper+Lower)/2.
			Ref: func(c Cfg, in [][]float64) [][]RV {
				u, l := MovMax(in[0], c.I[0]), MovMin(in[0], c.I[0])
				return [][]RV{Vals(u), Vals(Zip2(u, l, func(a, b float64) float64 { return (a + b) / 2 })), Vals(l)}
			},
			Deg: []Degree{{1, 0}, {1, 0}, {1, 0}},
		},
		&Indicator{
			Name: "volatility.KeltnerChannel", In: "hlc", Out: []string{"upper", "middle", "lower"},
			Note:    "ATR(period) = volatility.Atr with its default MA (SMA_P of the true range); EMA = trend.Ema (seed SMA, multiplier 2/(P+1)); the constructor uses one period for both, the public Atr/Ema fields allow an EMA period <= ATR period + 1 (configuration = [ATR period, EMA period])",
			Default: P(volatility.DefaultKeltnerChannelPeriod, volatility.DefaultKeltnerChannelPeriod),
			Rand: func(r *gen.Rand) Cfg {
				a := r.Range(1, 12)
				if r.Intn(3) == 0 {
					return P(a, a)
				}
				return P(a, r.Range(1, a))
			},
			New: func(c Cfg) Inst {
				x := volatility.NewKeltnerChannelWithPeriod[float64](c.I[0])
				if c.I[1] != c.I[0] {
					x.Ema = trend.NewEmaWithPeriod[float64](c.I[1])
				}
				return Inst{Obj: x, Compute: A33(x.Compute), Idle: x.IdlePeriod(), Declared: true}
			},
			// Middle = EMA_Pe(close); Upper/Lower = Middle +/- 2*ATR_Pa (same position); w = Pa.
			Ref: func(c Cfg, in [][]float64) [][]RV {
				pa, pe := c.I[0], c.I[1]
				atr := SMA(voTR(in[0], in[1], in[2]), pa) // atr[k] at position k+pa
				mid := Tail(EMA(in[2], pe, 2), pa-(pe-1)) // ema[j] at position j+pe-1
				n := len(atr)
				if len(mid) < n {
					n = len(mid)
				}
				return [][]RV{
					Vals(Zip2(mid, atr, func(a, b float64) float64 { return a + 2*b })),
					Vals(mid[:n]),
					Vals(Zip2(mid, atr, func(a, b float64) float64 { return a - 2*b })),
				}
			},
			Deg: []Degree{{1, 0}, {1, 0}, {1, 0}},
		},
		&Indicator{
			Name: "volatility.MovingStd", In: "p", Out: []string{"std"}, AnySign: true,
			Default: P(volatility.DefaultMovingStdPeriod),
			Rand:    func(r *gen.Rand) Cfg { return P(r.Range(1, 12)) },
			New: func(c Cfg) Inst {
				x := volatility.NewMovingStdWithPeriod[float64](c.I[0])
				return Inst{Obj: x, Compute: A11(x.Compute), Idle: x.IdlePeriod(), Declared: true}
			},
			// Std = Sqrt(1/Period * Sum((value - sma)^2)).
			Ref: func(c Cfg, in [][]float64) [][]RV { return One(Vals(voStd(in[0], c.I[0]))) },
			Deg: []Degree{{1, 0}},
		},
		&Indicator{
			Name: "volatility.PercentB", In: "p", Out: []string{"percentB"},
			Note:    "bands = BollingerBands(Period) of the closings, Close taken at the bands' position; Period 1 excluded (Std is identically 0: 0/0 everywhere)",
			Default: P(volatility.DefaultBollingerBandsPeriod),
			Rand:    func(r *gen.Rand) Cfg { return P(r.Range(2, 12)) },
			New: func(c Cfg) Inst {
				x := volatility.NewPercentBWithPeriod[float64](c.I[0])
				return Inst{Obj: x, Compute: A11(x.Compute), Idle: x.IdlePeriod(), Declared: true}
			},
			// %B = (Close - Lower Band) / (Upper Band - Lower Band).
			Ref: func(c Cfg, in [][]float64) [][]RV {
				p := c.I[0]
				u, _, l := voBands(in[0], p)
				out := make([]RV, len(u))
				for k := range u {
					x := in[0][k+p-1]
					out[k] = Quot(x-l[k], u[k]-l[k], math.Abs(u[k])+math.Abs(l[k]))
					if !out[k].Ill {
						// Close - Lower Band cancels when Std is small against the price level
						out[k].S = (math.Abs(x) + math.Abs(l[k])) / math.Abs(u[k]-l[k])
					}
				}
				return One(out)
			},
			Deg: []Degree{{0, 0}},
		},
		&Indicator{
			Name: "volatility.Po", In: "hlc", Out: []string{"po"},
			Note: "MLS(period, x, y) read as the regression slope m of trend.Mls (the prose says \"uses the linear regression slope\"; as coded), x = 1,2,3..; " +
				"Period 1 excluded (the slope's divisor period*sumX2 - sumX^2 is 0)",
			Default: P(volatility.DefaultPoPeriod),
			Rand:    func(r *gen.Rand) Cfg { return P(r.Range(2, 12)) },
			New: func(c Cfg) Inst {
				x := volatility.NewPoWithPeriod[float64](c.I[0])
				return Inst{Obj: x, Compute: A31(x.Compute), Idle: x.IdlePeriod(), Declared: true}
			},
			Ref: func(c Cfg, in [][]float64) [][]RV { return One(voPo(c, in)) },
			Deg: []Degree{{0, 0}},
		},
		&Indicator{
			Name: "volatility.SuperTrend", In: "hlc", Out: []string{"superTrend"},
			Note: "ATR = volatility.Atr with the constructor's MA, trend.Hma(period) (documented WMA/HMA formulas, period/2 and sqrt(period) rounded); " +
				"the comment gives no first value: first final bands = basic bands, first SuperTrend = lower band (as coded); " +
				"UpTrend = the branch taken (code reading; differs from a literal SuperTrend == FinalUpperBand test only when both final bands coincide); " +
				"comparisons whose operands differ only by rounding are followed both ways and the position is exempt when the outcomes differ (exact equality is decisive)",
			Default: Cfg{I: []int{volatility.DefaultSuperTrendPeriod}, F: []float64{volatility.DefaultSuperTrendMultiplier}},
			Rand: func(r *gen.Rand) Cfg {
				return Cfg{I: []int{r.Range(1, 12)}, F: []float64{r.PickF(2.5, 2.5, 3, 2, 1, 0.5)}}
			},
			New: func(c Cfg) Inst {
				var x *volatility.SuperTrend[float64]
				if c.I[0] == volatility.DefaultSuperTrendPeriod && c.F[0] == volatility.DefaultSuperTrendMultiplier {
					x = volatility.NewSuperTrend[float64]()
				} else {
					x = volatility.NewSuperTrendWithPeriod[float64](c.I[0], c.F[0])
				}
				return Inst{Obj: x, Compute: A31(x.Compute), Idle: x.IdlePeriod(), Declared: true}
			},
			// The sentence "UpTrend = If (SuperTrend == FinalUpperBand)" is ambiguous when
			// both final bands coincide (ATR exactly 0): the reference follows the coded
			// reading (the branch taken is the trend), a tie case only.
			Ref: func(c Cfg, in [][]float64) [][]RV { return One(voSuperTrend(c, in, false)) },
			Deg: []Degree{{1, 0}},
		},
		&Indicator{
			Name: "volatility.UlcerIndex", In: "p", Out: []string{"ulcerIndex"},
			Default: P(volatility.DefaultUlcerIndexPeriod),
			Rand:    func(r *gen.Rand) Cfg { return P(r.Range(1, 12)) },
			New: func(c Cfg) Inst {
				x := volatility.NewUlcerIndex[float64]()
				x.Period = c.I[0]
				return Inst{Obj: x, Compute: A11(x.Compute), Idle: x.IdlePeriod(), Declared: true}
			},
			// HH = Max_P(close); PD = 100*(close-HH)/HH; UI = Sqrt(SMA_P(PD*PD)).
			Ref: func(c Cfg, in [][]float64) [][]RV { return One(voUlcer(c, in, true)) },
			Deg: []Degree{{0, 0}},
			Devs: []Dev{{
				Key:  "ulcer-square-of-mean",
				What: "the percentage drawdown is averaged first and the average squared, instead of averaging the squares: UI = sqrt((SMA_P(PD))^2) = |SMA_P(PD)|",
				Ref:  func(c Cfg, in [][]float64) [][]RV { return One(voUlcer(c, in, false)) },
			}},
		},
	)
}
