package reg

// Adaptors from the library's Compute signatures to the registry's uniform
// []chan -> []chan shape.

type ch = <-chan float64

// A11 adapts a 1-input 1-output Compute.
func A11(f func(ch) ch) func([]<-chan float64) []<-chan float64 {
	return func(in []<-chan float64) []<-chan float64 { return []<-chan float64{f(in[0])} }
}

// A12 adapts 1 -> 2.
func A12(f func(ch) (ch, ch)) func([]<-chan float64) []<-chan float64 {
	return func(in []<-chan float64) []<-chan float64 { a, b := f(in[0]); return []<-chan float64{a, b} }
}

// A13 adapts 1 -> 3.
func A13(f func(ch) (ch, ch, ch)) func([]<-chan float64) []<-chan float64 {
	return func(in []<-chan float64) []<-chan float64 { a, b, c := f(in[0]); return []<-chan float64{a, b, c} }
}

// A21 adapts 2 -> 1.
func A21(f func(ch, ch) ch) func([]<-chan float64) []<-chan float64 {
	return func(in []<-chan float64) []<-chan float64 { return []<-chan float64{f(in[0], in[1])} }
}

// A22 adapts 2 -> 2.
func A22(f func(ch, ch) (ch, ch)) func([]<-chan float64) []<-chan float64 {
	return func(in []<-chan float64) []<-chan float64 { a, b := f(in[0], in[1]); return []<-chan float64{a, b} }
}

// A31 adapts 3 -> 1.
func A31(f func(ch, ch, ch) ch) func([]<-chan float64) []<-chan float64 {
	return func(in []<-chan float64) []<-chan float64 { return []<-chan float64{f(in[0], in[1], in[2])} }
}

// A32 adapts 3 -> 2.
func A32(f func(ch, ch, ch) (ch, ch)) func([]<-chan float64) []<-chan float64 {
	return func(in []<-chan float64) []<-chan float64 {
		a, b := f(in[0], in[1], in[2])
		return []<-chan float64{a, b}
	}
}

// A33 adapts 3 -> 3.
func A33(f func(ch, ch, ch) (ch, ch, ch)) func([]<-chan float64) []<-chan float64 {
	return func(in []<-chan float64) []<-chan float64 {
		a, b, c := f(in[0], in[1], in[2])
		return []<-chan float64{a, b, c}
	}
}

// A35 adapts 3 -> 5.
func A35(f func(ch, ch, ch) (ch, ch, ch, ch, ch)) func([]<-chan float64) []<-chan float64 {
	return func(in []<-chan float64) []<-chan float64 {
		a, b, c, d, e := f(in[0], in[1], in[2])
		return []<-chan float64{a, b, c, d, e}
	}
}

// A41 adapts 4 -> 1.
func A41(f func(ch, ch, ch, ch) ch) func([]<-chan float64) []<-chan float64 {
	return func(in []<-chan float64) []<-chan float64 { return []<-chan float64{f(in[0], in[1], in[2], in[3])} }
}

// A42 adapts 4 -> 2.
func A42(f func(ch, ch, ch, ch) (ch, ch)) func([]<-chan float64) []<-chan float64 {
	return func(in []<-chan float64) []<-chan float64 {
		a, b := f(in[0], in[1], in[2], in[3])
		return []<-chan float64{a, b}
	}
}
