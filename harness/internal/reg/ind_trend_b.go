package reg

import (
	"math"

	"github.com/cinar/indicator/v2/trend"

	"verif/harness/internal/gen"
)

// Rows for trend: Aroon, Bop, Cci, Dema, Envelope, Hma, Kama, Kdj, MassIndex,
// Mlr, Mls, MovingMax, MovingMin, MovingSum.

// ---- private helpers (prefix tb) ----

// tbSmaRV is the simple moving average of reference values evaluated directly
// on each window; a window containing an ill term is ill.
func tbSmaRV(xs []RV, p int) []RV {
	out := tbSumRV(xs, p)
	for k := range out {
		out[k].V /= float64(p)
	}
	return out
}

// tbSumRV is the moving sum of reference values evaluated directly on each
// window; a window containing an ill term is ill.
func tbSumRV(xs []RV, p int) []RV {
	if len(xs) < p {
		return nil
	}
	out := make([]RV, len(xs)-p+1)
	for k := range out {
		s, ill := 0.0, false
		for _, x := range xs[k : k+p] {
			s += x.V
			ill = ill || x.Ill
		}
		out[k] = RV{V: s, Ill: ill || bad(s)}
	}
	return out
}

// tbTailRV drops the first k reference values.
func tbTailRV(xs []RV, k int) []RV {
	if k >= len(xs) {
		return nil
	}
	if k < 0 {
		k = 0
	}
	return xs[k:]
}

// tbAroonLine is one Aroon line. ext picks the window extreme (MaxOf/MinOf).
//
// Documented: 100*(P - periods since the P-bar window's extreme)/P, where
// "periods since" is the distance from the current bar back to the (most
// recent) bar inside the window that carries the extreme; unrounded.
//
// asBuilt flips the reading of "periods since" to the number of bars since
// the moving extreme last changed its value (counted from the first output,
// unbounded), and rounds the result to an integer.
func tbAroonLine(xs []float64, p int, ext func([]float64) float64, asBuilt bool) []RV {
	n := len(xs)
	if n < p {
		return nil
	}
	out := make([]RV, n-p+1)
	last, count := 0.0, 0
	for i := p - 1; i < n; i++ {
		win := Window(xs, i, p)
		e := ext(win)
		since := 0
		if asBuilt {
			if i == p-1 || e != last {
				last, count = e, 0
			} else {
				count++
			}
			since = count
		} else {
			for since = 0; since < p; since++ {
				if xs[i-since] == e {
					break
				}
			}
		}
		v := float64(p-since) / float64(p) * 100
		if asBuilt {
			v = math.Round(v)
		}
		out[i-p+1] = RV{V: v, Ill: bad(v)}
	}
	return out
}

// tbWMA is the weighted moving average as documented in trend/wma.go:
// ((Value1 * 1/N) + (Value2 * 2/N) + ... + (ValueN * N/N)) / 2, Value1 being
// the oldest value of the window; evaluated directly on each window.
func tbWMA(xs []float64, p int) []float64 {
	if len(xs) < p {
		return nil
	}
	out := make([]float64, len(xs)-p+1)
	for k := range out {
		s := 0.0
		for i := 0; i < p; i++ {
			s += xs[k+i] * float64(i+1) / float64(p)
		}
		out[k] = s / 2
	}
	return out
}

// tbHmaPeriods returns the three WMA periods of an HMA: round(P/2), P,
// round(sqrt P) (rounding half away from zero, as NewHmaWithPeriod).
func tbHmaPeriods(p int) (int, int, int) {
	return int(math.Round(float64(p) / 2)), p, int(math.Round(math.Sqrt(float64(p))))
}

// tbDema: documented DEMA[i] = 2*EMA1[i] - EMA2(EMA1)[i], both at position i.
// delayed=false reproduces the as-built pairing (2*EMA1 taken P2-1 positions
// early).
func tbDema(c Cfg, in [][]float64, delayed bool) [][]RV {
	p2 := c.I[1]
	e1 := EMA(in[0], c.I[0], 2)
	e2 := EMA(e1, p2, 2)
	if delayed {
		e1 = Tail(e1, p2-1)
	}
	return One(Vals(Zip2(e1, e2, func(a, b float64) float64 { return 2*a - b })))
}

// tbMls evaluates the documented least-squares formulas on the P-window ending
// at i: m, b and the fitted value m*x_i + b, each with its cancellation scale.
func tbMls(x, y []float64, i, p int) (m, b, r RV) {
	var sx, sy, sxy, sx2 float64
	for j := i - p + 1; j <= i; j++ {
		sx += x[j]
		sy += y[j]
		sxy += x[j] * y[j]
		sx2 += x[j] * x[j]
	}
	fp := float64(p)
	num := fp*sxy - sx*sy
	den := fp*sx2 - sx*sx
	m = Quot(num, den, math.Abs(fp*sx2))
	m.S = (math.Abs(fp*sxy) + math.Abs(sx*sy)) / math.Abs(den)
	bv := (sy - m.V*sx) / fp
	b = RV{V: bv, Ill: m.Ill || bad(bv), S: (math.Abs(sy) + math.Abs(m.V*sx) + m.S*math.Abs(sx)) / fp}
	rv := m.V*x[i] + bv
	r = RV{V: rv, Ill: m.Ill || bad(rv), S: math.Abs(m.V*x[i]) + math.Abs(bv) + m.S*math.Abs(x[i]) + b.S}
	if m.Ill {
		m.S, b.S, r.S = 0, 0, 0
	}
	return m, b, r
}

func tbEnvelopeMa(c Cfg) trend.Ma[float64] {
	if c.S == "ema" {
		return trend.NewEmaWithPeriod[float64](c.I[0])
	}
	return trend.NewSmaWithPeriod[float64](c.I[0])
}

func init() {
	Add(
		&Indicator{
			Name: "trend.Aroon", In: "hl", Out: []string{"up", "down"},
			Note:    "no IdlePeriod method: w = Period-1 implied by the P-bar window; 'period since last P-period high' read as the distance from the current bar back to the most recent bar of the window carrying the window's extreme (ties: most recent), result not rounded",
			Default: P(trend.DefaultAroonPeriod),
			Rand:    func(r *gen.Rand) Cfg { return P(r.Range(1, 12)) },
			New: func(c Cfg) Inst {
				x := trend.NewAroon[float64]()
				x.Period = c.I[0]
				return Inst{Obj: x, Compute: A22(x.Compute), Idle: c.I[0] - 1, Declared: false}
			},
			Ref: func(c Cfg, in [][]float64) [][]RV {
				return [][]RV{tbAroonLine(in[0], c.I[0], MaxOf, false), tbAroonLine(in[1], c.I[0], MinOf, false)}
			},
			Deg: []Degree{{0, 0}, {0, 0}},
			Devs: []Dev{{
				Key:  "aroon-since-extreme-changed-rounded",
				What: "'periods since' counts the bars since the moving max/min last changed its value (from the first output, unbounded: an extreme re-found elsewhere in the window resets it to 0, a plateau drives the line negative) instead of the distance to the extreme bar, and the line is rounded to an integer",
				Ref: func(c Cfg, in [][]float64) [][]RV {
					return [][]RV{tbAroonLine(in[0], c.I[0], MaxOf, true), tbAroonLine(in[1], c.I[0], MinOf, true)}
				},
			}},
		},
		&Indicator{
			Name: "trend.Bop", In: "ohlc", Out: []string{"bop"},
			Note:    "no IdlePeriod method: w = 0 (pointwise formula); ill where high == low",
			Default: Cfg{},
			Rand:    func(r *gen.Rand) Cfg { return Cfg{} },
			New: func(c Cfg) Inst {
				x := trend.NewBop[float64]()
				return Inst{Obj: x, Compute: A41(x.Compute), Idle: 0, Declared: false}
			},
			// BOP = (Closing - Opening) / (High - Low)
			Ref: func(c Cfg, in [][]float64) [][]RV {
				o, h, l, cl := in[0], in[1], in[2], in[3]
				out := make([]RV, len(cl))
				for i := range out {
					out[i] = Quot(cl[i]-o[i], h[i]-l[i], math.Max(math.Abs(h[i]), math.Abs(l[i])))
				}
				return One(out)
			},
			Deg: []Degree{{0, 0}},
		},
		&Indicator{
			Name: "trend.Cci", In: "hlc", Out: []string{"cci"},
			Note:    "typical price = (h+l+c)/3; the mean deviation pairs each typical price with the moving average at its own position (as the comment writes it), hence w = 2P-2; Period 1 is accepted but makes the mean deviation 0 everywhere (all ill)",
			Default: P(trend.DefaultCciPeriod),
			Rand:    func(r *gen.Rand) Cfg { return P(r.Range(1, 12)) },
			New: func(c Cfg) Inst {
				x := trend.NewCciWithPeriod[float64](c.I[0])
				return Inst{Obj: x, Compute: A31(x.Compute), Idle: x.IdlePeriod(), Declared: true}
			},
			// MA = Sma(P, TP); MD = Sma(P, |TP - MA|); CCI = (TP - MA)/(0.015*MD)
			Ref: func(c Cfg, in [][]float64) [][]RV {
				p := c.I[0]
				n := len(in[0])
				tp := make([]float64, n)
				for i := range tp {
					tp[i] = (in[0][i] + in[1][i] + in[2][i]) / 3
				}
				ma := SMA(tp, p) // ma[k] at position k+p-1
				dev := Zip2(Tail(tp, p-1), ma, func(t, m float64) float64 { return math.Abs(t - m) })
				md := SMA(dev, p) // md[k] at position k+2p-2
				out := make([]RV, len(md))
				pm := 0.0 // largest |TP| seen so far: bounds the residue a running sum may carry
				for i := 0; i < 2*p-2 && i < n; i++ {
					pm = math.Max(pm, math.Abs(tp[i]))
				}
				for k := range out {
					i := k + 2*p - 2
					pm = math.Max(pm, math.Abs(tp[i]))
					out[k] = Quot(tp[i]-ma[k+p-1], 0.015*md[k], 0.015*math.Abs(tp[i]))
					out[k].S = Resid(pm, 1/(0.015*md[k]))
				}
				return One(out)
			},
			Deg: []Degree{{0, 0}},
		},
		&Indicator{
			Name: "trend.Dema", In: "p", Out: []string{"dema"}, AnySign: true,
			Note:    "configuration = the two EMA periods (smoothing 2); both terms of 2*EMA1 - EMA2(EMA1) read at the same position",
			Default: P(trend.DefaultEmaPeriod, trend.DefaultEmaPeriod),
			Rand:    func(r *gen.Rand) Cfg { return P(r.Range(1, 12), r.Range(1, 12)) },
			New: func(c Cfg) Inst {
				x := trend.NewDema[float64]()
				x.Ema1.Period, x.Ema2.Period = c.I[0], c.I[1]
				return Inst{Obj: x, Compute: A11(x.Compute), Idle: x.IdlePeriod(), Declared: true}
			},
			// DEMA = (2 * EMA1(values)) - EMA2(EMA1(values))
			Ref: func(c Cfg, in [][]float64) [][]RV { return tbDema(c, in, true) },
			Deg: []Degree{{1, 0}},
			Devs: []Dev{{
				Key:  "dema-first-ema-not-delayed",
				What: "2*EMA1 is not delayed by Period2-1 before the subtraction: DEMA[k] = 2*EMA1[k+P1-1] - EMA2(EMA1)[k+P1+P2-2] (values P2-1 positions apart)",
				Ref:  func(c Cfg, in [][]float64) [][]RV { return tbDema(c, in, false) },
			}},
		},
		&Indicator{
			Name: "trend.Envelope", In: "c", Out: []string{"upper", "middle", "lower"}, RegGuard: true,
			Note:    "comment gives no formula: middle = moving average (S = sma|ema, smoothing 2), upper/lower = middle*(1 +/- Percentage/100)",
			Default: Cfg{I: []int{trend.DefaultEnvelopePeriod}, F: []float64{trend.DefaultEnvelopePercentage}, S: "sma"},
			Rand: func(r *gen.Rand) Cfg {
				s := "sma"
				if r.Bool() {
					s = "ema"
				}
				return Cfg{I: []int{r.Range(1, 12)}, F: []float64{r.PickF(0, 0.25, 0.5, 1, 5, 20, 50)}, S: s}
			},
			New: func(c Cfg) Inst {
				x := trend.NewEnvelope[float64](tbEnvelopeMa(c), c.F[0])
				return Inst{Obj: x, Compute: A13(x.Compute), Idle: x.IdlePeriod(), Declared: true}
			},
			Ref: func(c Cfg, in [][]float64) [][]RV {
				var ma []float64
				if c.S == "ema" {
					ma = EMA(in[0], c.I[0], 2)
				} else {
					ma = SMA(in[0], c.I[0])
				}
				up, lo := make([]float64, len(ma)), make([]float64, len(ma))
				for k, m := range ma {
					up[k] = m * (1 + c.F[0]/100)
					lo[k] = m * (1 - c.F[0]/100)
				}
				return [][]RV{Vals(up), Vals(ma), Vals(lo)}
			},
			Deg: []Degree{{1, 0}, {1, 0}, {1, 0}},
		},
		&Indicator{
			Name: "trend.Hma", In: "p", Out: []string{"hma"},
			Note:    "WMA as documented in trend/wma.go (weights i/N, oldest first, sum divided by 2); periods round(P/2), P, round(sqrt P) with half-away-from-zero rounding as in NewHmaWithPeriod; no default constructor: Default uses 14 (the period SuperTrend builds its HMA with)",
			Default: P(14),
			Rand:    func(r *gen.Rand) Cfg { return P(r.Range(1, 12)) },
			New: func(c Cfg) Inst {
				x := trend.NewHmaWithPeriod[float64](c.I[0])
				return Inst{Obj: x, Compute: A11(x.Compute), Idle: x.IdlePeriod(), Declared: true}
			},
			// WMA1 = WMA(period/2); WMA2 = WMA(period); HMA = WMA(sqrt(period), 2*WMA1 - WMA2)
			Ref: func(c Cfg, in [][]float64) [][]RV {
				p1, p2, p3 := tbHmaPeriods(c.I[0])
				w1 := Tail(tbWMA(in[0], p1), p2-p1)
				w2 := tbWMA(in[0], p2)
				return One(Vals(tbWMA(Zip2(w1, w2, func(a, b float64) float64 { return 2*a - b }), p3)))
			},
			Deg: []Degree{{1, 0}},
		},
		&Indicator{
			Name: "trend.Kama", In: "p", Out: []string{"kama"},
			Note:    "seed (comment silent; code reading): previous KAMA of the first output = closing at position ErPeriod-1; ill where the volatility sum is 0, and from then on (recursion)",
			Default: P(trend.DefaultKamaErPeriod, trend.DefaultKamaFastScPeriod, trend.DefaultKamaSlowScPeriod),
			Rand: func(r *gen.Rand) Cfg {
				f := r.Range(1, 12)
				return P(r.Range(1, 12), f, r.Range(f, 12))
			},
			New: func(c Cfg) Inst {
				x := trend.NewKamaWith[float64](c.I[0], c.I[1], c.I[2])
				return Inst{Obj: x, Compute: A11(x.Compute), Idle: x.IdlePeriod(), Declared: true}
			},
			// ER = |c - c[-er]| / Sum_er |c - c[-1]|; SC = (ER*(2/(f+1) - 2/(s+1)) + 2/(s+1))^2;
			// KAMA = prev + SC*(c - prev)
			Ref: func(c Cfg, in [][]float64) [][]RV {
				er := c.I[0]
				fast, slow := 2.0/float64(c.I[1]+1), 2.0/float64(c.I[2]+1)
				cl := in[0]
				n := len(cl)
				if n <= er {
					return One(nil)
				}
				out := make([]RV, n-er)
				k, ill := cl[er-1], false
				for i := er; i < n; i++ {
					vol, mag := 0.0, 0.0
					for j := i - er + 1; j <= i; j++ {
						vol += math.Abs(cl[j] - cl[j-1])
						mag = math.Max(mag, math.Abs(cl[j]))
					}
					q := Quot(math.Abs(cl[i]-cl[i-er]), vol, mag)
					sc := q.V*(fast-slow) + slow
					sc *= sc
					k += sc * (cl[i] - k)
					ill = ill || q.Ill || bad(k)
					out[i-er] = RV{V: k, Ill: ill}
				}
				return One(out)
			},
			Deg: []Degree{{1, 0}},
		},
		&Indicator{
			Name: "trend.Kdj", In: "hlc", Out: []string{"k", "d", "j"},
			Note:    "configuration = rPeriod (moving max and min), kPeriod, dPeriod; ill where highest high == lowest low inside a window feeding the value",
			Default: P(trend.DefaultKdjMinMaxPeriod, trend.DefaultKdjSma1Period, trend.DefaultKdjSma2Period),
			Rand:    func(r *gen.Rand) Cfg { return P(r.Range(1, 12), r.Range(1, 12), r.Range(1, 12)) },
			New: func(c Cfg) Inst {
				x := trend.NewKdj[float64]()
				x.MovingMax.Period, x.MovingMin.Period = c.I[0], c.I[0]
				x.Sma1.Period, x.Sma2.Period = c.I[1], c.I[2]
				return Inst{Obj: x, Compute: A33(x.Compute), Idle: x.IdlePeriod(), Declared: true}
			},
			// RSV = 100*(C - Min(L,r))/(Max(H,r) - Min(L,r)); K = Sma(RSV,k); D = Sma(K,d); J = 3K - 2D
			Ref: func(c Cfg, in [][]float64) [][]RV {
				rp, kp, dp := c.I[0], c.I[1], c.I[2]
				hh, ll := MovMax(in[0], rp), MovMin(in[1], rp)
				rsv := make([]RV, len(hh))
				for k := range rsv {
					q := Quot(in[2][k+rp-1]-ll[k], hh[k]-ll[k], math.Abs(hh[k]))
					q.V *= 100
					rsv[k] = q
				}
				ks := tbSmaRV(rsv, kp)
				ds := tbSmaRV(ks, dp)
				ks = tbTailRV(ks, dp-1)
				js := make([]RV, len(ds))
				for k := range js {
					js[k] = RV{V: 3*ks[k].V - 2*ds[k].V, Ill: ks[k].Ill || ds[k].Ill}
				}
				return [][]RV{ks[:len(ds)], ds, js}
			},
			Deg: []Degree{{0, 0}, {0, 0}, {0, 0}},
		},
		&Indicator{
			Name: "trend.MassIndex", In: "hl", Out: []string{"mi"},
			Note:    "configuration = EMA1 period, EMA2 period, sum period (smoothing 2); the ratio pairs Single EMA and Double EMA at the same position; ill where the double EMA is 0 inside the sum window",
			Default: P(trend.DefaultMassIndexPeriod1, trend.DefaultMassIndexPeriod2, trend.DefaultMassIndexPeriod3),
			Rand:    func(r *gen.Rand) Cfg { return P(r.Range(1, 12), r.Range(1, 12), r.Range(1, 12)) },
			New: func(c Cfg) Inst {
				x := trend.NewMassIndex[float64]()
				x.Ema1.Period, x.Ema2.Period, x.MovingSum.Period = c.I[0], c.I[1], c.I[2]
				return Inst{Obj: x, Compute: A21(x.Compute), Idle: x.IdlePeriod(), Declared: true}
			},
			// Single = EMA(e1, H-L); Double = EMA(e2, Single); Ratio = Single/Double; MI = SUM(Ratio, s)
			Ref: func(c Cfg, in [][]float64) [][]RV {
				p1, p2, p3 := c.I[0], c.I[1], c.I[2]
				rng := Zip2(in[0], in[1], func(h, l float64) float64 { return h - l })
				e1 := EMA(rng, p1, 2)
				e2 := EMA(e1, p2, 2)
				ratio := make([]RV, len(e2))
				for k := range ratio {
					ratio[k] = Quot(e1[k+p2-1], e2[k], 0)
				}
				return One(tbSumRV(ratio, p3))
			},
			Deg: []Degree{{0, 0}},
		},
		&Indicator{
			Name: "trend.Mlr", In: "tc", Out: []string{"mlr"},
			Note:    "value = m*x + b at the current x with m, b of the P-window least-squares fit (trend.Mls); no default constructor: Default uses 14 (the comment's example); Period 1 excluded (the slope's denominator P*sumX2 - sumX^2 is identically 0; the library accepts it and yields NaN); for small P and a long time index the denominator is a cancelled difference (P=2: t > 500, P=3: t > 816) and those positions are ill",
			Default: P(14),
			Rand:    func(r *gen.Rand) Cfg { return P(r.Range(2, 12)) },
			New: func(c Cfg) Inst {
				x := trend.NewMlrWithPeriod[float64](c.I[0])
				return Inst{Obj: x, Compute: A21(x.Compute), Idle: x.IdlePeriod(), Declared: true}
			},
			Ref: func(c Cfg, in [][]float64) [][]RV {
				p := c.I[0]
				n := len(in[0])
				if n < p {
					return One(nil)
				}
				out := make([]RV, n-p+1)
				for i := p - 1; i < n; i++ {
					_, _, out[i-p+1] = tbMls(in[0], in[1], i, p)
				}
				return One(out)
			},
			Deg: []Degree{{1, 0}},
		},
		&Indicator{
			Name: "trend.Mls", In: "tc", Out: []string{"m", "b"},
			Note:    "sums taken over the last P (x,y) pairs; no default constructor: Default uses 14 (the comment's example); Period 1 excluded (the denominator P*sumX2 - sumX^2 is identically 0; the library accepts it and yields NaN); for small P and a long time index the denominator is a cancelled difference (P=2: t > 500, P=3: t > 816) and those positions are ill; RV.S = cancelling terms / denominator",
			Default: P(14),
			Rand:    func(r *gen.Rand) Cfg { return P(r.Range(2, 12)) },
			New: func(c Cfg) Inst {
				x := trend.NewMlsWithPeriod[float64](c.I[0])
				return Inst{Obj: x, Compute: A22(x.Compute), Idle: x.IdlePeriod(), Declared: true}
			},
			// m = (P*sumXY - sumX*sumY)/(P*sumX2 - sumX*sumX); b = (sumY - m*sumX)/P
			Ref: func(c Cfg, in [][]float64) [][]RV {
				p := c.I[0]
				n := len(in[0])
				if n < p {
					return [][]RV{nil, nil}
				}
				ms, bs := make([]RV, n-p+1), make([]RV, n-p+1)
				for i := p - 1; i < n; i++ {
					ms[i-p+1], bs[i-p+1], _ = tbMls(in[0], in[1], i, p)
				}
				return [][]RV{ms, bs}
			},
			Deg: []Degree{{1, 0}, {1, 0}},
		},
		&Indicator{
			Name: "trend.MovingMax", In: "p", Out: []string{"max"}, AnySign: true,
			Note:    "NewMovingMax leaves Period 0 (no usable default): Default uses 9, the period KDJ gives it",
			Default: P(trend.DefaultKdjMinMaxPeriod),
			Rand:    func(r *gen.Rand) Cfg { return P(r.Range(1, 12)) },
			New: func(c Cfg) Inst {
				x := trend.NewMovingMaxWithPeriod[float64](c.I[0])
				return Inst{Obj: x, Compute: A11(x.Compute), Idle: x.IdlePeriod(), Declared: true}
			},
			Ref: func(c Cfg, in [][]float64) [][]RV { return One(Vals(MovMax(in[0], c.I[0]))) },
			Deg: []Degree{{1, 0}},
		},
		&Indicator{
			Name: "trend.MovingMin", In: "p", Out: []string{"min"}, AnySign: true,
			Note:    "NewMovingMin leaves Period 0 (no usable default): Default uses 9, the period KDJ gives it",
			Default: P(trend.DefaultKdjMinMaxPeriod),
			Rand:    func(r *gen.Rand) Cfg { return P(r.Range(1, 12)) },
			New: func(c Cfg) Inst {
				x := trend.NewMovingMinWithPeriod[float64](c.I[0])
				return Inst{Obj: x, Compute: A11(x.Compute), Idle: x.IdlePeriod(), Declared: true}
			},
			Ref: func(c Cfg, in [][]float64) [][]RV { return One(Vals(MovMin(in[0], c.I[0]))) },
			Deg: []Degree{{1, 0}},
		},
		&Indicator{
			Name: "trend.MovingSum", In: "p", Out: []string{"sum"}, AnySign: true,
			Default: P(1),
			Rand:    func(r *gen.Rand) Cfg { return P(r.Range(1, 12)) },
			New: func(c Cfg) Inst {
				x := trend.NewMovingSumWithPeriod[float64](c.I[0])
				return Inst{Obj: x, Compute: A11(x.Compute), Idle: x.IdlePeriod(), Declared: true}
			},
			Ref: func(c Cfg, in [][]float64) [][]RV { return One(Vals(MovSum(in[0], c.I[0]))) },
			Deg: []Degree{{1, 0}},
		},
	)
}
