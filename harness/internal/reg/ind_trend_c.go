package reg

import (
	"github.com/cinar/indicator/v2/trend"

	"verif/harness/internal/gen"
)

// Rows for trend.Rma .. trend.Wma. Every Ref is written from the doc comment
// above the type, evaluated directly on slices.

// tcPeriod draws a period in [1,12], hitting the edge 1 now and then.
func tcPeriod(r *gen.Rand) int {
	if r.Intn(8) == 0 {
		return 1
	}
	return r.Range(1, 12)
}

// tcTema: TEMA = 3*EMA1 - 3*EMA2 + EMA3, all three taken at the same input
// position (EMA2 = EMA_p2(EMA1), EMA3 = EMA_p3(EMA2)).
func tcTema(x []float64, p1, p2, p3 int) []RV {
	e1 := EMA(x, p1, 2)
	e2 := EMA(e1, p2, 2)
	e3 := EMA(e2, p3, 2)
	a1 := Tail(e1, (p2-1)+(p3-1))
	a2 := Tail(e2, p3-1)
	out := make([]float64, len(e3))
	for k := range e3 {
		out[k] = 3*a1[k] - 3*a2[k] + e3[k]
	}
	return Vals(out)
}

// tcTrimaSplit is the documented split of the TRIMA period:
// even: outer = P/2, inner = P/2+1; odd: outer = inner = (P+1)/2.
func tcTrimaSplit(p int) (outer, inner int) {
	if p%2 == 0 {
		return p / 2, p/2 + 1
	}
	return (p + 1) / 2, (p + 1) / 2
}

// tcTsi: 100 * EMA_outer(EMA_inner(dc)) / EMA_outer(EMA_inner(|dc|)).
func tcTsi(c []float64, inner, outer int) []RV {
	if len(c) < 2 {
		return nil
	}
	d := make([]float64, len(c)-1)
	a := make([]float64, len(c)-1)
	for i := 1; i < len(c); i++ {
		d[i-1] = c[i] - c[i-1]
		if d[i-1] < 0 {
			a[i-1] = -d[i-1]
		} else {
			a[i-1] = d[i-1]
		}
	}
	num := EMA(EMA(d, inner, 2), outer, 2)
	den := EMA(EMA(a, inner, 2), outer, 2)
	out := make([]RV, len(num))
	for k := range num {
		// den is an average of non-negative terms: it does not cancel, it is
		// only ever exactly zero (no price change in the whole history).
		q := Quot(num[k], den[k], 0)
		q.V *= 100
		out[k] = q
	}
	return out
}

// tcWma: ((x_1 * 1/N) + (x_2 * 2/N) + ... + (x_N * N/N)) / 2, x_N the most
// recent value of the window.
func tcWma(x []float64, n int) []RV {
	if len(x) < n {
		return nil
	}
	out := make([]float64, len(x)-n+1)
	for k := range out {
		s := 0.0
		for j := 1; j <= n; j++ {
			s += x[k+j-1] * float64(j) / float64(n)
		}
		out[k] = s / 2
	}
	return Vals(out)
}

func init() {
	Add(
		&Indicator{
			Name: "trend.Rma", In: "p", Out: []string{"rma"}, AnySign: true,
			Note:    "R[0..p-1] 'is SMA(values)' read as: the first emitted value (input position p-1) is the SMA of the first p values",
			Default: P(trend.DefaultRmaPeriod),
			Rand:    func(r *gen.Rand) Cfg { return P(tcPeriod(r)) },
			New: func(c Cfg) Inst {
				x := trend.NewRmaWithPeriod[float64](c.I[0])
				return Inst{Obj: x, Compute: A11(x.Compute), Idle: x.IdlePeriod(), Declared: true}
			},
			// seed SMA_p of the first p values, then R = (R*(p-1) + v)/p.
			Ref: func(c Cfg, in [][]float64) [][]RV { return One(Vals(RMA(in[0], c.I[0]))) },
			Deg: []Degree{{1, 0}},
		},
		&Indicator{
			Name: "trend.Smma", In: "p", Out: []string{"smma"}, AnySign: true,
			Default: P(trend.DefaultSmmaPeriod),
			Rand:    func(r *gen.Rand) Cfg { return P(tcPeriod(r)) },
			New: func(c Cfg) Inst {
				x := trend.NewSmmaWithPeriod[float64](c.I[0])
				return Inst{Obj: x, Compute: A11(x.Compute), Idle: x.IdlePeriod(), Declared: true}
			},
			// SMMA[0] = SMA(N); SMMA[i] = (SMMA[i-1]*(N-1) + Close[i])/N.
			Ref: func(c Cfg, in [][]float64) [][]RV { return One(Vals(RMA(in[0], c.I[0]))) },
			Deg: []Degree{{1, 0}},
		},
		&Indicator{
			Name: "trend.Tema", In: "p", Out: []string{"tema"}, AnySign: true,
			Note:    "configuration is the Period of the three exported Ema fields (Smoothing left at 2); the three EMAs are read at the same input position",
			Default: P(trend.DefaultEmaPeriod, trend.DefaultEmaPeriod, trend.DefaultEmaPeriod),
			Rand: func(r *gen.Rand) Cfg {
				if r.Intn(4) == 0 {
					p := tcPeriod(r)
					return P(p, p, p)
				}
				return P(tcPeriod(r), tcPeriod(r), tcPeriod(r))
			},
			New: func(c Cfg) Inst {
				x := trend.NewTema[float64]()
				x.Ema1.Period, x.Ema2.Period, x.Ema3.Period = c.I[0], c.I[1], c.I[2]
				return Inst{Obj: x, Compute: A11(x.Compute), Idle: x.IdlePeriod(), Declared: true}
			},
			Ref: func(c Cfg, in [][]float64) [][]RV { return One(tcTema(in[0], c.I[0], c.I[1], c.I[2])) },
			Deg: []Degree{{1, 0}},
		},
		&Indicator{
			Name: "trend.Trima", In: "p", Out: []string{"trima"}, AnySign: true,
			Default: P(trend.DefaultTrimaPeriod),
			Rand:    func(r *gen.Rand) Cfg { return P(tcPeriod(r)) },
			New: func(c Cfg) Inst {
				x := trend.NewTrima[float64]()
				x.Period = c.I[0]
				return Inst{Obj: x, Compute: A11(x.Compute), Idle: x.IdlePeriod(), Declared: true}
			},
			// even P: SMA_{P/2}(SMA_{P/2+1}(values)); odd P: SMA_{(P+1)/2} twice.
			Ref: func(c Cfg, in [][]float64) [][]RV {
				outer, inner := tcTrimaSplit(c.I[0])
				return One(Vals(SMA(SMA(in[0], inner), outer)))
			},
			Deg: []Degree{{1, 0}},
		},
		&Indicator{
			Name: "trend.Trix", In: "p", Out: []string{"trix"},
			Default: P(trend.DefaultTrixPeriod),
			Rand:    func(r *gen.Rand) Cfg { return P(tcPeriod(r)) },
			New: func(c Cfg) Inst {
				x := trend.NewTrix[float64]()
				x.Period = c.I[0]
				return Inst{Obj: x, Compute: A11(x.Compute), Idle: x.IdlePeriod(), Declared: true}
			},
			// TRIX = (EMA3 - previous EMA3) / previous EMA3, EMA3 = EMA(EMA(EMA(values))).
			Ref: func(c Cfg, in [][]float64) [][]RV {
				p := c.I[0]
				e3 := EMA(EMA(EMA(in[0], p, 2), p, 2), p, 2)
				if len(e3) < 2 {
					return One(nil)
				}
				out := make([]RV, len(e3)-1)
				for k := range out {
					out[k] = Quot(e3[k+1]-e3[k], e3[k], 0)
				}
				return One(out)
			},
			Deg: []Degree{{0, 0}},
		},
		&Indicator{
			Name: "trend.Tsi", In: "p", Out: []string{"tsi"},
			Note:    "the comment writes the periods as literals: Ema(13, Ema(25, .)); read as Ema(second, Ema(first, .)) since the defaults are first=25, second=13 (the first smoothing is applied first, innermost)",
			Default: P(trend.DefaultTsiFirstSmoothingPeriod, trend.DefaultTsiSecondSmoothingPeriod),
			Rand: func(r *gen.Rand) Cfg {
				if r.Intn(6) == 0 {
					p := tcPeriod(r)
					return P(p, p)
				}
				return P(tcPeriod(r), tcPeriod(r))
			},
			New: func(c Cfg) Inst {
				x := trend.NewTsiWith[float64](c.I[0], c.I[1])
				return Inst{Obj: x, Compute: A11(x.Compute), Idle: x.IdlePeriod(), Declared: true}
			},
			// PCDS = Ema(second, Ema(first, dc)); APCDS likewise on |dc|; TSI = 100*PCDS/APCDS.
			Ref: func(c Cfg, in [][]float64) [][]RV { return One(tcTsi(in[0], c.I[0], c.I[1])) },
			Deg: []Degree{{0, 0}},
			Devs: []Dev{{
				Key:  "tsi-smoothing-order-swapped",
				What: "the two smoothings are applied in the opposite order: the second smoothing (default 13) is innermost and the first (default 25) outermost, i.e. Ema(first, Ema(second, .)) instead of the documented Ema(second, Ema(first, .))",
				Ref:  func(c Cfg, in [][]float64) [][]RV { return One(tcTsi(in[0], c.I[1], c.I[0])) },
			}},
		},
		&Indicator{
			Name: "trend.TypicalPrice", In: "hlc", Out: []string{"typical"},
			Note:    "no IdlePeriod method: warm-up 0 implied by the bar-wise formula",
			Default: Cfg{},
			Rand:    func(r *gen.Rand) Cfg { return Cfg{} },
			New: func(c Cfg) Inst {
				x := trend.NewTypicalPrice[float64]()
				return Inst{Obj: x, Compute: A31(x.Compute), Idle: 0, Declared: false}
			},
			// (High + Low + Closing) / 3.
			Ref: func(c Cfg, in [][]float64) [][]RV {
				h, l, cl := in[0], in[1], in[2]
				out := make([]float64, len(cl))
				for i := range out {
					out[i] = (h[i] + l[i] + cl[i]) / 3
				}
				return One(Vals(out))
			},
			Deg: []Degree{{1, 0}},
		},
		&Indicator{
			Name: "trend.Vwma", In: "cv", Out: []string{"vwma"},
			Note:    "Sum read as the sum over the last Period bars",
			Default: P(trend.DefaultVwmaPeriod),
			Rand:    func(r *gen.Rand) Cfg { return P(tcPeriod(r)) },
			New: func(c Cfg) Inst {
				x := trend.NewVwma[float64]()
				x.Period = c.I[0]
				return Inst{Obj: x, Compute: A21(x.Compute), Idle: x.IdlePeriod(), Declared: true}
			},
			// Sum_P(Price*Volume) / Sum_P(Volume).
			Ref: func(c Cfg, in [][]float64) [][]RV {
				p := c.I[0]
				cl, v := in[0], in[1]
				pv := Zip2(cl, v, func(a, b float64) float64 { return a * b })
				num := MovSum(pv, p)
				den := MovSum(v, p)
				out := make([]RV, len(num))
				mpv, mv := PrefixAbsMax(pv), PrefixAbsMax(v)
				for k := range out {
					// den is a sum of non-negative volumes: no cancellation,
					// undefined only when every volume in the window is zero.
					out[k] = Quot(num[k], den[k], 0)
					out[k].S = RatioResid(mpv[k+p-1], mv[k+p-1], num[k], den[k])
				}
				return One(out)
			},
			Deg: []Degree{{1, 0}},
		},
		&Indicator{
			Name: "trend.WeightedClose", In: "hlc", Out: []string{"wclose"},
			Default: Cfg{},
			Rand:    func(r *gen.Rand) Cfg { return Cfg{} },
			New: func(c Cfg) Inst {
				x := trend.NewWeightedClose[float64]()
				return Inst{Obj: x, Compute: A31(x.Compute), Idle: x.IdlePeriod(), Declared: true}
			},
			// (High + Low + Close*2) / 4.
			Ref: func(c Cfg, in [][]float64) [][]RV {
				h, l, cl := in[0], in[1], in[2]
				out := make([]float64, len(cl))
				for i := range out {
					out[i] = (h[i] + l[i] + cl[i]*2) / 4
				}
				return One(Vals(out))
			},
			Deg: []Degree{{1, 0}},
		},
		&Indicator{
			Name: "trend.Wma", In: "p", Out: []string{"wma"}, AnySign: true,
			Note:    "reference is the comment taken literally, ((V1*1/N)+(V2*2/N)+...+(VN*N/N))/2 with VN the most recent value; its weights sum to (N+1)/4, so it is a weighted average only for N=3 (a constant series c yields c*(N+1)/4); the library has no default period, 3 (the period of its own test) is used",
			Default: P(3),
			Rand:    func(r *gen.Rand) Cfg { return P(tcPeriod(r)) },
			New: func(c Cfg) Inst {
				x := trend.NewWmaWith[float64](c.I[0])
				return Inst{Obj: x, Compute: A11(x.Compute), Idle: x.IdlePeriod(), Declared: true}
			},
			Ref: func(c Cfg, in [][]float64) [][]RV { return One(tcWma(in[0], c.I[0])) },
			Deg: []Degree{{1, 0}},
		},
	)
}
