package reg

import (
	"strings"

	"github.com/cinar/indicator/v2/asset"
	"github.com/cinar/indicator/v2/strategy"
	st "github.com/cinar/indicator/v2/strategy/trend"
	"github.com/cinar/indicator/v2/trend"

	"verif/harness/internal/gen"
)

// Strategy rows: trend.Smma … trend.WeightedClose, strategy.BuyAndHold.

func init() {
	rows := []*Strat{
		&Strat{
			Name: "trend.SmmaStrategy", InRegistry: true,
			Default: P(st.DefaultSmmaStrategyShortPeriod, st.DefaultSmmaStrategyLongPeriod),
			// The strategy synchronises by the largest period, so the order of
			// the two periods is free; equal periods (both averages identical,
			// every position exempt) are avoided.
			Rand: func(r *gen.Rand) Cfg {
				a, b := r.Range(1, 12), r.Range(1, 11)
				if b >= a {
					b++
				}
				return P(a, b)
			},
			New: func(c Cfg) strategy.Strategy {
				return st.NewSmmaStrategyWith(c.I[0], c.I[1])
			},
			Warm: func(s strategy.Strategy) int {
				x := s.(*st.SmmaStrategy)
				return max(x.ShortSmma.IdlePeriod(), x.LongSmma.IdlePeriod())
			},
			// Buy while short SMMA > long SMMA, Sell while long > short.
			Rule: s2SmmaRule,
			Devs: []StratDev{{
				Key:  "smma-shift-by-period",
				What: "actions are shifted by the largest period instead of the largest warm-up (period-1): n+1 actions, every recommendation one snapshot late (and, the fills being sent unconditionally, never fewer than max-period actions)",
				Rule: func(s strategy.Strategy, snaps []*asset.Snapshot) []RuleVal {
					x := s.(*st.SmmaStrategy)
					r := append(Holds(1), s2SmmaRule(s, snaps)...)
					return s2Pad(r, max(x.ShortSmma.Period, x.LongSmma.Period))
				},
			}},
			Note: "doc says 'crossing above/below'; read as the level rule short>long Buy, long>short Sell (what every MA-pair strategy of the package does)",
		},
		&Strat{
			Name: "trend.TrimaStrategy", InRegistry: true,
			Default: P(st.DefaultTrimaStrategyShortPeriod, st.DefaultTrimaStrategyLongPeriod),
			// short < long: the strategy aligns the short stream by skipping
			// Long.IdlePeriod()-Short.IdlePeriod() values, which only works when
			// that difference is non-negative.
			Rand: func(r *gen.Rand) Cfg {
				l := r.Range(2, 12)
				return P(r.Range(1, l-1), l)
			},
			New: func(c Cfg) strategy.Strategy {
				x := st.NewTrimaStrategy()
				x.Short.Period, x.Long.Period = c.I[0], c.I[1]
				return x
			},
			Warm: func(s strategy.Strategy) int {
				x := s.(*st.TrimaStrategy)
				return max(x.Short.IdlePeriod(), x.Long.IdlePeriod())
			},
			// Buy while short TRIMA > long TRIMA, Sell while long > short.
			Rule: func(s strategy.Strategy, snaps []*asset.Snapshot) []RuleVal {
				x := s.(*st.TrimaStrategy)
				c := Col(snaps, 'c')
				sh := Collect(x.Short.Compute(Ch(c)))[0]
				lo := Collect(x.Long.Compute(Ch(c)))[0]
				return s2PairRule(snaps, sh, x.Short.IdlePeriod(), lo, x.Long.IdlePeriod())
			},
			Note: "doc: 'bullish cross when the short TRIMA moves above the long'; read as level rule. Rand keeps short<long (with short>long the as-built alignment Skip(negative) is a no-op and the streams are misaligned)",
		},
		&Strat{
			Name: "trend.TripleMovingAverageCrossoverStrategy", InRegistry: true,
			Default: P(st.DefaultTripleMovingAverageCrossoverStrategyFastPeriod,
				st.DefaultTripleMovingAverageCrossoverStrategyMediumPeriod,
				st.DefaultTripleMovingAverageCrossoverStrategySlowPeriod),
			// fast < medium <= slow (the strategy aligns on the slow EMA; fast ==
			// medium would make every position exempt).
			Rand: func(r *gen.Rand) Cfg {
				sl := r.Range(2, 12)
				m := r.Range(2, sl)
				return P(r.Range(1, m-1), m, sl)
			},
			New: func(c Cfg) strategy.Strategy {
				return st.NewTripleMovingAverageCrossoverStrategyWith(c.I[0], c.I[1], c.I[2])
			},
			Warm: func(s strategy.Strategy) int {
				x := s.(*st.TripleMovingAverageCrossoverStrategy)
				return max(x.FastEma.IdlePeriod(), x.MediumEma.IdlePeriod(), x.SlowEma.IdlePeriod())
			},
			// Buy while fast EMA > medium and > slow; Sell while fast < both.
			Rule: func(s strategy.Strategy, snaps []*asset.Snapshot) []RuleVal {
				x := s.(*st.TripleMovingAverageCrossoverStrategy)
				c := Col(snaps, 'c')
				fa := Collect(x.FastEma.Compute(Ch(c)))[0]
				me := Collect(x.MediumEma.Compute(Ch(c)))[0]
				sl := Collect(x.SlowEma.Compute(Ch(c)))[0]
				wf, wm, wl := x.FastEma.IdlePeriod(), x.MediumEma.IdlePeriod(), x.SlowEma.IdlePeriod()
				w := max(wf, wm, wl)
				out := Holds(len(snaps))
				for i := w; i < len(snaps); i++ {
					f, ok1 := At(fa, i, wf)
					m, ok2 := At(me, i, wm)
					l, ok3 := At(sl, i, wl)
					if !ok1 || !ok2 || !ok3 {
						continue
					}
					if Near(f, m, snaps[i].Close) || Near(f, l, snaps[i].Close) {
						out[i].Exempt = true
						continue
					}
					switch {
					case f > m && f > l:
						out[i].A = strategy.Buy
					case f < m && f < l:
						out[i].A = strategy.Sell
					}
				}
				return out
			},
			Note: "doc: Buy when the fastest EMA 'crosses above both the medium and slowest'; read as level rule fast above both / below both (no requirement medium>slow). Rand keeps fast<medium<=slow",
		},
		&Strat{
			Name: "trend.TrixStrategy", InRegistry: false,
			Default: P(trend.DefaultTrixPeriod),
			Rand:    func(r *gen.Rand) Cfg { return P(r.Range(1, 12)) },
			New: func(c Cfg) strategy.Strategy {
				x := st.NewTrixStrategy()
				x.Trix.Period = c.I[0]
				return x
			},
			Warm: func(s strategy.Strategy) int { return s.(*st.TrixStrategy).Trix.IdlePeriod() },
			// Buy while TRIX > 0, Sell while TRIX < 0.
			Rule: func(s strategy.Strategy, snaps []*asset.Snapshot) []RuleVal {
				x := s.(*st.TrixStrategy)
				w := x.Trix.IdlePeriod()
				tr := Collect(x.Trix.Compute(Ch(Col(snaps, 'c'))))[0]
				out := Holds(len(snaps))
				for i := w; i < len(snaps); i++ {
					v, ok := At(tr, i, w)
					if !ok {
						continue
					}
					if Near(v, 0, 1) {
						out[i].Exempt = true
						continue
					}
					if v > 0 {
						out[i].A = strategy.Buy
					} else if v < 0 {
						out[i].A = strategy.Sell
					}
				}
				return out
			},
			Note: "doc says 'crossing above/below the zero line'; read as level rule TRIX>0 Buy, TRIX<0 Sell. Not returned by AllStrategies()",
		},
		&Strat{
			Name: "trend.TsiStrategy", InRegistry: true,
			Default: P(trend.DefaultTsiFirstSmoothingPeriod, trend.DefaultTsiSecondSmoothingPeriod, st.DefaultTsiStrategySignalPeriod),
			// Signal period 1 is avoided: EMA(1) of TSI is TSI itself, so the
			// strategy can only Hold.
			Rand: func(r *gen.Rand) Cfg { return P(r.Range(1, 12), r.Range(1, 12), r.Range(2, 12)) },
			New: func(c Cfg) strategy.Strategy {
				return st.NewTsiStrategyWith(c.I[0], c.I[1], c.I[2])
			},
			Warm: func(s strategy.Strategy) int {
				x := s.(*st.TsiStrategy)
				return x.Tsi.IdlePeriod() + x.Signal.IdlePeriod()
			},
			// Signal = MA of TSI. Buy when TSI > 0 and TSI > signal; Sell when
			// TSI < 0 and TSI < signal.
			Rule: func(s strategy.Strategy, snaps []*asset.Snapshot) []RuleVal {
				x := s.(*st.TsiStrategy)
				wt := x.Tsi.IdlePeriod()
				ws := wt + x.Signal.IdlePeriod()
				tsi := Collect(x.Tsi.Compute(Ch(Col(snaps, 'c'))))[0]
				sig := Collect(x.Signal.Compute(Ch(tsi)))[0]
				out := Holds(len(snaps))
				for i := ws; i < len(snaps); i++ {
					t, ok1 := At(tsi, i, wt)
					g, ok2 := At(sig, i, ws)
					if !ok1 || !ok2 {
						continue
					}
					if Near(t, 0, 1) || Near(t, g, 1) {
						out[i].Exempt = true
						continue
					}
					switch {
					case t > 0 && t > g:
						out[i].A = strategy.Buy
					case t < 0 && t < g:
						out[i].A = strategy.Sell
					}
				}
				return out
			},
			Note: "doc formula lines taken literally (level rule): TSI>0 and TSI>signal Buy; TSI<0 and TSI<signal Sell. A zero price change in the window's start (0/0) makes TSI and then the EMA signal NaN for the rest of the series: exempt",
		},
		&Strat{
			Name: "trend.VwmaStrategy", InRegistry: true,
			Default: P(st.DefaultVwmaStrategyPeriod),
			// One period for both the VWMA and the SMA (the strategy has a single
			// period constant and does not synchronise the two streams). Period
			// 1 is avoided: VWMA(1) == SMA(1) == close up to rounding.
			Rand: func(r *gen.Rand) Cfg { return P(r.Range(2, 12)) },
			New: func(c Cfg) strategy.Strategy {
				x := st.NewVwmaStrategy()
				x.Vwma.Period, x.Sma.Period = c.I[0], c.I[0]
				return x
			},
			Warm: func(s strategy.Strategy) int {
				x := s.(*st.VwmaStrategy)
				return max(x.Vwma.IdlePeriod(), x.Sma.IdlePeriod())
			},
			// Buy while VWMA(close, volume) > SMA(close), Sell while below.
			Rule: func(s strategy.Strategy, snaps []*asset.Snapshot) []RuleVal {
				x := s.(*st.VwmaStrategy)
				c := Col(snaps, 'c')
				vw := Collect(x.Vwma.Compute(Ch(c), Ch(Col(snaps, 'v'))))[0]
				sm := Collect(x.Sma.Compute(Ch(c)))[0]
				return s2PairRule(snaps, vw, x.Vwma.IdlePeriod(), sm, x.Sma.IdlePeriod())
			},
			Note: "VWMA and SMA always configured with the same period (period 1 makes VWMA == SMA == close up to rounding: all exempt); zero volume over a whole window gives 0/0: exempt",
		},
		&Strat{
			Name: "trend.WeightedCloseStrategy", InRegistry: true,
			Default: P(st.DefaultWeightedCloseStrategyMaPeriod),
			// MA period 1 is avoided: the MA equals the weighted close up to
			// rounding, so every position is exempt.
			Rand: func(r *gen.Rand) Cfg {
				c := P(r.Range(2, 12))
				c.S = []string{"", "", "ema", "hma", "wma"}[r.Intn(5)] // the public Ma field takes any moving average
				return c
			},
			New: func(c Cfg) strategy.Strategy {
				x := st.NewWeightedCloseStrategyWith(c.I[0])
				switch c.S {
				case "ema":
					x.Ma = trend.NewEmaWithPeriod[float64](c.I[0])
				case "hma":
					x.Ma = trend.NewHmaWithPeriod[float64](c.I[0] + 2)
				case "wma":
					x.Ma = trend.NewWmaWith[float64](c.I[0])
				}
				return x
			},
			Warm: func(s strategy.Strategy) int {
				x := s.(*st.WeightedCloseStrategy)
				return x.WeightedClose.IdlePeriod() + x.Ma.IdlePeriod()
			},
			// Buy while weighted close (h,l,c) > its MA, Sell while below.
			Rule: func(s strategy.Strategy, snaps []*asset.Snapshot) []RuleVal {
				x := s.(*st.WeightedCloseStrategy)
				wc := Collect(x.WeightedClose.Compute(Ch(Col(snaps, 'h')), Ch(Col(snaps, 'l')), Ch(Col(snaps, 'c'))))[0]
				ma := Collect(x.Ma.Compute(Ch(wc)))[0]
				w0 := x.WeightedClose.IdlePeriod()
				return s2PairRule(snaps, wc, w0, ma, w0+x.Ma.IdlePeriod())
			},
			Note: "doc says 'crossing above/below the moving average'; read as level rule wc>ma Buy, wc<ma Sell; wc == ma is exempt (the doc is silent; as built it is Sell — there is no Hold branch — so MA period 1 or a flat market yields Sell at every position)",
		},
		&Strat{
			Name: "strategy.BuyAndHoldStrategy", InRegistry: true,
			Default: P(),
			Rand:    func(r *gen.Rand) Cfg { return P() },
			New:     func(Cfg) strategy.Strategy { return strategy.NewBuyAndHoldStrategy() },
			Warm:    func(strategy.Strategy) int { return 0 },
			// Buy at the first snapshot, Hold afterwards.
			Rule: func(_ strategy.Strategy, snaps []*asset.Snapshot) []RuleVal {
				out := Holds(len(snaps))
				if len(out) > 0 {
					out[0].A = strategy.Buy
				}
				return out
			},
			Note: "no configuration",
		},
	}
	// Every row whose strategy pads its warm-up with helper.Shift emits the
	// w_s fills even when the series is shorter than w_s.
	for _, row := range rows {
		switch row.Name {
		case "trend.SmmaStrategy", "strategy.BuyAndHoldStrategy":
		default:
			row.Devs = append(row.Devs, s2ShortDev(row))
		}
	}
	AddStrat(rows...)
}

// s2Pad appends Holds until r has at least n entries.
func s2Pad(r []RuleVal, n int) []RuleVal {
	if len(r) < n {
		r = append(r, Holds(n-len(r))...)
	}
	return r
}

// s2ShortDev models the as-built length on a series shorter than the warm-up:
// the documented rule (all Hold there) padded to w_s entries.
func s2ShortDev(row *Strat) StratDev {
	rule, warm := row.Rule, row.Warm
	return StratDev{
		Key:  s2Kebab(row.Name) + "-short-input-padded-to-warmup",
		What: "on a series shorter than the warm-up w_s the strategy still emits w_s Hold actions (helper.Shift sends its fills unconditionally): len = w_s > n",
		Rule: func(s strategy.Strategy, snaps []*asset.Snapshot) []RuleVal {
			return s2Pad(rule(s, snaps), warm(s))
		},
	}
}

// s2Kebab: "trend.TrixStrategy" -> "trix".
func s2Kebab(name string) string {
	name = strings.TrimSuffix(name[strings.IndexByte(name, '.')+1:], "Strategy")
	var b strings.Builder
	for i, c := range name {
		if c >= 'A' && c <= 'Z' {
			if i > 0 {
				b.WriteByte('-')
			}
			c += 'a' - 'A'
		}
		b.WriteRune(c)
	}
	return b.String()
}

// s2PairRule: Buy while a > b, Sell while a < b, where a (warm-up wa) and b
// (warm-up wb) are indicator streams over the same snapshots; exempt where
// they are equal within rounding relative to the closing price.
func s2PairRule(snaps []*asset.Snapshot, a []float64, wa int, b []float64, wb int) []RuleVal {
	out := Holds(len(snaps))
	for i := max(wa, wb); i < len(snaps); i++ {
		x, ok1 := At(a, i, wa)
		y, ok2 := At(b, i, wb)
		if !ok1 || !ok2 {
			continue
		}
		if Near(x, y, snaps[i].Close) {
			out[i].Exempt = true
			continue
		}
		if x > y {
			out[i].A = strategy.Buy
		} else if x < y {
			out[i].A = strategy.Sell
		}
	}
	return out
}

func s2SmmaRule(s strategy.Strategy, snaps []*asset.Snapshot) []RuleVal {
	x := s.(*st.SmmaStrategy)
	c := Col(snaps, 'c')
	sh := Collect(x.ShortSmma.Compute(Ch(c)))[0]
	lo := Collect(x.LongSmma.Compute(Ch(c)))[0]
	return s2PairRule(snaps, sh, x.ShortSmma.IdlePeriod(), lo, x.LongSmma.IdlePeriod())
}
