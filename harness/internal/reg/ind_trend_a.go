package reg

import (
	"github.com/cinar/indicator/v2/trend"

	"verif/harness/internal/gen"
)

// Rows written first, as the pattern for the rest of the registry.

func init() {
	Add(
		&Indicator{
			Name: "trend.Sma", In: "p", Out: []string{"sma"}, AnySign: true,
			Default: P(trend.DefaultSmaPeriod),
			Rand:    func(r *gen.Rand) Cfg { return P(r.Range(1, 12)) },
			New: func(c Cfg) Inst {
				x := trend.NewSmaWithPeriod[float64](c.I[0])
				return Inst{Obj: x, Compute: A11(x.Compute), Idle: x.IdlePeriod(), Declared: true}
			},
			Ref: func(c Cfg, in [][]float64) [][]RV { return One(Vals(SMA(in[0], c.I[0]))) },
			Deg: []Degree{{1, 0}},
		},
		&Indicator{
			Name: "trend.Ema", In: "p", Out: []string{"ema"}, AnySign: true, RegGuard: true,
			Note:    "comment gives no formula: conventional EMA, seed = SMA of the first Period values, multiplier = Smoothing/(Period+1)",
			Default: Cfg{I: []int{trend.DefaultEmaPeriod}, F: []float64{trend.DefaultEmaSmoothing}},
			Rand:    func(r *gen.Rand) Cfg { return Cfg{I: []int{r.Range(1, 12)}, F: []float64{r.PickF(2, 2, 1, 3)}} },
			New: func(c Cfg) Inst {
				x := trend.NewEmaWithPeriod[float64](c.I[0])
				x.Smoothing = c.F[0]
				return Inst{Obj: x, Compute: A11(x.Compute), Idle: x.IdlePeriod(), Declared: true}
			},
			Ref: func(c Cfg, in [][]float64) [][]RV { return One(Vals(EMA(in[0], c.I[0], c.F[0]))) },
			Deg: []Degree{{1, 0}},
		},
		&Indicator{
			Name: "trend.Macd", In: "p", Out: []string{"macd", "signal"}, AnySign: true,
			Default: P(trend.DefaultMacdPeriod1, trend.DefaultMacdPeriod2, trend.DefaultMacdPeriod3),
			Rand: func(r *gen.Rand) Cfg {
				p2 := r.Range(1, 12)
				return P(r.Range(1, p2), p2, r.Range(1, 12))
			},
			New: func(c Cfg) Inst {
				x := trend.NewMacdWithPeriod[float64](c.I[0], c.I[1], c.I[2])
				return Inst{Obj: x, Compute: A12(x.Compute), Idle: x.IdlePeriod(), Declared: true}
			},
			// MACD = EMA_p1 - EMA_p2 (same position); signal = EMA_p3(MACD).
			Ref: func(c Cfg, in [][]float64) [][]RV {
				p1, p2, p3 := c.I[0], c.I[1], c.I[2]
				e1 := Tail(EMA(in[0], p1, 2), p2-p1)
				e2 := EMA(in[0], p2, 2)
				macd := Zip2(e1, e2, func(a, b float64) float64 { return a - b })
				sig := EMA(macd, p3, 2)
				return [][]RV{Vals(Tail(macd, p3-1)), Vals(sig)}
			},
			Deg: []Degree{{1, 0}, {1, 0}},
		},
		&Indicator{
			Name: "trend.Apo", In: "p", Out: []string{"apo"}, AnySign: true,
			Default: P(trend.DefaultApoFastPeriod, trend.DefaultApoSlowPeriod),
			Rand: func(r *gen.Rand) Cfg {
				s := r.Range(1, 12)
				return P(r.Range(1, s), s)
			},
			New: func(c Cfg) Inst {
				x := trend.NewApo[float64]()
				x.FastPeriod, x.SlowPeriod = c.I[0], c.I[1]
				return Inst{Obj: x, Compute: A11(x.Compute), Idle: c.I[1] - 1, Declared: false}
			},
			// APO = Fast - Slow, both EMAs taken at the same position.
			Ref: func(c Cfg, in [][]float64) [][]RV {
				f, s := c.I[0], c.I[1]
				return One(Vals(Zip2(Tail(EMA(in[0], f, 2), s-f), EMA(in[0], s, 2), func(a, b float64) float64 { return a - b })))
			},
			Deg: []Degree{{1, 0}},
			Devs: []Dev{{
				Key:  "apo-fast-ema-not-delayed",
				What: "the fast EMA is not delayed by slow-fast before the subtraction: APO[k] = EMAfast[k+fast-1] - EMAslow[k+slow-1] (values slow-fast positions apart)",
				Ref: func(c Cfg, in [][]float64) [][]RV {
					f, s := c.I[0], c.I[1]
					return One(Vals(Zip2(EMA(in[0], f, 2), EMA(in[0], s, 2), func(a, b float64) float64 { return a - b })))
				},
			}},
		},
	)
}
