// Package run is the child-side case runner: it enumerates cases
// deterministically, logs a BEGIN record (unbuffered write) before the library
// is touched, records violations / finding matches / coverage counters and
// emits them as JSON lines for the parent (cmd/vcheck) to fold.
package run

import (
	"encoding/json"
	"fmt"
	"os"
	"sort"
	"sync"

	"verif/harness/internal/gen"
)

// Rec is one line of the child's event log.
type Rec struct {
	T      string          `json:"t"`
	I      int             `json:"i,omitempty"`
	Label  string          `json:"label,omitempty"`
	Key    string          `json:"key,omitempty"`
	Msg    string          `json:"msg,omitempty"`
	Detail json.RawMessage `json:"detail,omitempty"`
	Stats  *Stats          `json:"stats,omitempty"`
}

// Stats is the per-shard coverage summary.
type Stats struct {
	Evaluations int              `json:"evaluations"`
	Distinct    []uint64         `json:"distinct"` // hashes of distinct non-trivial case keys
	Counters    map[string]int64 `json:"counters"`
	Sets        map[string][]uint64 `json:"sets"` // named sets of hashes (unioned by the parent)
	Samples     []json.RawMessage `json:"samples"`
	Violations  int              `json:"violations"`
	Suppressed  int              `json:"suppressed"` // violation records beyond the per-key cap
	Inconclusive []string        `json:"inconclusive,omitempty"`
}

// Ctx is the state of one child run.
type Ctx struct {
	Prop    string
	Tier    string
	Seed    int64
	Shard   int
	NShards int
	From    int // first global case index to run (inclusive)
	To      int // last global case index to run (exclusive); <0 = no bound
	Only    string // when set, run only the case with this label

	mu       sync.Mutex
	log      *os.File
	idx      int
	evals    int
	distinct map[uint64]struct{}
	sets     map[string]map[uint64]struct{}
	counters map[string]int64
	samples  []json.RawMessage
	viols    int
	supp     int
	perKey   map[string]int
	inconcl  []string

	sinceCkpt int // cases begun since the last stats record
}

// NewCtx opens the event log.
func NewCtx(logPath string) (*Ctx, error) {
	f, err := os.OpenFile(logPath, os.O_CREATE|os.O_WRONLY|os.O_APPEND, 0o644)
	if err != nil {
		return nil, err
	}
	return &Ctx{
		log: f, To: -1, NShards: 1,
		distinct: map[uint64]struct{}{},
		sets:     map[string]map[uint64]struct{}{},
		counters: map[string]int64{},
		perKey:   map[string]int{},
	}, nil
}

func (c *Ctx) write(r *Rec) {
	b, err := json.Marshal(r)
	if err != nil {
		b = []byte(fmt.Sprintf(`{"t":"error","msg":%q}`, err.Error()))
	}
	b = append(b, '\n')
	c.log.Write(b) // one write(2) per record: survives a crash of this process
}

// Quick reports whether this is the quick tier.
func (c *Ctx) Quick() bool { return c.Tier != "thorough" }

// Pick returns q for the quick tier and t for the thorough tier.
func (c *Ctx) Pick(q, t int) int {
	if c.Quick() {
		return q
	}
	return t
}

// Case is the per-case handle.
type Case struct {
	ctx   *Ctx
	I     int
	Label string
	R     *gen.Rand
}

// Case runs f as one case if it belongs to this shard / window. The label
// must be unique and stable: it seeds the case's PRNG and names it in replays.
func (c *Ctx) Case(label string, f func(cc *Case)) {
	i := c.idx
	c.idx++
	if c.Only != "" {
		if label != c.Only {
			return
		}
	} else {
		if i%c.NShards != c.Shard || i < c.From || (c.To >= 0 && i >= c.To) {
			return
		}
	}
	if c.sinceCkpt >= 40 {
		c.writeStats()
	}
	c.sinceCkpt++
	c.write(&Rec{T: "begin", I: i, Label: label})
	cc := &Case{ctx: c, I: i, Label: label, R: gen.New(c.Seed, c.Prop+"/"+label)}
	c.mu.Lock()
	c.evals++
	c.mu.Unlock()
	f(cc)
}

// Desc logs the full case description before the library is called, so a
// crash can be attributed with its inputs.
func (cc *Case) Desc(v any) {
	b, _ := json.Marshal(v)
	cc.ctx.write(&Rec{T: "desc", I: cc.I, Label: cc.Label, Detail: b})
}

// Viol records a violation. key identifies the failure signature for the
// known-findings lookup ("" = never a known finding).
func (cc *Case) Viol(key, msg string, detail any) {
	c := cc.ctx
	c.mu.Lock()
	c.viols++
	c.perKey[key]++
	n := c.perKey[key]
	c.mu.Unlock()
	if n > 3 {
		c.mu.Lock()
		c.supp++
		c.mu.Unlock()
		return
	}
	b, _ := json.Marshal(detail)
	c.write(&Rec{T: "viol", I: cc.I, Label: cc.Label, Key: key, Msg: msg, Detail: b})
}

// Inconclusive records that a case could not be decided.
func (cc *Case) Inconclusive(msg string) {
	c := cc.ctx
	c.mu.Lock()
	if len(c.inconcl) < 20 {
		c.inconcl = append(c.inconcl, cc.Label+": "+msg)
	}
	c.mu.Unlock()
}

// Distinct marks a distinct non-trivial case key.
func (cc *Case) Distinct(key string) {
	c := cc.ctx
	h := gen.Hash64(key)
	c.mu.Lock()
	c.distinct[h] = struct{}{}
	c.mu.Unlock()
}

// SetAdd adds a key to a named set (e.g. interleaving signatures).
func (cc *Case) SetAdd(set, key string) { cc.ctx.SetAddH(set, gen.Hash64(key)) }

// SetAddH adds a pre-hashed key to a named set.
func (c *Ctx) SetAddH(set string, h uint64) {
	c.mu.Lock()
	m := c.sets[set]
	if m == nil {
		m = map[uint64]struct{}{}
		c.sets[set] = m
	}
	m[h] = struct{}{}
	c.mu.Unlock()
}

// Count adds to a named counter.
func (cc *Case) Count(name string, n int64) { cc.ctx.Count(name, n) }

// Count adds to a named counter.
func (c *Ctx) Count(name string, n int64) {
	c.mu.Lock()
	c.counters[name] += n
	c.mu.Unlock()
}

// Max keeps the maximum of a named gauge (stored scaled as int64).
func (c *Ctx) Max(name string, v int64) {
	c.mu.Lock()
	if v > c.counters[name] {
		c.counters[name] = v
	}
	c.mu.Unlock()
}

// CtxMax keeps the maximum of a named gauge (name should start with "max_").
func (cc *Case) CtxMax(name string, v int64) { cc.ctx.Max(name, v) }

// Sample keeps a few example cases for the evidence file.
func (cc *Case) Sample(v any) {
	c := cc.ctx
	c.mu.Lock()
	defer c.mu.Unlock()
	if len(c.samples) >= 3 {
		return
	}
	b, err := json.Marshal(v)
	if err == nil {
		c.samples = append(c.samples, b)
	}
}

// WantSample reports whether another sample would be kept.
func (cc *Case) WantSample() bool {
	c := cc.ctx
	c.mu.Lock()
	defer c.mu.Unlock()
	return len(c.samples) < 3
}

// Finish writes the stats record and the done marker.
func (c *Ctx) Finish() {
	c.writeStats()
	c.write(&Rec{T: "done", I: c.idx})
	c.log.Close()
}

// Checkpoint writes the cumulative stats so far. The parent uses the LAST
// stats record of a log, so the coverage observed before a process-fatal
// crash (runtime deadlock, concurrent map write) is not lost with the process.
func (c *Ctx) Checkpoint() {
	if c.sinceCkpt > 0 {
		c.writeStats()
	}
}

func (c *Ctx) writeStats() {
	c.mu.Lock()
	st := &Stats{
		Evaluations: c.evals, Counters: map[string]int64{}, Samples: append([]json.RawMessage(nil), c.samples...),
		Violations: c.viols, Suppressed: c.supp, Inconclusive: c.inconcl,
		Sets: map[string][]uint64{},
	}
	for k, v := range c.counters {
		st.Counters[k] = v
	}
	for h := range c.distinct {
		st.Distinct = append(st.Distinct, h)
	}
	sort.Slice(st.Distinct, func(i, j int) bool { return st.Distinct[i] < st.Distinct[j] })
	for name, m := range c.sets {
		var l []uint64
		for h := range m {
			l = append(l, h)
		}
		sort.Slice(l, func(i, j int) bool { return l[i] < l[j] })
		st.Sets[name] = l
	}
	c.sinceCkpt = 0
	c.mu.Unlock()
	c.write(&Rec{T: "stats", Stats: st})
}
