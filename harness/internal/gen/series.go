package gen

import "math"

// Bar is one OHLCV observation.
type Bar struct{ O, H, L, C, V float64 }

// Series classes. Every case records its class; evidence counts them.
const (
	Walk     = "walk"     // geometric random walk, full precision
	Walk2    = "walk2"    // geometric random walk, prices rounded to 2 decimals
	Flat     = "flat"     // constant close, small intraday range
	Up       = "up"       // strictly increasing
	Down     = "down"     // strictly decreasing
	Ties     = "ties"     // values drawn from a 3-5 element alphabet
	Plateau  = "plateau"  // repeated extremes inside windows
	Spike    = "spike"    // a walk with one 64x outlier bar
	Dyadic   = "dyadic"   // multiples of 1/8 in [1,512]: sums exact in float64
	Degen    = "degen"    // valid but degenerate bars: high==low stretches, zero volume days, close==high/low
	ZeroNeg  = "zeroneg"  // numeric only: integers in [-9,9] (zeros and negatives)
	LimitRun = "limitrun" // limit-up/limit-down runs: close==high or close==low for stretches
	Halt     = "halt"     // whole-number walk2 prices with long trading halts: every field of the bar repeats for 35-60 bars
)

// OHLCVClasses are the classes that yield valid OHLCV bars.
var OHLCVClasses = []string{Walk, Walk2, Flat, Up, Down, Ties, Plateau, Spike, Dyadic, Degen, LimitRun}

// WellCond are the classes on which ratio indicators are well-conditioned
// almost everywhere.
var WellCond = []string{Walk, Walk2, Spike, Dyadic}

// Bars generates n valid OHLCV bars of the given class: low <= open, close
// <= high, prices > 0, volume >= 0. All five fields vary independently
// (within the class) so that a wrong field is visible downstream.
func Bars(r *Rand, class string, n int) []Bar {
	if class == Halt {
		// moving stretches of whole-number prices separated by halts during which
		// nothing changes at all (differences of averages are exactly zero)
		out := Bars(r, Walk2, n)
		for i := range out {
			b := &out[i]
			b.O, b.H, b.L, b.C = math.Round(b.O), math.Round(b.H)+1, math.Max(1, math.Round(b.L)-1), math.Round(b.C)
			b.O, b.C = math.Min(math.Max(b.O, b.L), b.H), math.Min(math.Max(b.C, b.L), b.H)
		}
		for i := r.Range(3, 40); i < n; {
			run := r.Range(35, 60)
			for k := 1; k <= run && i+k < n; k++ {
				out[i+k] = out[i]
			}
			i += run + r.Range(5, 60)
		}
		return out
	}
	out := make([]Bar, n)
	price := r.FRange(5, 500)
	vol := r.FRange(1e3, 1e6)
	alphabet := []float64{}
	if class == Ties || class == Plateau {
		k := r.Range(3, 5)
		for i := 0; i < k; i++ {
			alphabet = append(alphabet, Round2(r.FRange(10, 60)))
		}
	}
	spikeAt := -1
	if class == Spike && n > 0 {
		spikeAt = r.Intn(n)
	}
	platLeft := 0
	platVal := 0.0
	for i := 0; i < n; i++ {
		var b Bar
		switch class {
		case Walk, Walk2, Spike, Degen, LimitRun:
			price *= math.Exp(0.03 * r.Norm())
			if price < 1 {
				price = 1 + r.F()
			}
			if price > 9000 {
				price = 9000 - 100*r.F()
			}
			b = barAround(r, price, 0.03)
			vol *= math.Exp(0.3 * r.Norm())
			if vol < 100 {
				vol = 100 + 100*r.F()
			}
			if vol > 1e8 {
				vol = 1e8 / (1 + r.F())
			}
			b.V = math.Floor(vol)
			if class == Walk2 {
				b = round2Bar(b)
			}
			if i == spikeAt {
				f := 64.0
				b.O, b.H, b.L, b.C = b.O*f, b.H*f, b.L*f, b.C*f
			}
			if class == Degen {
				switch r.Intn(6) {
				case 0: // high == low
					b.H, b.L, b.O = b.C, b.C, b.C
				case 1:
					b.V = 0
				case 2:
					b.C = b.H
				case 3:
					b.C = b.L
				case 4: // exact repeat of previous bar
					if i > 0 {
						b = out[i-1]
					}
				}
			}
			if class == LimitRun {
				if platLeft == 0 && r.Intn(5) == 0 {
					platLeft = r.Range(2, 9)
					platVal = float64(r.Intn(2))
				}
				if platLeft > 0 {
					platLeft--
					if platVal == 1 {
						b.C = b.H
					} else {
						b.C = b.L
					}
				}
			}
		case Flat:
			c := math.Round(price)
			b = Bar{O: c, H: c + 1, L: c - 1, C: c, V: 1000}
			if r.Intn(4) == 0 {
				b.H, b.L = c, c
			}
		case Up:
			price += r.FRange(0.01, 2)
			b = Bar{O: price - 0.1, H: price + r.FRange(0.2, 1), L: price - r.FRange(0.2, 1), C: price, V: vol + float64(i)*r.FRange(1, 50)}
		case Down:
			price = math.Max(1.5, price-r.FRange(0.01, 0.4))
			b = Bar{O: price + 0.05, H: price + r.FRange(0.2, 0.5), L: math.Max(0.5, price-r.FRange(0.2, 0.5)), C: price, V: math.Max(0, vol-float64(i)*r.FRange(1, 50))}
		case Ties:
			c := alphabet[r.Intn(len(alphabet))]
			h := c + alphabet[r.Intn(len(alphabet))]/10
			l := c - alphabet[r.Intn(len(alphabet))]/10
			o := c
			if r.Bool() {
				o = l
			}
			b = Bar{O: o, H: h, L: l, C: c, V: float64(100 * r.Range(0, 3))}
		case Plateau:
			if platLeft == 0 {
				platLeft = r.Range(1, 14)
				platVal = alphabet[r.Intn(len(alphabet))]
			}
			platLeft--
			c := platVal
			b = Bar{O: c, H: c + 1, L: c - 1, C: c, V: float64(1000 * r.Range(1, 3))}
			if r.Intn(3) == 0 {
				b.C = b.H
			}
		case Dyadic:
			c := float64(r.Range(32, 4096)) / 8
			up := float64(r.Range(0, 64)) / 8
			dn := float64(r.Range(0, 64)) / 8
			if dn >= c {
				dn = c - 0.125
			}
			o := c - dn + float64(r.Range(0, int((up+dn)*8)))/8
			b = Bar{O: o, H: c + up, L: c - dn, C: c, V: float64(r.Range(1, 1<<16)) * 8}
		default:
			panic("gen.Bars: unknown class " + class)
		}
		out[i] = fixBar(b)
	}
	return out
}

func barAround(r *Rand, price, width float64) Bar {
	h := price * (1 + width*r.F())
	l := price * (1 - width*r.F())
	o := l + (h-l)*r.F()
	c := l + (h-l)*r.F()
	return Bar{O: o, H: h, L: l, C: c}
}

func round2Bar(b Bar) Bar {
	b.O, b.H, b.L, b.C = Round2(b.O), Round2(b.H), Round2(b.L), Round2(b.C)
	return b
}

// fixBar restores validity after rounding.
func fixBar(b Bar) Bar {
	if b.L <= 0 {
		b.L = 0.01
	}
	if b.H < b.L {
		b.H = b.L
	}
	clamp := func(x float64) float64 { return math.Min(b.H, math.Max(b.L, x)) }
	b.O, b.C = clamp(b.O), clamp(b.C)
	if b.V < 0 {
		b.V = 0
	}
	return b
}

// Field extracts one column: 'o','h','l','c','v'.
func Field(bars []Bar, f byte) []float64 {
	out := make([]float64, len(bars))
	for i, b := range bars {
		switch f {
		case 'o':
			out[i] = b.O
		case 'h':
			out[i] = b.H
		case 'l':
			out[i] = b.L
		case 'c':
			out[i] = b.C
		case 'v':
			out[i] = b.V
		default:
			panic("gen.Field: " + string(f))
		}
	}
	return out
}

// Numeric generates a plain numeric series for single-input indicators. The
// OHLCV classes use the close column; ZeroNeg yields small integers incl.
// zeros and negatives.
func Numeric(r *Rand, class string, n int) []float64 {
	if class == ZeroNeg {
		out := make([]float64, n)
		for i := range out {
			out[i] = float64(r.Range(-9, 9))
		}
		return out
	}
	return Field(Bars(r, class, n), 'c')
}

// ScaleBars multiplies prices by p and volumes by v.
func ScaleBars(bars []Bar, p, v float64) []Bar {
	out := make([]Bar, len(bars))
	for i, b := range bars {
		out[i] = Bar{O: b.O * p, H: b.H * p, L: b.L * p, C: b.C * p, V: b.V * v}
	}
	return out
}
