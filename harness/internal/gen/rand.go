// Package gen holds the seeded generators shared by all monitors. Everything
// is derived from a splitmix64 stream so that a (seed, label) pair always
// yields the same case; no generator looks at the clock.
package gen

import (
	"hash/fnv"
	"math"
)

// Rand is a splitmix64 generator.
type Rand struct{ s uint64 }

// New returns a generator seeded from seed and a label (so that independent
// cases draw from independent streams whatever the sharding is).
func New(seed int64, label string) *Rand {
	h := fnv.New64a()
	h.Write([]byte(label))
	r := &Rand{s: uint64(seed)*0x9E3779B97F4A7C15 ^ h.Sum64()}
	r.U64()
	return r
}

// U64 returns the next 64 random bits.
func (r *Rand) U64() uint64 {
	r.s += 0x9E3779B97F4A7C15
	z := r.s
	z = (z ^ (z >> 30)) * 0xBF58476D1CE4E5B9
	z = (z ^ (z >> 27)) * 0x94D049BB133111EB
	return z ^ (z >> 31)
}

// Intn returns a value in [0, n).
func (r *Rand) Intn(n int) int {
	if n <= 0 {
		return 0
	}
	return int(r.U64() % uint64(n))
}

// Range returns a value in [lo, hi].
func (r *Rand) Range(lo, hi int) int {
	if hi <= lo {
		return lo
	}
	return lo + r.Intn(hi-lo+1)
}

// F returns a float in [0, 1).
func (r *Rand) F() float64 {
	return float64(r.U64()>>11) / (1 << 53)
}

// FRange returns a float in [lo, hi).
func (r *Rand) FRange(lo, hi float64) float64 {
	return lo + (hi-lo)*r.F()
}

// Bool returns a fair coin.
func (r *Rand) Bool() bool { return r.U64()&1 == 1 }

// Norm returns an approximately standard normal value (sum of uniforms).
func (r *Rand) Norm() float64 {
	s := 0.0
	for i := 0; i < 12; i++ {
		s += r.F()
	}
	return s - 6
}

// Pick returns one of the given ints.
func (r *Rand) Pick(xs ...int) int { return xs[r.Intn(len(xs))] }

// PickF returns one of the given floats.
func (r *Rand) PickF(xs ...float64) float64 { return xs[r.Intn(len(xs))] }

// Perm returns a random permutation of 0..n-1.
func (r *Rand) Perm(n int) []int {
	p := make([]int, n)
	for i := range p {
		p[i] = i
	}
	for i := n - 1; i > 0; i-- {
		j := r.Intn(i + 1)
		p[i], p[j] = p[j], p[i]
	}
	return p
}

// Round2 rounds to 2 decimals.
func Round2(x float64) float64 { return math.Round(x*100) / 100 }

// Hash64 hashes a label.
func Hash64(s string) uint64 {
	h := fnv.New64a()
	h.Write([]byte(s))
	return h.Sum64()
}
