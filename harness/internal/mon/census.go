package mon

import (
	"regexp"
	"runtime"
	"strconv"
	"strings"
)

// G is one goroutine from a runtime.Stack(all) dump.
type G struct {
	ID    int
	State string
	Text  string
	Lib   bool // stack or creator mentions the library
}

var gHeader = regexp.MustCompile(`^goroutine (\d+) \[([^\]]*)\]:`)

const libPath = "github.com/cinar/indicator/v2"

// Dump parses runtime.Stack(all).
func Dump() []G {
	buf := make([]byte, 1<<20)
	for {
		n := runtime.Stack(buf, true)
		if n < len(buf) {
			buf = buf[:n]
			break
		}
		buf = make([]byte, 2*len(buf))
	}
	var gs []G
	for _, blk := range strings.Split(string(buf), "\n\n") {
		m := gHeader.FindStringSubmatch(blk)
		if m == nil {
			continue
		}
		id, _ := strconv.Atoi(m[1])
		gs = append(gs, G{ID: id, State: m[2], Text: blk, Lib: strings.Contains(blk, libPath)})
	}
	return gs
}

// Census tracks goroutines across cases. Leaked goroutines stay for the life
// of the process, so attribution is differential: only ids that were not
// present at Begin are attributed to the case.
type Census struct {
	base  int
	known map[int]bool
}

// NewCensus records the goroutines alive now as pre-existing.
func NewCensus() *Census {
	c := &Census{known: map[int]bool{}}
	for _, g := range Dump() {
		c.known[g.ID] = true
	}
	c.base = runtime.NumGoroutine()
	return c
}

// Begin marks the start of a case.
func (c *Census) Begin() { c.base = runtime.NumGoroutine() }

// Leak describes goroutines left behind by a case.
type Leak struct {
	Count  int      `json:"count"`
	Stacks []string `json:"stacks"`
	// Unsettled is set when new goroutines were still runnable after the
	// yield budget: the case is inconclusive, not a leak.
	Unsettled bool `json:"unsettled,omitempty"`
}

func blocked(state string) bool {
	s := state
	if i := strings.Index(s, ","); i >= 0 {
		s = s[:i]
	}
	switch s {
	case "chan receive", "chan send", "chan receive (nil chan)", "chan send (nil chan)", "select", "select (no cases)",
		"sync.Mutex.Lock", "sync.RWMutex.RLock", "sync.RWMutex.Lock", "sync.Cond.Wait", "semacquire", "sync.WaitGroup.Wait", "IO wait":
		return true
	}
	return false
}

// runtimeInternalWait recognises a goroutine that waits on a semaphore of the
// runtime itself rather than on one of the program's: state "semacquire"
// without a sync / poll frame on top (a goroutine whose allocation started a
// garbage collection waits there for the world semaphore, which every stack
// dump of the census takes as well). Such a wait ends by itself: the goroutine
// is still finishing, not left behind.
func runtimeInternalWait(g G) bool {
	st := g.State
	if i := strings.Index(st, ","); i >= 0 {
		st = st[:i]
	}
	return st == "semacquire" && !strings.Contains(g.Text, "sync.runtime_Semacquire") && !strings.Contains(g.Text, "poll.runtime_Semacquire")
}

// End waits (by yielding, never sleeping) for the goroutine count to return
// to the level at Begin. If it does not, the new goroutines are examined: the
// set is a leak once it is a fixed point in which every member is blocked.
// Inputs are closed and outputs drained, so nothing can wake such a member.
func (c *Census) End() *Leak {
	for i := 0; i < 2000; i++ {
		if runtime.NumGoroutine() <= c.base {
			return nil
		}
		runtime.Gosched()
	}
	var prev string
	stable := 0
	for round := 0; round < 400; round++ {
		var fresh []G
		allBlocked := true
		sig := ""
		for _, g := range Dump() {
			if c.known[g.ID] || strings.Contains(g.Text, "mon.Dump") {
				continue
			}
			fresh = append(fresh, g)
			sig += strconv.Itoa(g.ID) + ":" + g.State + ";"
			if !blocked(g.State) || runtimeInternalWait(g) {
				allBlocked = false
			}
		}
		if len(fresh) == 0 {
			return nil
		}
		if allBlocked && sig == prev {
			stable++
		} else {
			stable = 0
		}
		prev = sig
		if stable >= 3 {
			lk := &Leak{Count: len(fresh)}
			for _, g := range fresh {
				c.known[g.ID] = true
				if len(lk.Stacks) < 4 {
					lk.Stacks = append(lk.Stacks, g.Text)
				}
			}
			return lk
		}
		for y := 0; y < 200; y++ {
			runtime.Gosched()
		}
	}
	lk := &Leak{Unsettled: true}
	for _, g := range Dump() {
		if !c.known[g.ID] && !strings.Contains(g.Text, "mon.Dump") {
			lk.Count++
			c.known[g.ID] = true
			if len(lk.Stacks) < 4 {
				lk.Stacks = append(lk.Stacks, g.Text)
			}
		}
	}
	if lk.Count == 0 {
		return nil
	}
	return lk
}

// LeakSite returns a short, stable description of where a leaked goroutine
// is blocked: the first library frame (function name only).
func LeakSite(stack string) string {
	lines := strings.Split(stack, "\n")
	state := ""
	if m := gHeader.FindStringSubmatch(lines[0]); m != nil {
		state = m[2]
		if i := strings.Index(state, ","); i >= 0 {
			state = state[:i]
		}
	}
	for _, l := range lines[1:] {
		if strings.HasPrefix(l, "\t") || strings.HasPrefix(l, "created by") {
			continue
		}
		if strings.Contains(l, libPath) {
			fn := l
			if i := strings.LastIndex(fn, "("); i > 0 {
				fn = fn[:i]
			}
			fn = strings.TrimPrefix(fn, libPath+"/")
			return state + "@" + fn
		}
	}
	for _, l := range lines {
		if strings.HasPrefix(l, "created by") && strings.Contains(l, libPath) {
			fn := strings.TrimPrefix(l, "created by ")
			if i := strings.Index(fn, " in goroutine"); i > 0 {
				fn = fn[:i]
			}
			return state + "@created-by:" + strings.TrimPrefix(fn, libPath+"/")
		}
	}
	return state + "@harness"
}
