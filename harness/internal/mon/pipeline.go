// Package mon holds the runtime monitors: the timer-free pipeline runner (E3),
// the goroutine census, and small oracle helpers.
package mon

import (
	"runtime"
	"sync/atomic"

	"verif/harness/internal/gen"
)

// Sched parameterises how a pipeline is driven. Nothing here uses timers:
// pacing is done with bursts of runtime.Gosched, so that if the pipeline
// wedges the Go runtime itself reports "all goroutines are asleep".
type Sched struct {
	Cap   int    // capacity of the input channels
	Pace  string // "eager", "slow" (one slow reader), "rr" (random bursts everywhere), "slowprod"
	Slow  int    // which output is the slow one (Pace == "slow")
	Procs int    // GOMAXPROCS for the run (0 = leave)
	Seed  uint64 // pacing seed
	// Prefill hands every input over as a finished series: a channel with room
	// for all of it, filled and closed before the pipeline is built.
	Prefill bool
}

// Result is what the independent readers saw.
type Result[O any] struct {
	Outs [][]O
	// Sig is a hash of the global order in which values were received across
	// outputs (the observed interleaving).
	Sig uint64
}

// Run feeds inputs through producers into the pipeline built by build and
// drains every output with its own reader goroutine. It returns when every
// output has been closed. If the pipeline wedges, this blocks for ever on a
// plain channel receive, and (in a timer-free process) the runtime kills the
// process with a deadlock report; that is the oracle.
func Run[I any, O any](inputs [][]I, s Sched, build func(in []<-chan I) []<-chan O) Result[O] {
	if s.Procs > 0 {
		defer runtime.GOMAXPROCS(runtime.GOMAXPROCS(s.Procs))
	}
	ins := make([]<-chan I, len(inputs))
	pdone := make(chan struct{}, len(inputs))
	for k := range inputs {
		if s.Prefill {
			ch := make(chan I, len(inputs[k]))
			for _, v := range inputs[k] {
				ch <- v
			}
			close(ch)
			ins[k] = ch
			pdone <- struct{}{}
			continue
		}
		ch := make(chan I, s.Cap)
		ins[k] = ch
		go func(k int, ch chan I) {
			r := gen.New(int64(s.Seed), "p"+string(rune('0'+k)))
			for _, v := range inputs[k] {
				if s.Pace == "rr" || s.Pace == "slowprod" {
					for j := r.Intn(4); j > 0; j-- {
						runtime.Gosched()
					}
				}
				ch <- v
			}
			close(ch)
			pdone <- struct{}{}
		}(k, ch)
	}
	outs := build(ins)
	res := Result[O]{Outs: make([][]O, len(outs))}
	var ctr atomic.Uint64
	sigs := make([]uint64, len(outs))
	rdone := make(chan struct{}, len(outs))
	for j := range outs {
		go func(j int) {
			r := gen.New(int64(s.Seed), "r"+string(rune('0'+j)))
			h := uint64(1469598103934665603)
			for {
				switch {
				case s.Pace == "slow" && j == s.Slow:
					for y := 0; y < 40; y++ {
						runtime.Gosched()
					}
				case s.Pace == "rr":
					for y := r.Intn(6); y > 0; y-- {
						runtime.Gosched()
					}
				}
				v, ok := <-outs[j]
				if !ok {
					break
				}
				seq := ctr.Add(1)
				h = (h ^ seq) * 1099511628211
				res.Outs[j] = append(res.Outs[j], v)
			}
			sigs[j] = h
			rdone <- struct{}{}
		}(j)
	}
	for range outs {
		<-rdone
	}
	for range inputs {
		<-pdone // every producer must reach its close: inputs fully consumed
	}
	sig := uint64(14695981039346656037)
	for _, h := range sigs {
		sig = (sig ^ h) * 1099511628211
	}
	res.Sig = sig
	return res
}

// RunSimple drives a pipeline with unbuffered inputs and eager readers.
func RunSimple[I any, O any](inputs [][]I, build func(in []<-chan I) []<-chan O) [][]O {
	return Run(inputs, Sched{Pace: "eager"}, build).Outs
}
