package mon

import (
	"fmt"
	"hash/fnv"
	"reflect"
	"sort"
	"unsafe"
)

// Fingerprint returns a hash of the complete state reachable from v,
// including unexported fields (read through unsafe), following pointers,
// slices, maps and interfaces. Two fingerprints of the same value are equal
// iff nothing reachable from it has changed (pointer identities are not part
// of the hash, only the pointed-to contents; channels and funcs hash by
// nil-ness).
func Fingerprint(v any) uint64 {
	h := fnv.New64a()
	seen := map[uintptr]bool{}
	var walk func(rv reflect.Value, depth int)
	walk = func(rv reflect.Value, depth int) {
		if depth > 64 {
			return
		}
		if !rv.IsValid() {
			h.Write([]byte("<invalid>"))
			return
		}
		// make unexported fields readable
		if rv.CanAddr() && !rv.CanInterface() {
			rv = reflect.NewAt(rv.Type(), unsafe.Pointer(rv.UnsafeAddr())).Elem()
		}
		fmt.Fprintf(h, "%s:", rv.Kind())
		switch rv.Kind() {
		case reflect.Ptr:
			if rv.IsNil() {
				h.Write([]byte("nil"))
				return
			}
			p := rv.Pointer()
			if seen[p] {
				h.Write([]byte("<cycle>"))
				return
			}
			seen[p] = true
			walk(rv.Elem(), depth+1)
		case reflect.Interface:
			if rv.IsNil() {
				h.Write([]byte("nil"))
				return
			}
			fmt.Fprintf(h, "%s|", rv.Elem().Type())
			e := rv.Elem()
			if e.Kind() != reflect.Ptr {
				// copy into addressable storage so unexported fields can be read
				c := reflect.New(e.Type()).Elem()
				c.Set(e)
				e = c
			}
			walk(e, depth+1)
		case reflect.Struct:
			for i := 0; i < rv.NumField(); i++ {
				fmt.Fprintf(h, "%s=", rv.Type().Field(i).Name)
				walk(rv.Field(i), depth+1)
				h.Write([]byte(";"))
			}
		case reflect.Slice:
			if rv.IsNil() {
				h.Write([]byte("nil"))
				return
			}
			fmt.Fprintf(h, "len%d[", rv.Len())
			for i := 0; i < rv.Len(); i++ {
				walk(rv.Index(i), depth+1)
				h.Write([]byte(","))
			}
		case reflect.Array:
			for i := 0; i < rv.Len(); i++ {
				walk(rv.Index(i), depth+1)
				h.Write([]byte(","))
			}
		case reflect.Map:
			if rv.IsNil() {
				h.Write([]byte("nil"))
				return
			}
			keys := rv.MapKeys()
			strs := make([]string, len(keys))
			for i, k := range keys {
				strs[i] = fmt.Sprint(k)
			}
			idx := make([]int, len(keys))
			for i := range idx {
				idx[i] = i
			}
			sort.Slice(idx, func(a, b int) bool { return strs[idx[a]] < strs[idx[b]] })
			for _, i := range idx {
				fmt.Fprintf(h, "%s->", strs[i])
				e := rv.MapIndex(keys[i])
				c := reflect.New(e.Type()).Elem()
				c.Set(e)
				walk(c, depth+1)
			}
		case reflect.Chan, reflect.Func, reflect.UnsafePointer:
			fmt.Fprintf(h, "nil=%v", rv.IsNil())
		case reflect.Bool:
			fmt.Fprintf(h, "%v", rv.Bool())
		case reflect.Int, reflect.Int8, reflect.Int16, reflect.Int32, reflect.Int64:
			fmt.Fprintf(h, "%d", rv.Int())
		case reflect.Uint, reflect.Uint8, reflect.Uint16, reflect.Uint32, reflect.Uint64, reflect.Uintptr:
			fmt.Fprintf(h, "%d", rv.Uint())
		case reflect.Float32, reflect.Float64:
			fmt.Fprintf(h, "%x", rv.Float())
		case reflect.Complex64, reflect.Complex128:
			fmt.Fprintf(h, "%v", rv.Complex())
		case reflect.String:
			fmt.Fprintf(h, "%q", rv.String())
		}
	}
	walk(reflect.ValueOf(v), 0)
	return h.Sum64()
}
