#!/usr/bin/env python3
"""Regenerates MANIFEST.json from the table below (kept next to the checks so
that claimed levels, techniques and the not_applicable list stay current)."""
import json

ALL = ["C%02d" % i for i in range(1, 20)]

CHECKS = {
 "C01": dict(
  category="exploration",
  text="Each of the 61 indicator Compute methods is executed on channels for the default and many seeded random admissible configurations, 13-14 series classes (walks, ties, plateaus, flat, monotone, degenerate bars, outliers, prices in a unit 2^40 times larger/smaller, zero/negative integers for additive types) and several lengths; every output position is compared with a slice reference written from the doc comment and evaluated directly on its window (no shared code with the library), tolerance 1e-9 x natural scale, ill-conditioned positions exempt and counted. Every other random configuration is reached through the public fields of a default instance; parameterless constructors are compared with the documented defaults; every exported float field reachable from a default instance must influence the values. Known deviations are recognised only through one-switch deviation models (anything else is a violation). Bounded exploration: holds for the sampled configurations and series.",
  design_ref="DESIGN.md §3 C01, Appendix A",
  note="Trusted: the reference readings in harness/internal/reg (Appendix A records where the doc comment is silent and the reference follows code/convention: those rows guard regressions only); IEEE float64; tolerance rule of DESIGN §3 C01.",
  technique="differential runtime monitoring of real executions against documented-formula slice references (one-switch deviation models for known findings)",
 ),
 "C02": dict(
  category="exploration",
  text="For all 61 indicators and default + random configurations, EVERY input length n in [0, 2w+3] (plus two longer ones) is run and the number of values on every output compared with max(0, n-w), w read from the live instance; alignment (k-th value refers to position k+w) is decided reference-free by the dependence-front probe: inputs changed from position p on must first change output index exactly p-w (never earlier, and not consistently later over 36+ probes; escalated to every position before an output is called late).",
  design_ref="DESIGN.md §3 C02, §1 E2",
  note="Trusted: IdlePeriod() of the instance as the declared w (implied w for Apo, Aroon, Bop, TypicalPrice); Ichimoku's lagging span is by definition LaggingPeriod behind.",
  technique="runtime counting of emitted values per output over all short lengths + dependence-front (metamorphic perturbation) probe",
 ),
 "C03": dict(
  category="exploration",
  text="All indicators and strategies (base, compound, decorated, nested) are run in a timer-free pure-Go child under 4 channel capacities x 4 pacings x 2-4 GOMAXPROCS settings, for lengths around the warm-up, empty inputs and unequal input lengths. Termination is decided by the Go runtime's own deadlock proof (no timeout), leaks by a goroutine census fixed point after each run, consumption by producers having to reach close, determinism by bit-equality across all schedule parameterisations; distinct observed receive interleavings are counted. Every type with two or more periods is also run with permuted, reversed and unrelated periods (termination, leaks and schedule independence only); strategies are also run through ComputeWithOutcome below and above their warm-up; a few pipelines are run with one reader, or the producer, really asleep for 1.25 s in mid-stream and compared with the eager run.",
  design_ref="DESIGN.md §3 C03, §1 E3, §7.2, §7.4",
  note="Trusted: the Go scheduler/runtime deadlock detector (children are built CGO_ENABLED=0 because a cgo extra M disables it); Kahn-network determinacy is what makes sampled schedules representative, and is itself monitored by the bit-equality oracle and C09's race runs.",
  technique="stress execution under varied schedules with runtime deadlock detector, goroutine census (leak monitor) and cross-schedule equality oracle",
 ),
 "C04": dict(
  category="exploration",
  text="For all 61 indicators and all strategies (base, compound, decorated, nested) the prefix law (running on s[0:m] gives, bit for bit, the prefix of the run on s) is checked at sampled cuts on long series and at ALL cuts 0..n on series up to 48, and the suffix law (replacing s[m:] never changes an output for a position < m) with multiplicative replacements of very different magnitudes. Both laws are exact (no tolerance) because every stage is a deterministic function of the history. Bounded exploration over sampled configurations/series.",
  design_ref="DESIGN.md §3 C04",
  note="Trusted: determinism of the pipelines (monitored by C03). A look-ahead that only shows for inputs outside the sampled classes/lengths is out of reach.",
  technique="metamorphic runtime monitoring: prefix law (bit-exact) and suffix-replacement law between executions of the real code",
 ),
 "C05": dict(
  category="exploration",
  text="Every registry strategy (default and random With-configurations), Envelope and Trix strategies, And/Or/Majority/Split/MACD-RSI over real sub-strategies, decorators (also nested and over compounds) and every AllAndStrategies/AllSplitStrategies member is run for every snapshot count from 0 to 2w_s+3 and several longer ones; a monitor counts the actions and checks alphabet, Hold prefix and one-action-per-snapshot. The two strategies known to emit n+1 actions are recognised only by that exact shape.",
  design_ref="DESIGN.md §3 C05, Appendix B",
  note="Trusted: w_s computed from the live instance's IdlePeriod()s by the registry rows (harness/internal/reg/strat_*.go); for Or/Majority/Split the guaranteed-Hold prefix is the smallest sub warm-up, for And the largest.",
  technique="runtime shape monitor (count, alphabet, Hold prefix) over all short lengths",
 ),
 "C06": dict(
  category="exploration",
  text="Each of the 32 base strategies is run on OHLCV series whose five fields vary independently, at default and random configurations (thresholds randomised so both sides of every comparison occur; Buy/Sell counts are recorded per strategy), and every action is compared with the documented decision rule evaluated on the strategy's own indicator instance over the documented fields. This isolates field wiring, rule, comparison direction and alignment from formula correctness (C01). Positions where the compared quantities agree within rounding are exempt; a NaN quantity is not: both documented tests are false there, so Hold is expected. Known deviations are recognised through one-switch deviation models only.",
  design_ref="DESIGN.md §3 C06, Appendix B",
  note="Trusted: the rule readings in harness/internal/reg/strat_*.go (Appendix B; 'crosses above' is read as a level test where the code keeps no previous value; MacdStrategy's undocumented zero-side filter is a code reading, i.e. a regression guard).",
  technique="differential runtime monitoring against the documented rule evaluated on the strategy's own indicator (one-switch deviation models for known findings)",
 ),
 "C07": dict(
  category="exploration",
  text="The real combinators wrap scripted stub strategies that replay chosen action words, so the full space of sub-recommendations is reachable: every tuple of words up to small lengths is enumerated (k=1..3 sub-strategies) and long random words with up to 6 sub-strategies are sampled, including groups that list one instance more than once and closes that sit exactly on a stop level (and one ulp beside it); outputs are compared with slice models of the specified vote / split / swap / no-loss / stop-loss functions and, independently of the models, with two trace safety monitors stated in the property (no Sell at a close not above the preceding Buy; Sell at the first close at or below buy x (1 - pct)). MACD-RSI is compared with the agreement rule over its own real sub-strategies. Exhaustive within the enumerated scope, sampled beyond.",
  design_ref="DESIGN.md §3 C07",
  note="Trusted: the models in harness/internal/props/c07.go (No-Loss sells only strictly above the purchase close, as the property states; the type's doc comment says 'at or above'). Unequal word lengths are C03's business.",
  technique="exhaustive small-scope model-based monitoring with scripted stubs + online trace safety monitors",
 ),
 "C08": dict(
  category="exploration",
  text="Outcome is executed on channels for every action word up to length 7/8 over six value series and for random long words with unequal stream lengths; each execution is compared with an independent cash/shares simulator and passed through the invariants the property lists (one entry per pair, never below -100%, zero before the first Buy, bit-identical after removing redundant actions, alternation and round-trip of Normalize/Denormalize, running transaction count, buy-and-hold = v_i/v_0 - 1 through ComputeWithOutcome on independent OHLC fields and a reused instance).",
  design_ref="DESIGN.md §3 C08",
  note="Trusted: the simulator in harness/internal/props/c08.go; positive finite values only.",
  technique="exhaustive small-scope differential monitoring against an independent simulator + invariant monitors",
 ),
 "C09": dict(
  category="exploration",
  text="For every indicator and strategy one instance is used for a sequence of calls on different inputs and then for 6-8 simultaneous calls at GOMAXPROCS=16; all results must equal those of fresh instances bit for bit, and a reflective deep fingerprint of the instance (unexported fields included) must not change across any call. The same concurrent batches are repeated under the Go race detector (halt_on_error=0; report blocks counted and de-duplicated). The caller's snapshots are compared with copies taken before anything ran (no strategy may write to its input). 36 small pipelines of parameterised stream helpers (RoundDigits, Shift, Skip, Change, Last, Buffered, ...) with different parameters run side by side and are compared with their solo results. Worker-pool races are covered by C12/C13.",
  design_ref="DESIGN.md §3 C09, §1 E4",
  note="Trusted: the race detector only sees executed interleavings (the batch is repeated 3/10 times); concurrent use of one helper.Csv value is not claimed (the library never shares one).",
  technique="Go race detector over concurrent workloads + state-immutability fingerprint + reuse/concurrency equivalence oracle",
 ),
 "C10": dict(
  category="exploration",
  text="Random operation histories are applied in lock-step to a sequential map model and to the in-memory, file-system and SQL repositories (the SQL one through database/sql over an in-memory driver written for this purpose); every return value and error-ness is compared, and every Append is followed at once by a read of the same asset (visibility). Values cover all finite float64 incl. extremes; dates as the property restricts them. Concurrent histories (one writer per asset, 3-8 readers, plain and -race builds) are recorded with an atomic logical clock at the client boundary and every read is checked against the window of states its call/return interval admits (single-writer append-only linearizability, decided exactly because every appended snapshot is unique); the race detector watches the same runs. Histories also hand an unread Get stream to Append for another asset of the same repository, let several writers append to one asset of the in-memory repository (conservation and per-writer order), and append to an asset file that accepts no data (an error is required); GetSince bounds carry times of day and other zones, and the process zone is varied.",
  design_ref="DESIGN.md §3 C10, §7.4",
  note="Trusted: harness/internal/fakesql as the 'conforming driver' (rows in insertion order, statements take effect before returning); for a name appended only with empty batches either an empty result or an error is accepted (SQL cannot tell it from an unknown name); concurrent readers of the file-system/SQL repositories are not overlapped with the writer of the SAME asset (their streams are lazy; the property speaks of sequences of calls), the in-memory repository is.",
  technique="lock-step model-based runtime monitoring of operation histories over three implementations + recorded concurrent histories checked for linearizability (unique-value prefix windows) + Go race detector",
 ),
 "C11": dict(
  category="exploration",
  text="Row structs covering every supported kind (also as named types that implement fmt.Stringer: time.Duration, time.Month, own enum/bool/uint16/string/float types) with values from the extremes of each kind go through random write/append/append-or-write histories on one file (always including a longer file overwritten by a shorter one, with and without header) and are read back and compared with a list model after every step; header permutation / extra columns are checked with files written directly by encoding/csv, also through one reused codec value; JSON streams are round-tripped for floats, ints, strings, times, a struct, values in interface-typed positions (any, map[string]any) and streams several buffers long. Extra CSV columns include ones whose names differ from a real header only in case or surrounding blanks.",
  design_ref="DESIGN.md §3 C11",
  note="Trusted: encoding/csv and encoding/json. The two-byte sequence CR LF inside strings is outside the domain (encoding/csv normalises it on read). One known finding: a lone empty string field.",
  technique="round-trip oracle + file-content list model over operation histories",
 ),
 "C12": dict(
  category="fault_enumeration",
  text="Sync is run between real repositories through a wrapper that records every call/return with a logical clock, injects source-read and target-append failures and yields between operations. For scenarios with up to 4 assets all subsets of failing reads x all subsets of failing appends are enumerated; larger random scenarios vary target prefixes, asset lists and worker counts. Decided per run: exact final state, idempotence, error reporting, isolation of failures, equality across worker counts, linearizability of the recorded target history against the map model (porcupine, partitioned by asset), and absence of data races (race build). The repository's own command line tool (cmd/indicator-sync, built by the parent from the tree under test) is also executed end to end between file-system repositories and its effect compared with the same model.",
  design_ref="DESIGN.md §3 C12",
  note="Trusted: porcupine v1.3.0; Delay=0 (a non-zero delay is a sleep between assets); duplicate names in the asset list are outside the workload.",
  technique="fault injection at repository boundaries + final-state model + porcupine linearizability check of recorded histories + race detector",
 ),
 "C13": dict(
  category="exploration",
  text="Backtest is run with a recording Report whose online trace checker decides the notification protocol; exactly-once delivery per (asset, strategy); content equal to a direct evaluation inside the look-back window; equality of result sets across 1/2/3/8/16 workers; the bundled DataReport and HTMLReport are checked against the same direct evaluation (HTML pages parsed: presence, %.2f outcomes, last action / periods it has stood / number of Buy-Sell recommendations per row, non-increasing order, best entry maximal; a strategy whose individual report file cannot be written may be missing from the page but never shown with other figures); the multi-worker runs are repeated under the race detector; a 'concurrent map writes' crash is attributed by the parent. cmd/indicator-backtest is executed end to end over a file-system repository and its HTML pages are compared with a direct evaluation of the tool's strategy list.",
  design_ref="DESIGN.md §3 C13",
  note="Trusted: snapshot dates are generated relative to the current day and kept >= 2 days from the window edge, so time.Now() inside Backtest never decides a verdict.",
  technique="online protocol trace checker + exactly-once/content oracle + race detector over worker pools",
 ),
 "C14": dict(
  category="exploration",
  text="For every strategy and several series lengths the report's date and column channels are drained through reflection and counted (one value per date in every column), the Close/annotation/Outcome cells are recomputed per row, a rendered report is parsed (one row per date, cells equal to the drained values, nothing left unconsumed; rendering runs in the timer-free child so a wedge is reported by the runtime), and the dependence front of every indicator column must sit exactly on the row of the changed date.",
  design_ref="DESIGN.md §3 C14",
  note="Trusted: reflection on the unexported `values` field of the report columns (no source hook); series longer than the warm-up only, as the property quantifies.",
  technique="runtime counting of column values vs date rows + per-row recomputation + parsed rendering + dependence-front probe",
 ),
 "C19": dict(
  category="fault_enumeration",
  text="Every truncation offset of small valid documents, stacked grammar-aware corruptions and byte mutations are fed to the CSV reader (5 row shapes, with/without header, via reader and via file), the JSON stream reader and the Tiingo repository (13 status codes x body kinds through a fake RoundTripper whose bodies, like net/http's, cannot be read once the request context is done; no network). Documents reach the readers as several io.Reader types. HTTP bodies that start like a document and never end must not be read to their end (progress monitor in the body). Row types with fields the codec does not support (a named type built on time.Time, nested structs, pointers, slices) are read as well; the Tiingo repository is also obtained through asset.NewRepository and driven through Get / Assets / Append. Decided per document: no panic, the stream closes (runtime deadlock detector), delivered rows equal the records of the well-formed prefix computed by an independent reference, no goroutine left behind, response bodies closed, non-200 / missing files surface as errors.",
  design_ref="DESIGN.md §3 C19",
  note="Trusted: encoding/csv / encoding/json tokenisation (the reference uses the same standard-library tokenisers but its own field parsing). Closing the response body stands for 'no goroutine left behind' of the real HTTP transport. Unreadable-by-permission files cannot be produced as root.",
  technique="fault enumeration (all truncation offsets + corruption grammar) with crash/deadlock attribution, well-formed-prefix reference and goroutine census",
 ),
 "C15": dict(
  category="exploration",
  text="Invariant monitors (ranges, band ordering, containment, non-negativity) run on every value emitted by the 20 indicators the property names, over 11 hostile-but-valid OHLCV classes, many period configurations and lengths up to 400; zero-denominator positions are exempt and counted. float32 instantiations of the ratio indicators run on tight-range bars at high price levels and on bars near the top of the float32 range (judged against the float64 instantiation on the same bars). No reference implementation decides the verdict (the registry reference is only used to locate zero denominators).",
  design_ref="DESIGN.md §3 C15",
  note="Trusted: validity of generated bars (low <= open, close <= high, prices > 0, volume >= 0); slack 1e-6 of the range / 1e-9 of the price scale. ATR is checked for its SMA/EMA variants (with the HMA used by SuperTrend the 'average' is not an average).",
  technique="runtime invariant monitoring of emitted values under hostile valid workloads",
 ),
 "C18": dict(
  category="exploration",
  text="Two executions of the real code are related: all prices x 2^a and volumes x 2^b. Indicator outputs must equal the original x 2^(a*dp+b*dv) bit for bit (IEEE-exact), strategies' actions must be identical; x100 / x0.01 within tolerance. Covers all 61 indicators and all strategies incl. compounds and decorators.",
  design_ref="DESIGN.md §3 C18, Appendix A (degrees)",
  note="Trusted: homogeneity degrees of Appendix A; magnitudes stay far from overflow/subnormals; amd64 Go does not fuse multiply-add.",
  technique="metamorphic runtime monitoring: exact power-of-two scale covariance between two executions",
 ),
 "C16": dict(
  category="exploration",
  text="Every stream helper is compared exactly with a pure slice model for all input lengths 0-6 x all parameters 0-8 (all unequal-length combinations for the zippers), three element types with distinct signed elements, a float stream with exact zeros (quotients +-Inf/NaN as IEEE division gives) and 4 schedule parameterisations, inside the timer-free runner (deadlock report, census, producers must reach close); plus random long inputs. The enumerated small scope is exhaustive; beyond it sampled.",
  design_ref="DESIGN.md §3 C16",
  note="Trusted: the slice models in harness/internal/props/c16.go. Head is modelled as take-N-and-leave-the-rest, Seq as half-open, Echo only for inputs at least as long as its memory (shorter inputs are outside the documented behaviour and are skipped, counted).",
  technique="exhaustive small-scope model-based runtime monitoring (slice models) under the deadlock/leak monitors",
 ),
 "C17": dict(
  category="exploration",
  text="Ring and Bst are driven through thousands of random operation histories over all seven numeric element types with values at the extremes of each type, in lock-step with a bounded-FIFO model and a multiset model; every return value is compared and the live tree is walked by reflection (sorted in-order, size and multiplicities equal to the model). All Bst histories up to length 5/6 over a 3-letter alphabet are enumerated exhaustively. The tree's sliding-window clients trend.MovingMax / MovingMin are run over the same pools plus the infinities for every element type and compared with the extreme of each window's multiset. Eight trees are also run at the same time, one goroutine each, each against its own model (independent objects). This is bounded exploration: it shows the models agree on the histories run, not on all histories.",
  design_ref="DESIGN.md §3 C17",
  note="Trusted: the Go runtime and reflect; the FIFO/multiset models in harness/internal/props/c17.go. Ring.Put's return value on a non-full ring is deliberately unchecked (the property only speaks of the displaced element).",
  technique="lock-step model-based runtime monitoring of operation histories + reflective structural invariant walk",
 ),
}

PENDING_REASON = "check not built yet in this revision of /verif (planned: see DESIGN.md §3); not claimed until its monitor runs clean on the unchanged tree"

def main():
    checks = []
    for pid in ALL:
        c = CHECKS.get(pid)
        if not c:
            continue
        checks.append({
            "property_id": pid,
            "quick_cmd": "./check %s quick" % pid,
            "thorough_cmd": "./check %s thorough" % pid,
            "evidence_file": "/verif/evidence/%s.json" % pid,
            "replay_cmd_template": "./check %s --replay {path}" % pid,
            "engine": "vcheck",
            "level_claimed": {"category": c["category"], "text": c["text"], "design_ref": c["design_ref"]},
            "level_note": c["note"],
            "technique": c["technique"],
        })
    m = {
        "version": 1,
        "setup_cmd": "./setup.sh",
        "hooks": {
            "guard": "verif",
            "enable": "children are built with `go build -tags verif` from /repo's working tree via a replace directive; no source hook exists in /repo (all observation points are public API, files the library writes, goroutine dumps or reflection), so the tag currently guards nothing",
            "baseline_off_cmd": "cd /repo && GOFLAGS=-mod=mod GOPROXY=off GOSUMDB=off GOTOOLCHAIN=local go test -vet=off -count=1 ./...",
            "source_commits": [],
            "add_only": True,
        },
        "engines": [
            {"name": "vcheck", "path": "/verif/harness", "serves_properties": sorted(CHECKS),
             "kind_free_text": "Go parent (cmd/vcheck) builds a child (cmd/vchild) against /repo's current tree, runs it in 16 child processes, attributes runtime deadlock reports / panics to the last BEGIN record, counts race-detector reports, applies known_findings.json, writes evidence"},
        ],
        "checks": checks,
        "notes": "Runtime monitoring only. `./check <ID> quick|thorough`; VERIF_SEED selects the case list. Exit 0 = held on everything explored (KNOWN-FINDING lines allowed), 1 = VIOLATION, 3 = inconclusive (watchdog / build failure / too few observations).",
        "not_applicable": [{"property_id": p, "reason": PENDING_REASON} for p in ALL if p not in CHECKS],
    }
    json.dump(m, open("/verif/MANIFEST.json", "w"), indent=1)
    print("wrote MANIFEST.json with", len(checks), "checks")

main()
