#!/usr/bin/env python3
"""Regenerates MANIFEST.json from the table below (kept next to the checks so
that claimed levels, techniques and the not_applicable list stay current)."""
import json

ALL = ["C%02d" % i for i in range(1, 20)]

CHECKS = {
 "C01": dict(
  category="exploration",
  text="Each of the 61 indicator Compute methods is executed on channels for the default and many seeded random admissible configurations, 11-12 series classes (walks, ties, plateaus, flat, monotone, degenerate bars, outliers, zero/negative integers for additive types) and several lengths; every output position is compared with a slice reference written from the doc comment and evaluated directly on its window (no shared code with the library), tolerance 1e-9 x natural scale, ill-conditioned positions exempt and counted. Known deviations are recognised only through one-switch deviation models (anything else is a violation). Bounded exploration: holds for the sampled configurations and series.",
  design_ref="DESIGN.md §3 C01, Appendix A",
  note="Trusted: the reference readings in harness/internal/reg (Appendix A records where the doc comment is silent and the reference follows code/convention: those rows guard regressions only); IEEE float64; tolerance rule of DESIGN §3 C01.",
  technique="differential runtime monitoring of real executions against documented-formula slice references (one-switch deviation models for known findings)",
 ),
 "C02": dict(
  category="exploration",
  text="For all 61 indicators and default + random configurations, EVERY input length n in [0, 2w+3] (plus two longer ones) is run and the number of values on every output compared with max(0, n-w), w read from the live instance; alignment (k-th value refers to position k+w) is decided reference-free by the dependence-front probe: inputs changed from position p on must first change output index exactly p-w (never earlier, and not consistently later over 36+ probes; escalated to every position before an output is called late).",
  design_ref="DESIGN.md §3 C02, §1 E2",
  note="Trusted: IdlePeriod() of the instance as the declared w (implied w for Apo, Aroon, Bop, TypicalPrice); Ichimoku's lagging span is by definition LaggingPeriod behind.",
  technique="runtime counting of emitted values per output over all short lengths + dependence-front (metamorphic perturbation) probe",
 ),
 "C03": dict(
  category="exploration",
  text="All indicators and strategies (base, compound, decorated, nested) are run in a timer-free pure-Go child under 4 channel capacities x 4 pacings x 2-4 GOMAXPROCS settings, for lengths around the warm-up, empty inputs and unequal input lengths. Termination is decided by the Go runtime's own deadlock proof (no timeout), leaks by a goroutine census fixed point after each run, consumption by producers having to reach close, determinism by bit-equality across all schedule parameterisations; distinct observed receive interleavings are counted.",
  design_ref="DESIGN.md §3 C03, §1 E3",
  note="Trusted: the Go scheduler/runtime deadlock detector (children are built CGO_ENABLED=0 because a cgo extra M disables it); Kahn-network determinacy is what makes sampled schedules representative, and is itself monitored by the bit-equality oracle and C09's race runs.",
  technique="stress execution under varied schedules with runtime deadlock detector, goroutine census (leak monitor) and cross-schedule equality oracle",
 ),
 "C16": dict(
  category="exploration",
  text="Every stream helper is compared exactly with a pure slice model for all input lengths 0-6 x all parameters 0-8 (all unequal-length combinations for the zippers), three element types with distinct signed elements and 4 schedule parameterisations, inside the timer-free runner (deadlock report, census, producers must reach close); plus random long inputs. The enumerated small scope is exhaustive; beyond it sampled.",
  design_ref="DESIGN.md §3 C16",
  note="Trusted: the slice models in harness/internal/props/c16.go. Head is modelled as take-N-and-leave-the-rest, Seq as half-open, Echo only for inputs at least as long as its memory (shorter inputs are outside the documented behaviour and are skipped, counted).",
  technique="exhaustive small-scope model-based runtime monitoring (slice models) under the deadlock/leak monitors",
 ),
 "C17": dict(
  category="exploration",
  text="Ring and Bst are driven through thousands of random operation histories over all seven numeric element types with values at the extremes of each type, in lock-step with a bounded-FIFO model and a multiset model; every return value is compared and the live tree is walked by reflection (sorted in-order, size and multiplicities equal to the model). All Bst histories up to length 5/6 over a 3-letter alphabet are enumerated exhaustively. This is bounded exploration: it shows the models agree on the histories run, not on all histories.",
  design_ref="DESIGN.md §3 C17",
  note="Trusted: the Go runtime and reflect; the FIFO/multiset models in harness/internal/props/c17.go. Ring.Put's return value on a non-full ring is deliberately unchecked (the property only speaks of the displaced element).",
  technique="lock-step model-based runtime monitoring of operation histories + reflective structural invariant walk",
 ),
}

PENDING_REASON = "check not built yet in this revision of /verif (planned: see DESIGN.md §3); not claimed until its monitor runs clean on the unchanged tree"

def main():
    checks = []
    for pid in ALL:
        c = CHECKS.get(pid)
        if not c:
            continue
        checks.append({
            "property_id": pid,
            "quick_cmd": "./check %s quick" % pid,
            "thorough_cmd": "./check %s thorough" % pid,
            "evidence_file": "/verif/evidence/%s.json" % pid,
            "replay_cmd_template": "./check %s --replay {path}" % pid,
            "engine": "vcheck",
            "level_claimed": {"category": c["category"], "text": c["text"], "design_ref": c["design_ref"]},
            "level_note": c["note"],
            "technique": c["technique"],
        })
    m = {
        "version": 1,
        "setup_cmd": "./setup.sh",
        "hooks": {
            "guard": "verif",
            "enable": "children are built with `go build -tags verif` from /repo's working tree via a replace directive; no source hook exists in /repo (all observation points are public API, files the library writes, goroutine dumps or reflection), so the tag currently guards nothing",
            "baseline_off_cmd": "cd /repo && GOFLAGS=-mod=mod GOPROXY=off GOSUMDB=off GOTOOLCHAIN=local go test -vet=off -count=1 ./...",
            "source_commits": [],
            "add_only": True,
        },
        "engines": [
            {"name": "vcheck", "path": "/verif/harness", "serves_properties": sorted(CHECKS),
             "kind_free_text": "Go parent (cmd/vcheck) builds a child (cmd/vchild) against /repo's current tree, runs it in 16 child processes, attributes runtime deadlock reports / panics to the last BEGIN record, counts race-detector reports, applies known_findings.json, writes evidence"},
        ],
        "checks": checks,
        "notes": "Runtime monitoring only. `./check <ID> quick|thorough`; VERIF_SEED selects the case list. Exit 0 = held on everything explored (KNOWN-FINDING lines allowed), 1 = VIOLATION, 3 = inconclusive (watchdog / build failure / too few observations).",
        "not_applicable": [{"property_id": p, "reason": PENDING_REASON} for p in ALL if p not in CHECKS],
    }
    json.dump(m, open("/verif/MANIFEST.json", "w"), indent=1)
    print("wrote MANIFEST.json with", len(checks), "checks")

main()
