#!/usr/bin/env python3
"""Regenerates MANIFEST.json from the table below (kept next to the checks so
that claimed levels, techniques and the not_applicable list stay current)."""
import json

ALL = ["C%02d" % i for i in range(1, 20)]

CHECKS = {
 "C17": dict(
  category="exploration",
  text="Ring and Bst are driven through thousands of random operation histories over all seven numeric element types with values at the extremes of each type, in lock-step with a bounded-FIFO model and a multiset model; every return value is compared and the live tree is walked by reflection (sorted in-order, size and multiplicities equal to the model). All Bst histories up to length 5/6 over a 3-letter alphabet are enumerated exhaustively. This is bounded exploration: it shows the models agree on the histories run, not on all histories.",
  design_ref="DESIGN.md §3 C17",
  note="Trusted: the Go runtime and reflect; the FIFO/multiset models in harness/internal/props/c17.go. Ring.Put's return value on a non-full ring is deliberately unchecked (the property only speaks of the displaced element).",
  technique="lock-step model-based runtime monitoring of operation histories + reflective structural invariant walk",
 ),
}

PENDING_REASON = "check not built yet in this revision of /verif (planned: see DESIGN.md §3); not claimed until its monitor runs clean on the unchanged tree"

def main():
    checks = []
    for pid in ALL:
        c = CHECKS.get(pid)
        if not c:
            continue
        checks.append({
            "property_id": pid,
            "quick_cmd": "./check %s quick" % pid,
            "thorough_cmd": "./check %s thorough" % pid,
            "evidence_file": "/verif/evidence/%s.json" % pid,
            "replay_cmd_template": "./check %s --replay {path}" % pid,
            "engine": "vcheck",
            "level_claimed": {"category": c["category"], "text": c["text"], "design_ref": c["design_ref"]},
            "level_note": c["note"],
            "technique": c["technique"],
        })
    m = {
        "version": 1,
        "setup_cmd": "./setup.sh",
        "hooks": {
            "guard": "verif",
            "enable": "children are built with `go build -tags verif` from /repo's working tree via a replace directive; no source hook exists in /repo (all observation points are public API, files the library writes, goroutine dumps or reflection), so the tag currently guards nothing",
            "baseline_off_cmd": "cd /repo && GOFLAGS=-mod=mod GOPROXY=off GOSUMDB=off GOTOOLCHAIN=local go test -vet=off -count=1 ./...",
            "source_commits": [],
            "add_only": True,
        },
        "engines": [
            {"name": "vcheck", "path": "/verif/harness", "serves_properties": sorted(CHECKS),
             "kind_free_text": "Go parent (cmd/vcheck) builds a child (cmd/vchild) against /repo's current tree, runs it in 16 child processes, attributes runtime deadlock reports / panics to the last BEGIN record, counts race-detector reports, applies known_findings.json, writes evidence"},
        ],
        "checks": checks,
        "notes": "Runtime monitoring only. `./check <ID> quick|thorough`; VERIF_SEED selects the case list. Exit 0 = held on everything explored (KNOWN-FINDING lines allowed), 1 = VIOLATION, 3 = inconclusive (watchdog / build failure / too few observations).",
        "not_applicable": [{"property_id": p, "reason": PENDING_REASON} for p in ALL if p not in CHECKS],
    }
    json.dump(m, open("/verif/MANIFEST.json", "w"), indent=1)
    print("wrote MANIFEST.json with", len(checks), "checks")

main()
