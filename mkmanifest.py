#!/usr/bin/env python3
"""Regenerates MANIFEST.json from the table below (kept next to the checks so
that claimed levels, techniques and the not_applicable list stay current)."""
import json

ALL = ["C%02d" % i for i in range(1, 20)]

CHECKS = {
 "C01": dict(
  category="exploration",
  text="Each of the 61 indicator Compute methods is executed on channels for the default and many seeded random admissible configurations, 11-12 series classes (walks, ties, plateaus, flat, monotone, degenerate bars, outliers, zero/negative integers for additive types) and several lengths; every output position is compared with a slice reference written from the doc comment and evaluated directly on its window (no shared code with the library), tolerance 1e-9 x natural scale, ill-conditioned positions exempt and counted. Known deviations are recognised only through one-switch deviation models (anything else is a violation). Bounded exploration: holds for the sampled configurations and series.",
  design_ref="DESIGN.md §3 C01, Appendix A",
  note="Trusted: the reference readings in harness/internal/reg (Appendix A records where the doc comment is silent and the reference follows code/convention: those rows guard regressions only); IEEE float64; tolerance rule of DESIGN §3 C01.",
  technique="differential runtime monitoring of real executions against documented-formula slice references (one-switch deviation models for known findings)",
 ),
 "C02": dict(
  category="exploration",
  text="For all 61 indicators and default + random configurations, EVERY input length n in [0, 2w+3] (plus two longer ones) is run and the number of values on every output compared with max(0, n-w), w read from the live instance; alignment (k-th value refers to position k+w) is decided reference-free by the dependence-front probe: inputs changed from position p on must first change output index exactly p-w (never earlier, and not consistently later over 36+ probes; escalated to every position before an output is called late).",
  design_ref="DESIGN.md §3 C02, §1 E2",
  note="Trusted: IdlePeriod() of the instance as the declared w (implied w for Apo, Aroon, Bop, TypicalPrice); Ichimoku's lagging span is by definition LaggingPeriod behind.",
  technique="runtime counting of emitted values per output over all short lengths + dependence-front (metamorphic perturbation) probe",
 ),
 "C03": dict(
  category="exploration",
  text="All indicators and strategies (base, compound, decorated, nested) are run in a timer-free pure-Go child under 4 channel capacities x 4 pacings x 2-4 GOMAXPROCS settings, for lengths around the warm-up, empty inputs and unequal input lengths. Termination is decided by the Go runtime's own deadlock proof (no timeout), leaks by a goroutine census fixed point after each run, consumption by producers having to reach close, determinism by bit-equality across all schedule parameterisations; distinct observed receive interleavings are counted.",
  design_ref="DESIGN.md §3 C03, §1 E3",
  note="Trusted: the Go scheduler/runtime deadlock detector (children are built CGO_ENABLED=0 because a cgo extra M disables it); Kahn-network determinacy is what makes sampled schedules representative, and is itself monitored by the bit-equality oracle and C09's race runs.",
  technique="stress execution under varied schedules with runtime deadlock detector, goroutine census (leak monitor) and cross-schedule equality oracle",
 ),
 "C04": dict(
  category="exploration",
  text="For all 61 indicators and all strategies (base, compound, decorated, nested) the prefix law (running on s[0:m] gives, bit for bit, the prefix of the run on s) is checked at sampled cuts on long series and at ALL cuts 0..n on series up to 48, and the suffix law (replacing s[m:] never changes an output for a position < m) with multiplicative replacements of very different magnitudes. Both laws are exact (no tolerance) because every stage is a deterministic function of the history. Bounded exploration over sampled configurations/series.",
  design_ref="DESIGN.md §3 C04",
  note="Trusted: determinism of the pipelines (monitored by C03). A look-ahead that only shows for inputs outside the sampled classes/lengths is out of reach.",
  technique="metamorphic runtime monitoring: prefix law (bit-exact) and suffix-replacement law between executions of the real code",
 ),
 "C05": dict(
  category="exploration",
  text="Every registry strategy (default and random With-configurations), Envelope and Trix strategies, And/Or/Majority/Split/MACD-RSI over real sub-strategies, decorators (also nested and over compounds) and every AllAndStrategies/AllSplitStrategies member is run for every snapshot count from 0 to 2w_s+3 and several longer ones; a monitor counts the actions and checks alphabet, Hold prefix and one-action-per-snapshot. The two strategies known to emit n+1 actions are recognised only by that exact shape.",
  design_ref="DESIGN.md §3 C05, Appendix B",
  note="Trusted: w_s computed from the live instance's IdlePeriod()s by the registry rows (harness/internal/reg/strat_*.go); for Or/Majority/Split the guaranteed-Hold prefix is the smallest sub warm-up, for And the largest.",
  technique="runtime shape monitor (count, alphabet, Hold prefix) over all short lengths",
 ),
 "C06": dict(
  category="exploration",
  text="Each of the 32 base strategies is run on OHLCV series whose five fields vary independently, at default and random configurations (thresholds randomised so both sides of every comparison occur; Buy/Sell counts are recorded per strategy), and every action is compared with the documented decision rule evaluated on the strategy's own indicator instance over the documented fields. This isolates field wiring, rule, comparison direction and alignment from formula correctness (C01). Known deviations are recognised through one-switch deviation models only.",
  design_ref="DESIGN.md §3 C06, Appendix B",
  note="Trusted: the rule readings in harness/internal/reg/strat_*.go (Appendix B; 'crosses above' is read as a level test where the code keeps no previous value; MacdStrategy's undocumented zero-side filter is a code reading, i.e. a regression guard).",
  technique="differential runtime monitoring against the documented rule evaluated on the strategy's own indicator (one-switch deviation models for known findings)",
 ),
 "C15": dict(
  category="exploration",
  text="Invariant monitors (ranges, band ordering, containment, non-negativity) run on every value emitted by the 20 indicators the property names, over 11 hostile-but-valid OHLCV classes, many period configurations and lengths up to 400; zero-denominator positions are exempt and counted. No reference implementation decides the verdict (the registry reference is only used to locate zero denominators).",
  design_ref="DESIGN.md §3 C15",
  note="Trusted: validity of generated bars (low <= open, close <= high, prices > 0, volume >= 0); slack 1e-6 of the range / 1e-9 of the price scale. ATR is checked for its SMA/EMA variants (with the HMA used by SuperTrend the 'average' is not an average).",
  technique="runtime invariant monitoring of emitted values under hostile valid workloads",
 ),
 "C18": dict(
  category="exploration",
  text="Two executions of the real code are related: all prices x 2^a and volumes x 2^b. Indicator outputs must equal the original x 2^(a*dp+b*dv) bit for bit (IEEE-exact), strategies' actions must be identical; x100 / x0.01 within tolerance. Covers all 61 indicators and all strategies incl. compounds and decorators.",
  design_ref="DESIGN.md §3 C18, Appendix A (degrees)",
  note="Trusted: homogeneity degrees of Appendix A; magnitudes stay far from overflow/subnormals; amd64 Go does not fuse multiply-add.",
  technique="metamorphic runtime monitoring: exact power-of-two scale covariance between two executions",
 ),
 "C16": dict(
  category="exploration",
  text="Every stream helper is compared exactly with a pure slice model for all input lengths 0-6 x all parameters 0-8 (all unequal-length combinations for the zippers), three element types with distinct signed elements and 4 schedule parameterisations, inside the timer-free runner (deadlock report, census, producers must reach close); plus random long inputs. The enumerated small scope is exhaustive; beyond it sampled.",
  design_ref="DESIGN.md §3 C16",
  note="Trusted: the slice models in harness/internal/props/c16.go. Head is modelled as take-N-and-leave-the-rest, Seq as half-open, Echo only for inputs at least as long as its memory (shorter inputs are outside the documented behaviour and are skipped, counted).",
  technique="exhaustive small-scope model-based runtime monitoring (slice models) under the deadlock/leak monitors",
 ),
 "C17": dict(
  category="exploration",
  text="Ring and Bst are driven through thousands of random operation histories over all seven numeric element types with values at the extremes of each type, in lock-step with a bounded-FIFO model and a multiset model; every return value is compared and the live tree is walked by reflection (sorted in-order, size and multiplicities equal to the model). All Bst histories up to length 5/6 over a 3-letter alphabet are enumerated exhaustively. This is bounded exploration: it shows the models agree on the histories run, not on all histories.",
  design_ref="DESIGN.md §3 C17",
  note="Trusted: the Go runtime and reflect; the FIFO/multiset models in harness/internal/props/c17.go. Ring.Put's return value on a non-full ring is deliberately unchecked (the property only speaks of the displaced element).",
  technique="lock-step model-based runtime monitoring of operation histories + reflective structural invariant walk",
 ),
}

PENDING_REASON = "check not built yet in this revision of /verif (planned: see DESIGN.md §3); not claimed until its monitor runs clean on the unchanged tree"

def main():
    checks = []
    for pid in ALL:
        c = CHECKS.get(pid)
        if not c:
            continue
        checks.append({
            "property_id": pid,
            "quick_cmd": "./check %s quick" % pid,
            "thorough_cmd": "./check %s thorough" % pid,
            "evidence_file": "/verif/evidence/%s.json" % pid,
            "replay_cmd_template": "./check %s --replay {path}" % pid,
            "engine": "vcheck",
            "level_claimed": {"category": c["category"], "text": c["text"], "design_ref": c["design_ref"]},
            "level_note": c["note"],
            "technique": c["technique"],
        })
    m = {
        "version": 1,
        "setup_cmd": "./setup.sh",
        "hooks": {
            "guard": "verif",
            "enable": "children are built with `go build -tags verif` from /repo's working tree via a replace directive; no source hook exists in /repo (all observation points are public API, files the library writes, goroutine dumps or reflection), so the tag currently guards nothing",
            "baseline_off_cmd": "cd /repo && GOFLAGS=-mod=mod GOPROXY=off GOSUMDB=off GOTOOLCHAIN=local go test -vet=off -count=1 ./...",
            "source_commits": [],
            "add_only": True,
        },
        "engines": [
            {"name": "vcheck", "path": "/verif/harness", "serves_properties": sorted(CHECKS),
             "kind_free_text": "Go parent (cmd/vcheck) builds a child (cmd/vchild) against /repo's current tree, runs it in 16 child processes, attributes runtime deadlock reports / panics to the last BEGIN record, counts race-detector reports, applies known_findings.json, writes evidence"},
        ],
        "checks": checks,
        "notes": "Runtime monitoring only. `./check <ID> quick|thorough`; VERIF_SEED selects the case list. Exit 0 = held on everything explored (KNOWN-FINDING lines allowed), 1 = VIOLATION, 3 = inconclusive (watchdog / build failure / too few observations).",
        "not_applicable": [{"property_id": p, "reason": PENDING_REASON} for p in ALL if p not in CHECKS],
    }
    json.dump(m, open("/verif/MANIFEST.json", "w"), indent=1)
    print("wrote MANIFEST.json with", len(checks), "checks")

main()
